#!/usr/bin/env python3
"""Harmless (behaviour-preserving) refactorings: false-alarm measurement.
  harmless.py import <worktree> <property> <variant>   keep <worktree>/HARMLESS/<variant>.diff after checking that it applies and the tests pass
  harmless.py run [<id> ...] [--all-checks]            apply each kept refactoring to /repo, run the check(s), undo; an alarm is a false alarm
"""
import json, os, subprocess, sys, shutil, time
VERIF = os.path.dirname(os.path.dirname(os.path.abspath(__file__)))
HARM = os.path.join(VERIF, 'harmless'); PY = '/venv/bin/python'
# the tree the refactorings are applied to: /repo, or (SEED_REPO) a scratch worktree of it; the checks follow through VERIF_REPO
REPO = os.environ.get('SEED_REPO', '/repo')
ENV = dict(os.environ, VERIF_REPO=REPO) if REPO != '/repo' else None
def sh(cmd, cwd=None, timeout=3600):
    p = subprocess.run(cmd, shell=True, cwd=cwd, capture_output=True, text=True, timeout=timeout, env=ENV)
    return p.returncode, p.stdout + p.stderr
def do_import(wt, prop, variant):
    sid = f'{prop}-{variant}'
    diff = os.path.join(wt, 'HARMLESS', f'{variant}.diff')
    if not os.path.exists(diff): print(sid, 'missing'); return False
    sh('git checkout -- maltoolbox', cwd=wt)
    rc, out = sh(f'git apply {diff}', cwd=wt)
    if rc: print(sid, 'does not apply', out[-200:]); return False
    ok = False
    for _ in range(3):
        rc, out = sh(f'{PY} -m pytest -q -p no:cacheprovider -x', cwd=wt)
        if rc == 0: ok = True; break
    sh('git checkout -- maltoolbox', cwd=wt)
    rcr, _ = sh(f'git apply --check {diff}', cwd=REPO)
    print(f'{sid}: tests with refactoring {"pass" if ok else "FAIL"}, applies to /repo: {rcr == 0}')
    if not ok or rcr: return False
    d = os.path.join(HARM, sid); os.makedirs(d, exist_ok=True)
    shutil.copy(diff, os.path.join(d, 'patch.diff'))
    for f in (f'equiv_{variant}.py', 'notes.md'):
        if os.path.exists(os.path.join(wt, 'HARMLESS', f)): shutil.copy(os.path.join(wt, 'HARMLESS', f), os.path.join(d, f))
    rc, stat = sh(f'git apply --stat {diff}', cwd=REPO)
    json.dump({'id': sid, 'property': prop, 'origin': 'independent sub-agent asked for a behaviour-preserving refactoring of the anchored code',
               'files': stat.strip().split('\n')[:-1]}, open(os.path.join(d, 'meta.json'), 'w'), indent=1)
    return True
def do_run(ids, all_checks):
    man = json.load(open(os.path.join(VERIF, 'MANIFEST.json')))
    claimed = [c['property_id'] for c in man['checks']]
    ids = ids or sorted(os.listdir(HARM))
    for sid in ids:
        d = os.path.join(HARM, sid)
        if not os.path.exists(os.path.join(d, 'patch.diff')): continue
        meta = json.load(open(os.path.join(d, 'meta.json')))
        rc, out = sh('git status --porcelain', cwd=REPO); assert out.strip() == '', '/repo not clean'
        rc, out = sh(f'git apply {os.path.join(d, "patch.diff")}', cwd=REPO)
        if rc: print(sid, 'patch no longer applies'); continue
        try:
            props = claimed if all_checks else [meta['property']]
            res = {}
            procs = {p: subprocess.Popen(f'./check {p} quick', shell=True, cwd=VERIF, stdout=subprocess.PIPE, stderr=subprocess.STDOUT, text=True, env=ENV) for p in props}
            for p, pr in procs.items():
                out = pr.communicate()[0]
                res[p] = {'rc': pr.returncode, 'lines': [l for l in out.split('\n') if l.startswith(('VIOLATION', 'NOTE'))][:3]}
            meta['results'] = res
            alarms = {p: r for p, r in res.items() if r['rc'] != 0}
            notes = [p for p, r in res.items() if any(l.startswith('NOTE') for l in r['lines'])]
            print(sid, 'FALSE-ALARM? ' + json.dumps(alarms)[:400] if alarms else 'quiet', ('(tie notes: ' + ','.join(notes) + ')') if notes else '', flush=True)
        finally:
            sh('git checkout -- .', cwd=REPO)
        json.dump(meta, open(os.path.join(d, 'meta.json'), 'w'), indent=1)
if __name__ == '__main__':
    a = sys.argv[1:]
    if a[0] == 'import': sys.exit(0 if do_import(*a[1:4]) else 1)
    if a[0] == 'run': do_run([x for x in a[1:] if not x.startswith('--')], '--all-checks' in a)
