#!/bin/bash
# usage: tools/sweep.sh <first seed> <last seed> [tier]   — runs every check with each seed on the unchanged tree
# (meant for `vp run --with-repo -- tools/sweep.sh 10 20`: builds the Lean project in the snapshot first)
cd "$(dirname "$0")/.."
[ -n "$VP_RUN_REPO" ] && export VERIF_REPO="$VP_RUN_REPO"
./setup.sh || exit 2
tier=${3:-quick}
bad=0
for s in $(seq $1 $2); do
  for i in 01 02 03 04 05 06 07 08 09 10 11 12 13 14 15 16 17 18 19; do echo C$i; done | \
    xargs -P 6 -I{} sh -c "VERIF_SEED=$s ./check {} $tier > /tmp/sweep.{}.$s.log 2>&1; rc=\$?; if [ \$rc -ne 0 ]; then echo \"ALARM {} seed=$s rc=\$rc\"; grep -h 'VIOLATION\|Error\|error' /tmp/sweep.{}.$s.log | head -3; fi; tail -n1 /tmp/sweep.{}.$s.log"
done
echo sweep done
