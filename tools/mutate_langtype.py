#!/usr/bin/env python3
"""Mutation test of the `langtype` tie (C15_Build):  /venv/bin/python tools/mutate_langtype.py <repo snapshot> <scratch dir>

Each mutant is a scratch copy of the repository with ONE textual change to maltoolbox/language/languagegraph.py;
`common.REPO` is pointed at it and `tie.translator_tie('C15')` is asked for the status."""
import os, shutil, sys
sys.path.insert(0, os.path.dirname(os.path.dirname(os.path.abspath(__file__))))
from harness import common, tie

F = 'maltoolbox/language/languagegraph.py'
MUT = [
    ('M1', "union typed by the left operand only (pre-a5f35ed)", "if step_expression['type'] == 'union':", "if step_expression['type'] == 'unionX':"),
    ('M2', "field: left-field match yields the right asset (swapped)", "new_target_asset = association.left_field.asset", "new_target_asset = association.right_field.asset"),
    ('M3', "subType: dropped guard `is_subasset_of(result_target_asset)`", "if not subtype_asset.is_subasset_of(result_target_asset):", "if False:"),
    ('M4', "inheritance linked on one side only (sub_assets not filled)", "super_asset.sub_assets.append(asset)", "pass"),
    ('M5', "an already created association is created again (`continue` dropped)", "                    # The association was already created, skip it\n                    continue", "                    pass"),
    ('M6', "dropped guard `assoc_node not in asset.associations`", "if assoc_node not in asset.associations:", "if True:"),
    ('M7', "unknown target step silently skipped (raise -> continue)", "                if not target_attack_step:\n                    msg = 'Failed to find target attack step %s on %s to ' \\\n                          'link with for step expression:\\n%s'\n                    raise LanguageGraphStepExpressionError(", "                if not target_attack_step:\n                    continue\n                if False:\n                    msg = 'Failed to find target attack step %s on %s to ' \\\n                          'link with for step expression:\\n%s'\n                    raise LanguageGraphStepExpressionError("),
    ('M8', "the loop over `associations` appends to that list (live list)", "                left_asset = next((asset for asset in self.assets \\\n                    if asset.name == association['leftAsset']), None)", "                associations.append(association)\n                left_asset = next((asset for asset in self.assets \\\n                    if asset.name == association['leftAsset']), None)"),
    ('M9', "`if asset_info['superAsset']:` -> `is not None` (the empty string now counts)", "if asset_info['superAsset']:", "if asset_info['superAsset'] is not None:"),
    ('M10', "_get_associations_for_asset_type: `or` -> `and`", "if assoc['leftAsset'] == asset_type or \\\n                assoc['rightAsset'] == asset_type)", "if assoc['leftAsset'] == asset_type and \\\n                assoc['rightAsset'] == asset_type)"),
    ('M11', "get_all_common_superassets intersects with itself", "return self_superassets.intersection(other_superassets)", "return self_superassets.intersection(self_superassets)"),
    ('M12', "collect: the right operand is typed from the source instead of the left operand's target (swapped argument)", "                        lh_target_asset,\n                        lh_dep_chain,\n                        step_expression['rhs'])", "                        target_asset,\n                        lh_dep_chain,\n                        step_expression['rhs'])"),
    ('M13', "descendants no longer get the association (`extend(asset.sub_assets)` dropped)", "associated_assets.extend(asset.sub_assets)", "pass"),
    ('M14', "early `return` before the step-linking loop", "        # Then, link all of the attack step nodes according to their associations.\n", "        return\n"),
    ('P1', "local `associated_assets` renamed", "associated_assets", "work_list"),
    ('P2', "extra logging in the inheritance loop", "                super_asset.sub_assets.append(asset)", "                logger.debug('linking %s', asset_info['name'])\n                super_asset.sub_assets.append(asset)"),
    ('P3', "two independent statements swapped (appends of a new attack step)", "                asset.attack_steps.append(attack_step_node)\n                self.attack_steps.append(attack_step_node)", "                self.attack_steps.append(attack_step_node)\n                asset.attack_steps.append(attack_step_node)"),
    ('P4', "local `subtype_name` renamed + extra logging in process_step_expression", "subtype_name", "wanted_subtype"),
]

def main(repo, scratch):
    common.enter_scratch()
    rows = []
    only = sys.argv[3:]
    for mid, what, old, new in MUT:
        if only and mid not in only: continue
        d = os.path.join(scratch, mid)
        shutil.rmtree(d, ignore_errors=True)
        os.makedirs(d)
        shutil.copytree(os.path.join(repo, 'maltoolbox'), os.path.join(d, 'maltoolbox'))
        p = os.path.join(d, F)
        src = open(p, encoding='utf-8').read()
        if mid in ('P1', 'P4'):
            assert src.count(old) >= 2, mid
            src = src.replace(old, new)
        else:
            assert src.count(old) == 1, (mid, src.count(old))
            src = src.replace(old, new)
        open(p, 'w', encoding='utf-8').write(src)
        common.REPO = d
        r = tie.translator_tie('C15')
        detail = r.get('detail', '')
        first = detail.split(' no longer checks')[0] if r['status'] == 'broken' else detail[:110]
        rows.append((mid, what, r['status'], first))
        print(f'| {mid} | {what} | {r["status"]} | {first} |', flush=True)
    return rows

if __name__ == '__main__':
    main(sys.argv[1], sys.argv[2])
