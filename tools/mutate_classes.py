"""Mutation test of the translated tie of the `classes` domain (C06): notes/NOTES_classes.md.

    /venv/bin/python tools/mutate_classes.py <copy of the repo> [<scratch dir>] [ids ...]

Each mutant is a copy of <copy of the repo>/maltoolbox with one change to maltoolbox/language/classes_factory.py;
common.REPO is pointed at it and tie.translator_tie('C06') must say broken / untranslatable for the defects and
identical / reproved for the behaviour-preserving rewrites.  Nothing under /repo is touched."""
import sys, os, shutil, ast
ROOT = os.path.dirname(os.path.dirname(os.path.abspath(__file__)))
sys.path.insert(0, ROOT)
from harness import common, tie
common.enter_scratch()
BASE = sys.argv[1]
WORK = sys.argv[2] if len(sys.argv) > 2 and not (sys.argv[2][0] in 'MP' and sys.argv[2][1:].isdigit()) else '/tmp/mutate_classes'
os.makedirs(WORK, exist_ok=True)
F = 'maltoolbox/language/classes_factory.py'
src = open(os.path.join(BASE, F)).read()


def rep(old, new, count=1):
    assert src.count(old) >= 1, old
    return lambda s: s.replace(old, new, count)


MUTS = [
 ('M1', 'defect', "`if field.maximum is not None` -> truthiness (the defect fixed by 6ddb0c4: maximum 0 = unlimited)",
  rep("if field.maximum is not None:", "if field.maximum:")),
 ('M2', 'defect', "defaults swapped: Enabled -> 0.0, otherwise 1.0",
  rep("default_defense_value = 1.0\n                else:\n                    default_defense_value = 0.0",
      "default_defense_value = 0.0\n                else:\n                    default_defense_value = 1.0")),
 ('M3', 'defect', "dropped guard `defense.ttc and` (a defense without TTC now raises AttributeError)",
  rep("if defense.ttc and defense.ttc.get('name') == 'Enabled':", "if defense.ttc.get('name') == 'Enabled':")),
 ('M4', 'defect', "sub-entry name with left and right asset swapped",
  rep("subentry_name = assoc.name + '_' + assoc.left_field.asset.name + '_' \\\n                + assoc.right_field.asset.name",
      "subentry_name = assoc.name + '_' + assoc.right_field.asset.name + '_' \\\n                + assoc.left_field.asset.name")),
 ('M5', 'defect', "`count > 1` -> `count > 2` (two associations sharing a name overwrite each other)",
  rep("if count > 1:", "if count > 2:")),
 ('M6', 'defect', "asset classes no longer appended to LanguageAsset.oneOf (one side only)",
  rep("""            self.json_schema['definitions']['LanguageAsset']['oneOf'].append(
                {'$ref': '#/definitions/LanguageAsset/definitions/' + asset.name}
            )
""", "")),
 ('M7', 'defect', "right field never created",
  rep("            create_association_field(assoc, assoc_json_entry, 'right')\n", "")),
 ('M8', 'defect', "cleanup loop iterates the live `definitions` dictionary while deleting from its members",
  rep("for definition in ('LanguageAsset', 'LanguageAssociation'):", "for definition in self.json_schema['definitions']:")),
 ('M9', 'defect', "sub-entry stored first, its title set afterwards through the local name (aliasing)",
  rep("""            assoc_json_subentry['title'] = subentry_name
            self.json_schema['definitions']['LanguageAssociation']\\
                ['definitions'][assoc.name]['definitions'][subentry_name] = assoc_json_subentry
""", """            self.json_schema['definitions']['LanguageAssociation']\\
                ['definitions'][assoc.name]['definitions'][subentry_name] = assoc_json_subentry
            assoc_json_subentry['title'] = subentry_name
""")),
 ('M10', 'defect', "defenses selected by `step.type == 'exist'`",
  rep("filter(lambda step: step.type == 'defense', asset.attack_steps)", "filter(lambda step: step.type == 'exist', asset.attack_steps)")),
 ('M11', 'defect', "`maxItems` written as `minItems`",
  rep("['maxItems'] = field.maximum", "['minItems'] = field.maximum")),
 ('M12', 'defect', "early return in _generate_associations after the first association",
  rep("""                    append({'$ref': '#/definitions/LanguageAssociation/' +
                    'definitions/' + assoc.name})
""", """                    append({'$ref': '#/definitions/LanguageAssociation/' +
                    'definitions/' + assoc.name})
            return
""")),
 ('M13', 'defect', "items refer to the field name instead of the asset type",
  rep("'#/definitions/LanguageAsset/definitions/' +\n                            field.asset.name", "'#/definitions/LanguageAsset/definitions/' +\n                            field.fieldname")),
 ('M14', 'defect', "get_association_by_signature: `len(...) > 1` -> `> 0`",
  rep("len(assoc_entry['definitions']) > 1:", "len(assoc_entry['definitions']) > 0:")),
 ('M15', 'defect', "empty `oneOf` no longer removed (`if not` -> `if`)",
  rep("if not self.json_schema['definitions'][definition]['oneOf']:", "if self.json_schema['definitions'][definition]['oneOf']:")),
 ('M16', 'defect', "fix 6addd5c reverted: `defense.ttc.get('name')` -> `defense.ttc['name']` (KeyError on a composite TTC)",
  rep("defense.ttc.get('name')", "defense.ttc['name']")),
 ('M17', 'defect', "`.get('name')` with the default 'Enabled' (a composite TTC would default to 1)",
  rep("defense.ttc.get('name')", "defense.ttc.get('name', 'Enabled')")),
 ('P1', 'harmless', "local `asset_json_entry` of _generate_assets renamed",
  lambda s: s.replace(s[s.index("    def _generate_assets"):s.index("    def _generate_associations")],
                      s[s.index("    def _generate_assets"):s.index("    def _generate_associations")].replace("asset_json_entry", "entry"))),
 ('P2', 'harmless', "extra logging in the association loop",
  rep("            if count > 1:", "            logger.debug('%s occurs %d times', assoc.name, count)\n            if count > 1:")),
 ('P3', 'harmless', "the sub-entry name is computed before the entry is created (independent statements swapped)",
  rep("""            assoc_json_subentry = create_association_entry(assoc)
            subentry_name = assoc.name + '_' + assoc.left_field.asset.name + '_' \\
                + assoc.right_field.asset.name
""", """            subentry_name = assoc.name + '_' + assoc.left_field.asset.name + '_' \\
                + assoc.right_field.asset.name
            assoc_json_subentry = create_association_entry(assoc)
""")),
 ('P4', 'harmless', "`if not assoc_name in` -> `if assoc_name not in`",
  rep("if not assoc_name in lang_assocs_entries:", "if assoc_name not in lang_assocs_entries:")),
]
only = [a for a in sys.argv[2:] if a[0] in 'MP' and a[1:].isdigit()]
rows = []
for mid, kind, desc, f in MUTS:
    if only and mid not in only: continue
    new = f(src)
    if new == src:
        rows.append((mid, kind, desc, 'NOT APPLIED', '')); print(mid, 'NOT APPLIED'); continue
    ast.parse(new)
    d = os.path.join(WORK, mid)
    shutil.rmtree(d, ignore_errors=True)
    shutil.copytree(os.path.join(BASE, 'maltoolbox'), os.path.join(d, 'maltoolbox'))
    open(os.path.join(d, F), 'w').write(new)
    common.REPO = d
    r = tie.translator_tie('C06')
    det = (r.get('detail', '') or '').replace('\n', ' ')[:200]
    mine = [m for m in r.get('changed_modules', []) if 'GenClasses' in m]
    rows.append((mid, kind, desc, r['status'], det))
    print(mid, kind, r['status'], mine, det, flush=True)
print()
print('| id | kind | change to `classes_factory.py` | status |')
print('|---|---|---|---|')
for mid, kind, desc, st, det in rows:
    print(f'| {mid} | {kind} | {desc} | {st} |')
