#!/bin/bash
# usage: tools/thorough_all.sh   — every thorough check once on the unchanged tree (meant for `vp run -- tools/thorough_all.sh`)
cd "$(dirname "$0")/.."
[ -n "$VP_RUN_REPO" ] && export VERIF_REPO="$VP_RUN_REPO"
./setup.sh || exit 2
export VERIF_SEED=${1:-0}
for i in 01 02 03 04 05 06 07 08 09 10 11 12 13 14 15 16 17 18 19; do echo C$i; done | \
  xargs -P 4 -I{} sh -c "/usr/bin/time -f '{} %es' ./check {} thorough > /tmp/thorough.{}.log 2>&1; rc=\$?; [ \$rc -ne 0 ] && echo \"ALARM {} rc=\$rc\" && grep -h 'VIOLATION' /tmp/thorough.{}.log | head -3; tail -n 2 /tmp/thorough.{}.log"
echo thorough done
