#!/bin/bash
# runs every check in the thorough tier once (meant for `vp run --with-repo -- tools/thorough_all.sh`)
cd "$(dirname "$0")/.."
[ -n "$VP_RUN_REPO" ] && export VERIF_REPO="$VP_RUN_REPO"
./setup.sh || exit 2
for i in 01 02 03 04 05 06 07 08 09 10 11 12 13 14 15 16 17 18 19; do echo C$i; done | \
  xargs -P 1 -I{} sh -c "/usr/bin/time -f '{} wall=%es mem=%MkB' ./check {} thorough > /tmp/thorough.{}.log 2>&1; echo \"{} rc=\$?\"; tail -n2 /tmp/thorough.{}.log"
echo thorough done
