#!/usr/bin/env python3
"""Seeded-defect bookkeeping.
  seeded.py import <worktree> <property> <variant> [<id>]   validate a mutant produced in a scratch worktree and keep it
  seeded.py run [<id> ...] [--tier quick|thorough] [--all-checks]   apply each kept patch to /repo, run the checks, undo
"""
import json, os, subprocess, sys, shutil, time
VERIF = os.path.dirname(os.path.dirname(os.path.abspath(__file__)))
SEEDED = os.path.join(VERIF, 'seeded')
# the tree the patches are applied to: /repo, or (SEED_REPO) a scratch worktree of it, so that other work that
# reads /repo is not disturbed; the checks are then pointed at it through VERIF_REPO
REPO = os.environ.get('SEED_REPO', '/repo')
PY = '/venv/bin/python'

def sh(cmd, cwd=None, timeout=1800):
    env = dict(os.environ, VERIF_REPO=REPO) if REPO != '/repo' else None
    p = subprocess.run(cmd, shell=True, cwd=cwd, capture_output=True, text=True, timeout=timeout, env=env)
    return p.returncode, p.stdout + p.stderr

def tests(wt):
    for attempt in range(2):
        rc, out = sh(f'{PY} -m pytest -q -p no:cacheprovider -x', cwd=wt)
        if rc == 0: return True, out[-200:]
    return False, out[-600:]

def do_import(wt, prop, variant, sid=None):
    sid = sid or f'{prop}-{variant}'
    diff = os.path.join(wt, 'MUTANT', f'{variant}.diff'); demo = os.path.join(wt, 'MUTANT', f'demo_{variant}.py')
    assert os.path.exists(diff) and os.path.exists(demo), 'missing files'
    sh('git checkout -- maltoolbox', cwd=wt)
    rc0, out0 = sh(f'{PY} MUTANT/demo_{variant}.py', cwd=wt)
    rc, out = sh(f'git apply {diff}', cwd=wt)
    if rc: print('patch does not apply', out); return False
    ok, tout = tests(wt)
    rc1, out1 = sh(f'{PY} MUTANT/demo_{variant}.py', cwd=wt)
    sh('git checkout -- maltoolbox', cwd=wt)
    rcr, outr = sh(f'git apply --check {diff}', cwd=REPO)
    print(f'{sid}: demo clean rc={rc0}, tests with patch {"pass" if ok else "FAIL"}, demo with patch rc={rc1}, applies to /repo: {rcr == 0}')
    if rc0 != 0 or not ok or rc1 == 0 or rcr != 0:
        print(out0[-300:], tout, out1[-300:], outr[-300:]); return False
    d = os.path.join(SEEDED, sid); os.makedirs(d, exist_ok=True)
    shutil.copy(diff, os.path.join(d, 'patch.diff')); shutil.copy(demo, os.path.join(d, 'demo.py'))
    notes = open(os.path.join(wt, 'MUTANT', 'notes.md')).read() if os.path.exists(os.path.join(wt, 'MUTANT', 'notes.md')) else ''
    open(os.path.join(d, 'notes.md'), 'w').write(notes)
    meta = {'id': sid, 'property': prop, 'variant': variant, 'origin': 'independent sub-agent given only the property text and a scratch worktree',
            'confirmed': {'demo_on_clean_tree_rc': rc0, 'existing_tests_pass_with_patch': ok, 'demo_with_patch_rc': rc1,
                          'demo_failure': out1.strip().split('\n')[-1][:300]},
            'commands': [f'cd <worktree> && git apply patch.diff && {PY} -m pytest -q -p no:cacheprovider && {PY} demo.py'],
            'needs_to_manifest': 'see notes.md'}
    json.dump(meta, open(os.path.join(d, 'meta.json'), 'w'), indent=1)
    return True

def do_run(ids, tier='quick', all_checks=False):
    man = json.load(open(os.path.join(VERIF, 'MANIFEST.json')))
    claimed = [c['property_id'] for c in man['checks']]
    ids = ids or sorted(os.listdir(SEEDED))
    summary = {}
    for sid in ids:
        d = os.path.join(SEEDED, sid)
        if not os.path.exists(os.path.join(d, 'patch.diff')): continue
        meta = json.load(open(os.path.join(d, 'meta.json')))
        if meta.get('retired'): print(sid, 'retired:', meta['retired'][:80]); summary[sid] = 'retired'; continue
        rc, out = sh('git status --porcelain', cwd=REPO)
        assert out.strip() == '', '/repo not clean: ' + out
        rc, out = sh(f'git apply {os.path.join(d, "patch.diff")}', cwd=REPO)
        if rc: print(sid, 'patch no longer applies'); summary[sid] = 'patch-does-not-apply'; continue
        try:
            props = claimed if all_checks else [meta['property']] + [p for p in meta.get('also_check', []) if p in claimed]
            detected = {}
            for p in props:
                if p not in claimed: detected[p] = 'not-claimed'; continue
                t0 = time.time()
                rc, out = sh(f'./check {p} {tier}', cwd=VERIF, timeout=3600)
                lines = [l for l in out.split('\n') if l.startswith('VIOLATION')]
                detected[p] = {'rc': rc, 'violations': lines[:3], 'what': [l for l in out.split('\n') if l.startswith(p)][-1:], 's': round(time.time() - t0)}
            meta.setdefault('results', {})[tier] = detected
            summary[sid] = {p: (v if isinstance(v, str) else ('DETECTED' if v['rc'] == 1 else f'missed(rc={v["rc"]})')) for p, v in detected.items()}
        finally:
            sh('git checkout -- .', cwd=REPO)
        json.dump(meta, open(os.path.join(d, 'meta.json'), 'w'), indent=1)
        print(sid, summary[sid], flush=True)
    return summary

if __name__ == '__main__':
    a = sys.argv[1:]
    if a[0] == 'import':
        sys.exit(0 if do_import(*a[1:]) else 1)
    if a[0] == 'run':
        tier = 'quick'; allc = False; ids = []
        rest = a[1:]
        while rest:
            x = rest.pop(0)
            if x == '--tier': tier = rest.pop(0)
            elif x == '--all-checks': allc = True
            else: ids.append(x)
        do_run(ids, tier, allc)
