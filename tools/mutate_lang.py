"""Mutation test of the translated tie of the `lang` domain (C03, C15): NOTES_lang.md section 5.

    /venv/bin/python tools/mutate_lang.py <copy of the repo> [<scratch dir>] [ids ...]

Each mutant is a copy of <copy of the repo> with one change to maltoolbox/language/languagegraph.py; common.REPO is
pointed at it and tie.translator_tie(<property>) must say broken / untranslatable for the defects and identical /
reproved for the behaviour-preserving rewrites.  Nothing under /repo is touched."""
import sys, os, shutil, json
ROOT = os.path.dirname(os.path.dirname(os.path.abspath(__file__)))
sys.path.insert(0, ROOT)
from harness import common, tie
common.enter_scratch()
BASE = sys.argv[1]
WORK = sys.argv[2] if len(sys.argv) > 2 and not sys.argv[2][0] in 'MNPV' else '/tmp/mutate_lang'
os.makedirs(WORK, exist_ok=True)
F = 'maltoolbox/language/languagegraph.py'
src = open(os.path.join(BASE, F)).read()

def rep(old, new, count=1):
    assert src.count(old) >= 1, old
    def f(s): return s.replace(old, new, count)
    return f

MUTS = [
 # (id, property, kind, description, transformer)
 ('M1', 'C03', 'defect', "last branch stores the child's own list (pre-fix aliasing 35ae67d): 'stepExpressions': step['reaches']['stepExpressions']",
  rep("""'stepExpressions': copy.deepcopy(
                            step['reaches']['stepExpressions'])""", "'stepExpressions': step['reaches']['stepExpressions']")),
 ('M2', 'C03', 'defect', "dropped guard `elif not step['reaches']: continue`",
  rep("""            elif not step['reaches']:
                # This attack step does not lead to any attack steps
                continue
            elif""", "            elif")),
 ('M3', 'C03', 'defect', "first definition stored without copy: attack_steps[name] = step",
  rep("""            if step['name'] not in attack_steps:
                attack_steps[step['name']] = copy.deepcopy(step)""", """            if step['name'] not in attack_steps:
                attack_steps[step['name']] = step""")),
 ('M4', 'C03', 'defect', "swapped arguments of extend: the specification's list is extended with the inherited one",
  rep("""                    attack_steps[step['name']]['reaches']['stepExpressions'].\\
                        extend(step['reaches']['stepExpressions'])""", """                    step['reaches']['stepExpressions'].\\
                        extend(attack_steps[step['name']]['reaches']['stepExpressions'])""")),
 ('M5', 'C03', 'defect', "overrides test inverted (== False)", rep("step['reaches']['overrides'] == True", "step['reaches']['overrides'] == False")),
 ('M6', 'C03', 'defect', "early return after fetching the super asset's steps",
  rep("""            attack_steps = self._get_attacks_for_asset_type(asset['superAsset'])
""", """            attack_steps = self._get_attacks_for_asset_type(asset['superAsset'])
            return attack_steps
""")),
 ('M7', 'C03', 'defect', "override branch without deepcopy",
  rep("""            elif step['reaches']['overrides'] == True:
                attack_steps[step['name']] = copy.deepcopy(step)""", """            elif step['reaches']['overrides'] == True:
                attack_steps[step['name']] = step""")),
 ('M8', 'C03', 'defect', "extend replaced by assignment of the list (writes a key the translation treats as read-only)",
  rep("""                    attack_steps[step['name']]['reaches']['stepExpressions'].\\
                        extend(step['reaches']['stepExpressions'])""", """                    attack_steps[step['name']]['reaches']['stepExpressions'] = \\
                        step['reaches']['stepExpressions']""")),
 ('M9', 'C03', 'defect', "the new reaches dict of the last branch gets 'overrides': True",
  rep("'overrides': False,", "'overrides': True,")),
 ('V1', 'C03', 'defect', "variable lookup: returns the variable dictionary instead of its 'stepExpression'",
  rep("        return variable_dict['stepExpression']", "        return variable_dict")),
 ('V2', 'C03', 'defect', "variable lookup: ancestors are searched first (the own definition no longer shadows)",
  rep("        if not variable_dict:\n            if asset['superAsset']:", "        if True:\n            if asset['superAsset']:")),
 ('V3', 'C03', 'defect', "variable lookup: recursion on the asset itself instead of its super asset",
  rep("variable_dict = self._get_variable_for_asset_type_by_name(asset['superAsset'],", "variable_dict = self._get_variable_for_asset_type_by_name(asset['name'],")),
 ('V4', 'C03', 'defect', "variable lookup: unknown asset type no longer raises (falls through)",
  rep("            raise LanguageGraphException(msg % asset_type)", "            return {}")),
 ('V5', 'C03', 'harmless', "variable lookup: extra logging and a renamed local",
  lambda s: s.replace("variable_dict", "var_d").replace("        if not var_d:\n            if asset['superAsset']:", "        if not var_d:\n            logger.debug('not on %s', asset_type)\n            if asset['superAsset']:")),
 ('N1', 'C15', 'defect', "is_subasset_of walks sub_assets instead of super_assets",
  rep("""                return True
            current_assets.extend(current_asset.super_assets)""", """                return True
            current_assets.extend(current_asset.sub_assets)""")),
 ('N2', 'C15', 'defect', "is_subasset_of: `!=` instead of `==`", rep("if current_asset == target_asset:", "if current_asset != target_asset:")),
 ('N3', 'C15', 'defect', "lookup: second orientation tests the assets un-swapped",
  rep("""                second_asset.is_subasset_of(assoc.left_field.asset) and \\
                first_asset.is_subasset_of(assoc.right_field.asset):""", """                first_asset.is_subasset_of(assoc.left_field.asset) and \\
                second_asset.is_subasset_of(assoc.right_field.asset):""")),
 ('N4', 'C15', 'defect', "get_opposite_fieldname returns the same side",
  rep("""        if self.left_field.fieldname == fieldname:
            return self.right_field.fieldname""", """        if self.left_field.fieldname == fieldname:
            return self.left_field.fieldname""")),
 ('N5', 'C15', 'defect', "lookup: dropped `if second_asset is None: raise LookupError`",
  rep("""        if second_asset is None:
            raise LookupError(
                f'Failed to find asset with name \\"{second_asset_name}\\" in '
                'the language graph.'
            )
""", "")),
 ('N6', 'C15', 'defect', "contains_asset: right side no longer tested",
  rep("""        if asset.is_subasset_of(self.right_field.asset):
            return True
        return False""", """        return False""")),
 ('N7', 'C15', 'defect', "get_all_superassets: result list not extended (only the work list)",
  rep("""            current_assets.extend(current_asset.super_assets)
            superassets.extend(current_asset.super_assets)""", """            current_assets.extend(current_asset.super_assets)""")),
 ('N8', 'C15', 'defect', "get_asset_by_name: `is not None`-style slip — compares with `!=`", rep("if asset.name == asset_name:", "if asset.name != asset_name:")),
 # behaviour preserving
 ('P1', 'C03', 'harmless', "local `attack_steps` renamed to `acc_steps`", lambda s: s.replace("attack_steps", "acc_steps") .replace("self.acc_steps", "self.attack_steps").replace("asset.acc_steps", "asset.attack_steps").replace("acc_steps:", "attack_steps:", 0)),
 ('P2', 'C03', 'harmless', "extra logging in the loop", rep("        for step in asset['attackSteps']:\n            if step['name'] not in attack_steps:", "        for step in asset['attackSteps']:\n            logger.debug('step %s', step['name'])\n            if step['name'] not in attack_steps:")),
 ('P3', 'C03', 'harmless', "`== True` dropped: `elif step['reaches']['overrides']:`", rep("step['reaches']['overrides'] == True", "step['reaches']['overrides']")),
 ('P4', 'C03', 'harmless', "`is not None` -> truthiness (a reaches dict is never empty)", rep("if attack_steps[step['name']]['reaches'] is not None and", "if attack_steps[step['name']]['reaches'] and")),
 ('P5', 'C15', 'harmless', "get_all_superassets: the two independent extend statements swapped",
  rep("""            current_assets.extend(current_asset.super_assets)
            superassets.extend(current_asset.super_assets)""", """            superassets.extend(current_asset.super_assets)
            current_assets.extend(current_asset.super_assets)""")),
 ('P6', 'C15', 'harmless', "is_subasset_of: local `current_asset` renamed, extra debug logging",
  lambda s: s.replace("""            current_asset = current_assets.pop()
            if current_asset == target_asset:
                return True
            current_assets.extend(current_asset.super_assets)""", """            cur = current_assets.pop()
            logger.debug('visit %s', cur.name)
            if cur == target_asset:
                return True
            current_assets.extend(cur.super_assets)""")),
 ('P7', 'C15', 'harmless', "lookup: the two `get_asset_by_name` blocks reordered (second asset looked up first)",
  lambda s: s.replace("""        first_asset = self.get_asset_by_name(first_asset_name)
        if first_asset is None:
            raise LookupError(
                f'Failed to find asset with name \\"{first_asset_name}\\" in '
                'the language graph.'
            )

        second_asset = self.get_asset_by_name(second_asset_name)
        if second_asset is None:
            raise LookupError(
                f'Failed to find asset with name \\"{second_asset_name}\\" in '
                'the language graph.'
            )
""", """        second_asset = self.get_asset_by_name(second_asset_name)
        if second_asset is None:
            raise LookupError(
                f'Failed to find asset with name \\"{second_asset_name}\\" in '
                'the language graph.'
            )

        first_asset = self.get_asset_by_name(first_asset_name)
        if first_asset is None:
            raise LookupError(
                f'Failed to find asset with name \\"{first_asset_name}\\" in '
                'the language graph.'
            )
""")),
]
only = [a for a in sys.argv[2:] if a[0] in 'MNPV' and a[1:].isdigit()]
rows = []
for mid, pid, kind, desc, f in MUTS:
    if only and mid not in only: continue
    new = f(src)
    if new == src:
        rows.append((mid, pid, kind, desc, 'NOT APPLIED', '')); print(mid, 'NOT APPLIED'); continue
    import ast
    ast.parse(new)
    d = os.path.join(WORK, mid)
    shutil.rmtree(d, ignore_errors=True)
    shutil.copytree(BASE, d)
    open(os.path.join(d, F), 'w').write(new)
    common.REPO = d
    r = tie.translator_tie(pid)
    det = r.get('detail', '')
    first = det.replace('\n', ' ')[:230]
    rows.append((mid, pid, kind, desc, r['status'], first))
    print(mid, pid, kind, r['status'], r.get('wall_s'), '|', first[:200], flush=True)
    shutil.rmtree(d, ignore_errors=True)
json.dump(rows, open(os.path.join(WORK, 'result.json'), 'w'), indent=1)
