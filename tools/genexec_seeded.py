#!/venv/bin/python
"""Does the GENERATED Lean code follow a MUTATED Python source?  (evidence that the translation is faithful enough to
reproduce real defects; notes/NOTES_genexec.md, step 3)

    /venv/bin/python tools/genexec_seeded.py <scratch-dir> <seeded-id> [<seeded-id> ...]

For every seeded defect (`seeded/<id>/patch.diff`):
  1. clone /repo into <scratch-dir>/repo_<id> and apply the patch there (never /repo);
  2. regenerate every translation domain from the clone into a scratch copy of this framework
     (<scratch-dir>/verif, created on first use with its compiled `lean/.lake`) and build ONLY the driver there
     (the tie proofs are not needed to run the generated code; most of them no longer check — that is the second tie);
  3. run the histories / lookups / graphs of the property's quick check on three sides — the mutated implementation, the
     hand-written model, the regenerated code — and classify every case by its first step on which the implementation
     differs from one of the two Lean sides.

Output per defect: translatable?  #cases, #cases where impl != hand model, in how many of those the generated code agrees
with the (mutated) impl at that step, #cases where generated != impl (anywhere up to that step).
"""
from __future__ import annotations
import importlib, json, os, random, shutil, subprocess, sys

HERE = os.path.dirname(os.path.dirname(os.path.abspath(__file__)))

# ------------------------------------------------------------------------------------------------ stage B: measure
def measure(family: str, seed: int, n: int):
    from harness import common
    common.enter_scratch()
    from harness import genexec
    rnd = random.Random(seed)
    stats = {'cases': 0, 'impl_ne_hand': 0, 'gen_follows_impl': 0, 'gen_ne_impl': 0, 'raised_halfway': 0, 'impl_crash': 0, 'examples': []}
    def note(kind, info):
        if len([e for e in stats['examples'] if e[0] == kind]) < 2: stats['examples'].append([kind, info])

    if family in ('C09', 'C10', 'C11', 'C13', 'C12', 'C14'):
        from harness.aghist import Gen, Impl, canon_obs, canon_out
        mods = {p: importlib.import_module('harness.props.' + p.lower()) for p in ('C09', 'C10', 'C11', 'C12', 'C13')}
        hists = []
        for k in range(n):
            r = random.Random(rnd.getrandbits(48))
            if family == 'C12': hists.append(mods['C12'].build_history(r))
            else:
                w = dict(mods['C11' if family == 'C14' else family].WEIGHTS)
                if family == 'C14': w.update(deepcopy=3, switch=3)
                g = Gen(r, w, nmax=rnd.choice([4, 6, 10]), rich=family in ('C10', 'C14'))
                hists.append(g.gen(rnd.randint(6, 30) if k % 10 else rnd.randint(60, 150)))
        hand, gen = genexec.run_both([{'op': 'ag_hist', 'case': i, 'ops': h} for i, h in enumerate(hists)], 'gen_ag_hist')
        for hi, ops in enumerate(hists):
            stats['cases'] += 1
            if 'error' in hand[hi] or 'error' in gen[hi]:
                note('driver-error', [hand[hi].get('error'), gen[hi].get('error')]); continue
            im = Impl()
            for i, op in enumerate(ops):
                try: st = im.step(op)
                except Exception as e:
                    stats['impl_crash'] += 1; note('impl-crash', f'{type(e).__name__} at {op["k"]}'); break
                mo, go = hand[hi]['model'][i], gen[hi]['model'][i]
                a = [st['err'], canon_out(op, st['out']), canon_obs(st['obs'])]
                b = [mo['err'], canon_out(op, mo['out']), canon_obs(mo['obs'])]
                hand_same = a == b and ((st['other'] is None) == (mo['other'] is None)) and \
                    (st['other'] is None or canon_obs(st['other']) == canon_obs(mo['other']))
                gen_same = genexec.ag_step_same(op, st, a, go, canon_obs, canon_out)
                if not gen_same and st['err'] is not None and go['err'] == st['err']:
                    # both raise, the states differ: the implementation raised half-way; the translation drops the heap of a
                    # raising call (DESIGN §I.9 "not modelled") - nothing to compare, the history ends
                    stats['raised_halfway'] += 1
                    if mo['err'] is None: stats['impl_ne_hand'] += 1; stats['gen_follows_impl'] += 1
                    note('raised-half-way', {'step': i, 'op': op, 'err': st['err'], 'hand_err': mo['err']}); break
                if not gen_same:
                    stats['gen_ne_impl'] += 1
                    note('gen!=impl', {'ops': ops[:i + 1], 'impl': [st['err'], st['out'], st['obs']], 'gen': [go['err'], go['out'], go['obs']]})
                if not hand_same:
                    stats['impl_ne_hand'] += 1
                    if gen_same:
                        stats['gen_follows_impl'] += 1
                        note('gen=impl!=hand', {'step': i, 'op': op, 'impl_err': st['err'], 'hand_err': mo['err'], 'gen_err': go['err']})
                if not (hand_same and gen_same): break

    elif family == 'C05':
        from harness.langgen import LangGen, lang_payload
        from harness.mhist import Impl, Gen, canon_obs, canon_out
        c05 = importlib.import_module('harness.props.c05')
        cases = []
        for i in range(n):
            r = random.Random(rnd.getrandbits(48))
            spec = LangGen(r, knobs={'dup_assoc_names': 0.4}).gen()
            cases.append((spec, Gen(r, spec, c05.WEIGHTS).gen(r.randint(5, 40) if i % 8 else r.randint(60, 120))))
        hand, gen = genexec.run_both([{'op': 'model_hist', 'case': i, 'lang': lang_payload(s), 'ops': o} for i, (s, o) in enumerate(cases)],
                                     'gen_model_hist')
        for ci, (spec, ops) in enumerate(cases):
            stats['cases'] += 1
            if 'error' in hand[ci] or 'error' in gen[ci]:
                note('driver-error', [hand[ci].get('error'), gen[ci].get('error')]); continue
            im = Impl(spec)
            for i, op in enumerate(ops):
                try: st = im.step(op)
                except Exception as e:
                    stats['impl_crash'] += 1; note('impl-crash', f'{type(e).__name__} at {op["k"]}'); break
                mo, go = hand[ci]['model'][i], gen[ci]['model'][i]
                if go['err'] and go['err'].startswith('skip:'): break
                a = [st['err'] is not None, canon_out(st['out']), canon_obs(st['obs'])]
                b = [mo['err'] is not None, canon_out(mo['out']), canon_obs(mo['obs'])]
                g = [go['err'] is not None, canon_out(go['out']), canon_obs(go['obs'])]
                if a != g and a[0] and g[0]:
                    stats['raised_halfway'] += 1
                    if not b[0]: stats['impl_ne_hand'] += 1; stats['gen_follows_impl'] += 1
                    note('raised-half-way', {'step': i, 'op': op, 'err': st['err'], 'hand_err': mo['err']}); break
                if a != g:
                    stats['gen_ne_impl'] += 1
                    note('gen!=impl', {'ops': ops[:i + 1], 'impl': [st['err'], st['out'], st['obs']], 'gen': [go['err'], go['out'], go['obs']]})
                if a != b:
                    stats['impl_ne_hand'] += 1
                    if a == g:
                        stats['gen_follows_impl'] += 1
                        note('gen=impl!=hand', {'step': i, 'op': op, 'impl_err': st['err'], 'hand_err': mo['err'], 'gen_err': go['err']})
                if a != b or a != g: break

    elif family == 'C03':
        import copy
        from harness.langgen import LangGen, chain_language, lang_payload
        c03 = importlib.import_module('harness.props.c03')
        from maltoolbox.language import LanguageGraph
        cases = []
        for i in range(n):
            r = random.Random(rnd.getrandbits(48))
            cases.append(chain_language(r) if i % 2 else LangGen(r, n_assets=r.randint(3, 7), knobs={'redefine': 0.8}).gen())
        # the hand model is pure: asked the same queries, it gives the same answer to a repeated query
        qs = [c03.gen_queries(s, i) for i, s in enumerate(cases)]
        hand, gen = genexec.run_both([{'op': 'resolve', 'case': i, 'lang': lang_payload(s), 'types': qs[i]} for i, s in enumerate(cases)],
                                     'gen_resolve')
        for ci, spec in enumerate(cases):
            stats['cases'] += 1
            if 'error' in hand[ci] or 'error' in gen[ci]:
                note('driver-error', [hand[ci].get('error'), gen[ci].get('error')]); continue
            try:
                lg = LanguageGraph(copy.deepcopy(spec))
            except Exception as e:
                stats['impl_crash'] += 1; note('impl-crash', f'LanguageGraph(): {type(e).__name__}'); continue
            lg._lang_spec = copy.deepcopy(spec); snap = copy.deepcopy(spec)
            go = gen[ci]['model']
            for k, t in enumerate(qs[ci]):
                try: ia = c03.canon_steps(lg._get_attacks_for_asset_type(t))
                except Exception as e: ia = {'error': type(e).__name__}
                ha = [[x, d] for x, d in hand[ci]['model'][k]]
                ga = go['answers'][k]; ga = ga if isinstance(ga, dict) else [[x, d] for x, d in ga]
                gsame = (isinstance(ia, dict) and isinstance(ga, dict)) or ia == ga
                if not gsame:
                    stats['gen_ne_impl'] += 1; note('gen!=impl', {'spec': spec, 'queries': qs[ci][:k + 1], 'impl': ia, 'gen': ga})
                if ia != ha:
                    stats['impl_ne_hand'] += 1
                    if gsame:
                        stats['gen_follows_impl'] += 1; note('gen=impl!=hand', {'query': k, 'type': t, 'impl': str(ia)[:300], 'hand': str(ha)[:300]})
                if ia != ha or not gsame: break
            else:
                unchanged = lg._lang_spec == snap
                if unchanged != go['specUnchanged']:
                    stats['gen_ne_impl'] += 1; note('gen!=impl', {'specUnchanged': [unchanged, go['specUnchanged']]})
                elif not unchanged:
                    # the hand model never touches the specification
                    stats['impl_ne_hand'] += 1; stats['gen_follows_impl'] += 1
                    note('gen=impl!=hand', 'both modified the specification')

    elif family == 'C08':
        c08 = importlib.import_module('harness.props.c08')
        cases = list(c08.exhaustive(2, c08.VARIANTS_FULL, c08.QUICK_KINDS))[::3][:n * 4]
        for _ in range(n * 4):
            g = c08.random_graph(rnd, 12)
            if rnd.random() < 0.2: c08.stale_labels(g, rnd)
            cases.append(g)
        hand, gen = genexec.run_both([c08.payload(g, i, c08.labels0_of(g)) for i, g in enumerate(cases)], 'gen_apriori')
        for i, nodes in enumerate(cases):
            stats['cases'] += 1
            try: im = c08.impl(nodes)
            except Exception as e:
                stats['impl_crash'] += 1; note('impl-crash', type(e).__name__); continue
            mo = hand[i]['model']; go = gen[i].get('model') or {'error': gen[i].get('error')}
            gsame = ('error' in im and 'error' in go) or im == go
            if not gsame: stats['gen_ne_impl'] += 1; note('gen!=impl', {'nodes': nodes, 'impl': im, 'gen': go})
            if im != mo:
                stats['impl_ne_hand'] += 1
                if gsame: stats['gen_follows_impl'] += 1; note('gen=impl!=hand', {'nodes': nodes, 'impl': im, 'hand': mo})
    elif not hasattr(importlib.import_module('harness.props.' + family.lower()), 'genexec_measure'):
        raise SystemExit(f'no family {family}')
    # round two (notes/NOTES_genexec2.md): the checks whose generated column is a whole-document comparison bring their own
    # measurement `genexec_measure(seed, n) -> {cases, impl_ne_hand, gen_follows_impl, gen_ne_impl, examples: [[kind, info]]}`
    mod = importlib.import_module('harness.props.' + family.lower())
    if hasattr(mod, 'genexec_measure'):
        extra = mod.genexec_measure(seed, n)
        for k, v in extra.items():
            if k == 'examples':
                for e in v: note(e[0], e[1])
            elif isinstance(v, int): stats[k] = stats.get(k, 0) + v
            else: stats[k] = v
    print('RESULT ' + json.dumps(stats, default=str))

# ------------------------------------------------------------------------------------------------ stage A: prepare
def sh(*cmd, cwd=None, check=True, env=None):
    p = subprocess.run(cmd, cwd=cwd, capture_output=True, text=True, env=env)
    if check and p.returncode: raise RuntimeError(f'{cmd}: {p.stdout[-800:]}{p.stderr[-800:]}')
    return p

def prepare_verif(scratch):
    v = os.path.join(scratch, 'verif')
    if not os.path.isdir(v):
        os.makedirs(v)
        for f in os.listdir(HERE):
            if f in ('.git', 'replays', 'tmp', 'evidence'): continue
            src = os.path.join(HERE, f)
            (shutil.copytree if os.path.isdir(src) else shutil.copy2)(src, os.path.join(v, f), **({'symlinks': True} if os.path.isdir(src) else {}))
    # the harness of the working tree (it may have changed since the copy was made)
    shutil.rmtree(os.path.join(v, 'harness'), ignore_errors=True)
    shutil.copytree(os.path.join(HERE, 'harness'), os.path.join(v, 'harness'), ignore=shutil.ignore_patterns('__pycache__'))
    shutil.copy2(os.path.join(HERE, 'lean', 'Driver.lean'), os.path.join(v, 'lean', 'Driver.lean'))
    return v

def regenerate(verif, repo):
    """write the translation of `repo` over the generated files of the scratch framework; returns (changed, untranslatable)"""
    sys.path.insert(0, os.path.join(HERE, 'translators'))
    changed, failed = [], {}
    for f in sorted(os.listdir(os.path.join(HERE, 'translators'))):
        if not f.endswith('.py'): continue
        m = importlib.import_module(f[:-3])
        if not (hasattr(m, 'TIE') and hasattr(m, 'generate')): continue
        gdir = os.path.join(verif, 'lean', m.TIE['gen_dir'])
        # start from the committed files
        for g in m.TIE['gen_modules']:
            shutil.copy2(os.path.join(HERE, 'lean', m.TIE['gen_dir'], g + '.lean'), os.path.join(gdir, g + '.lean'))
        try:
            gen = m.generate(repo)
        except Exception as e:
            failed[m.__name__] = f'{type(e).__name__}: {str(e)[:200]}'
            # what can be translated module by module
            gen = {}
            for g in m.TIE['gen_modules']:
                try: gen.update(m.generate(repo, [g]))
                except Exception: pass
        for g, text in gen.items():
            p = os.path.join(gdir, g + '.lean')
            if open(p, encoding='utf-8').read() != text:
                open(p, 'w', encoding='utf-8').write(text); changed.append(m.TIE['gen_dir'].split('/')[-1] + '/' + g)
    return changed, failed

def main(argv):
    if argv[1] == '--measure':
        sys.path.insert(0, argv[2]); return measure(argv[3], int(argv[4]), int(argv[5]))
    scratch = os.path.abspath(argv[1]); os.makedirs(scratch, exist_ok=True)
    verif = prepare_verif(scratch)
    rows = []
    for sid in argv[2:]:
        row = {'id': sid}
        repo = os.path.join(scratch, 'repo_' + sid)
        shutil.rmtree(repo, ignore_errors=True)
        sh('git', 'clone', '-q', '/repo', repo)
        p = sh('git', 'apply', os.path.join(HERE, 'seeded', sid, 'patch.diff'), cwd=repo, check=False)
        if p.returncode:
            row['status'] = 'patch does not apply: ' + p.stderr.strip()[:120]; rows.append(row); print(json.dumps(row)); continue
        changed, failed = regenerate(verif, repo)
        row['changed_generated_modules'] = changed; row['untranslatable'] = failed
        b = sh('lake', 'build', 'driver', cwd=os.path.join(verif, 'lean'), check=False)
        if b.returncode:
            row['status'] = 'driver does not build: ' + (b.stdout + b.stderr)[-300:]; rows.append(row); print(json.dumps(row)); continue
        family = sid.split('-')[0]
        m = sh('/venv/bin/python', os.path.abspath(__file__), '--measure', verif, family, '0', '300',
               cwd=scratch, check=False, env=dict(os.environ, VERIF_REPO=repo, PYTHONDONTWRITEBYTECODE='1'))
        out = [l for l in m.stdout.split('\n') if l.startswith('RESULT ')]
        if not out:
            row['status'] = 'measurement failed: ' + (m.stdout + m.stderr)[-400:]
        else:
            row.update(json.loads(out[0][7:])); row['status'] = 'ok'
        rows.append(row)
        print(json.dumps({k: v for k, v in row.items() if k != 'examples'}))
        for e in row.get('examples', []): print('   example', json.dumps(e)[:600])
    json.dump(rows, open(os.path.join(scratch, 'seeded_table.json'), 'w'), indent=1, default=str)
    # restore the committed generated files in the scratch framework
    regenerate(verif, '/repo')

if __name__ == '__main__':
    main(sys.argv)
