#!/venv/bin/python
"""Mutation test of the translated tie for attach_attackers / _generate_graph / regenerate_graph (domain `aggen`).

    tools/mutate_aggen.py <pristine repo> [scratch dir]

Copies <pristine repo>/maltoolbox to the scratch directory, applies one textual change at a time to
maltoolbox/attackgraph/attackgraph.py, points harness.common.REPO at the copy and prints the status that
harness.tie.translator_tie reports for the properties concerned.  Semantic changes must give `broken` or
`untranslatable` for at least one property, behaviour-preserving rewrites `identical` / `reproved` for all.
"""
import os, shutil, sys
HERE = os.path.dirname(os.path.dirname(os.path.abspath(__file__)))
sys.path.insert(0, HERE)
from harness import common, tie

AG = 'maltoolbox/attackgraph/attackgraph.py'

# (name, kind, properties, [(old, new)])
MUTATIONS = [
    ('attach: entry_points never set (statement dropped)', 'semantic', ['C11'],
     [("            attacker.entry_points = list(attacker.reached_attack_steps)\n", "")]),
    ('attach: add_attacker after the entry-point loops', 'semantic', ['C11'],
     [("            self.add_attacker(attacker)\n\n            for (asset, attack_steps)", "            for (asset, attack_steps)"),
      ("            attacker.entry_points = list(attacker.reached_attack_steps)\n",
       "            attacker.entry_points = list(attacker.reached_attack_steps)\n            self.add_attacker(attacker)\n")]),
    ('attach: full name built with swapped operands', 'semantic', ['C11'],
     [("full_name = asset.name + ':' + attack_step", "full_name = attack_step + ':' + asset.name")]),
    ('attach: `if not name` -> `if name is None` (empty name accepted)', 'semantic', ['C11'],
     [("            if not attacker_info.name:", "            if attacker_info.name is None:")]),
    ('attach: unresolved entry point raises instead of `continue`', 'semantic', ['C11'],
     [("                        continue\n                    attacker.compromise(ag_node)",
       "                        raise AttackGraphException('x')\n                    attacker.compromise(ag_node)")]),
    ('attach: guard `if not ag_node: continue` dropped', 'semantic', ['C11'],
     [("                    if not ag_node:\n                        logger.warning(\n                            'Failed to find attacker entry point '\n                            '%s for %s.',\n                            full_name, attacker.name\n                        )\n                        continue\n", "")]),
    ('nodes: existence status inverted (== [] instead of != [])', 'semantic', ['C02', 'C01', 'C09'],
     [("existence_status = target_assets != []", "existence_status = target_assets == []")]),
    ('nodes: defense value also read for exist steps (case widened)', 'semantic', ['C02'],
     [("                    case 'defense':\n", "                    case 'defense' | 'exist':\n")]),
    ('nodes: second requirement expression used ([1] instead of [0])', 'semantic', ['C02'],
     [("attack_step_attribs['requires']['stepExpressions'][0])", "attack_step_attribs['requires']['stepExpressions'][1])")]),
    ('nodes: mitre info dropped (always None)', 'semantic', ['C02'],
     [("                mitre_info = attack_step_attribs['meta']['mitre'] if 'mitre' in\\\n                    attack_step_attribs['meta'] else None\n",
       "                mitre_info = None\n")]),
    ('nodes: node registered twice (add_node called a second time)', 'semantic', ['C02'],
     [("                self.add_node(ag_node)\n", "                self.add_node(ag_node)\n                self.add_node(ag_node)\n")]),
    ('nodes: is_viable initialised to False', 'semantic', ['C02'],
     [("                    is_viable = True,", "                    is_viable = False,")]),
    ('generate: the two loops swapped (link before create)', 'semantic', ['C01', 'C09'],
     'swap_loops'),
    ('generate: linking loop appends to the live list self.nodes', 'semantic', ['C01', 'C09'],
     [("                    ag_node.children.append(target_node)\n", "                    ag_node.children.append(target_node)\n                    self.nodes.append(target_node)\n")]),
    ('regenerate: next_node_id not reset', 'semantic', ['C09'],
     [("        self._id_to_attacker = {}\n        self.next_node_id = 0\n        self.next_attacker_id = 0\n        self._generate_graph()",
       "        self._id_to_attacker = {}\n        self.next_attacker_id = 0\n        self._generate_graph()")]),
    ('regenerate: early return before _generate_graph', 'semantic', ['C09'],
     [("        self.next_attacker_id = 0\n        self._generate_graph()", "        self.next_attacker_id = 0\n        return\n        self._generate_graph()")]),
    ('__init__: `and` -> `or` in the generation guard', 'semantic', ['C09'],
     [("if self.model is not None and self.lang_graph is not None:", "if self.model is not None or self.lang_graph is not None:")]),
    # ---- behaviour preserving
    ('attach: local full_name renamed', 'harmless', ['C11'],
     [("                    full_name = asset.name + ':' + attack_step\n                    ag_node = self.get_node_by_full_name(full_name)",
       "                    fname = asset.name + ':' + attack_step\n                    ag_node = self.get_node_by_full_name(fname)"),
      ("                            full_name, attacker.name", "                            fname, attacker.name")]),
    ('attach + nodes: extra logging', 'harmless', ['C11', 'C02', 'C01', 'C09'],
     [("            self.add_attacker(attacker)\n", "            logger.debug('adding attacker %s', attacker.name)\n            self.add_attacker(attacker)\n"),
      ("                self.add_node(ag_node)\n", "                logger.debug('adding node')\n                self.add_node(ag_node)\n")]),
    ('nodes: loop variable asset renamed (first loop)', 'harmless', ['C02', 'C01', 'C09'], 'rename_asset'),
    ('regenerate: the resets reordered', 'harmless', ['C09'],
     [("        self.nodes = []\n        self.attackers = []\n        self._id_to_node = {}\n        self._full_name_to_node = {}\n        self._id_to_attacker = {}\n        self.next_node_id = 0\n        self.next_attacker_id = 0\n        self._generate_graph()",
       "        self.attackers = []\n        self.nodes = []\n        self.next_node_id = 0\n        self._id_to_node = {}\n        self._full_name_to_node = {}\n        self._id_to_attacker = {}\n        self.next_attacker_id = 0\n        self._generate_graph()")]),
    ('nodes: the two `= None` initialisations swapped', 'harmless', ['C02', 'C01', 'C09'],
     [("                defense_status = None\n                existence_status = None\n", "                existence_status = None\n                defense_status = None\n")]),
    # a KNOWN FALSE ALARM: behaviour preserving (add_node does not read `attributes`), but the proof of
    # `TN.body_eq` follows the statement order of the loop body -- recorded as such, expected `broken`
    ('nodes: `ag_node.attributes = ..` moved behind add_node (independent statements)', 'falsealarm', ['C02', 'C01', 'C09'],
     [("                ag_node.attributes = attack_step_attribs\n                attack_step_nodes.append(ag_node)\n                self.add_node(ag_node)\n",
       "                attack_step_nodes.append(ag_node)\n                self.add_node(ag_node)\n                ag_node.attributes = attack_step_attribs\n")]),
]

def apply(src, edits):
    if edits == 'swap_loops':
        a = src.index("        # First, generate all of the nodes of the attack graph.")
        b = src.index("        # Then, link all of the nodes according to their associations.")
        c = src.index("    def regenerate_graph(self)")
        return src[:a] + src[b:c].rstrip('\n') + '\n\n' + src[a:b] + '\n' + src[c:]
    if edits == 'rename_asset':
        a = src.index("        for asset in self.model.assets:")
        b = src.index("        # Then, link all of the nodes according to their associations.")
        body = src[a:b]
        import re
        body = re.sub(r'\basset\b(?!_)', 'model_asset', body).replace('model_asset = model_asset,', 'asset = model_asset,')
        return src[:a] + body + src[b:]
    for old, new in edits:
        if src.count(old) != 1: raise SystemExit(f'pattern occurs {src.count(old)} times: {old!r}')
        src = src.replace(old, new)
    return src

def main():
    pristine = sys.argv[1]
    scratch = sys.argv[2] if len(sys.argv) > 2 else '/tmp/vb/aggen-scratch/mut'
    common.enter_scratch()
    orig = open(os.path.join(pristine, AG), encoding='utf-8').read()
    rows = []
    for name, kind, pids, edits in MUTATIONS:
        shutil.rmtree(scratch, ignore_errors=True)
        shutil.copytree(os.path.join(pristine, 'maltoolbox'), os.path.join(scratch, 'maltoolbox'))
        src = apply(orig, edits)
        compile(src, AG, 'exec')
        open(os.path.join(scratch, AG), 'w', encoding='utf-8').write(src)
        common.REPO = scratch
        res = {}
        for p in pids:
            r = tie.translator_tie(p)
            res[p] = r['status'] + (f" ({r['detail'][:60]})" if r['status'] == 'untranslatable' else '')
        ok = (any(v.split(' ')[0] in ('broken', 'untranslatable') for v in res.values()) if kind in ('semantic', 'falsealarm')
              else all(v in ('identical', 'reproved') for v in res.values()))
        rows.append((kind, name, res, ok))
        print(f"{'OK ' if ok else 'BAD'} {kind:9} {name}: " + ', '.join(f'{p}={v}' for p, v in res.items()), flush=True)
    bad = [r for r in rows if not r[3]]
    print(f'{len(rows) - len(bad)}/{len(rows)} as expected')
    return 1 if bad else 0

if __name__ == '__main__':
    sys.exit(main())
