#!/usr/bin/env python3
"""Mutation test of the `wrapper` translation domain (C16).
usage: /venv/bin/python tools/mutate_wrapper.py <repo snapshot> <scratch dir>
Each mutant is a scratch copy of the repo with ONE textual change; `common.REPO` is pointed at it and
`tie.translator_tie('C16')` must say broken / untranslatable for the semantic changes, identical / reproved for the
behaviour-preserving ones."""
import os, shutil, sys
sys.path.insert(0, os.path.join(os.path.dirname(os.path.abspath(__file__)), '..'))
from harness import common, tie

W, M = 'maltoolbox/wrappers.py', 'maltoolbox/model.py'
ATT = "    if attach_attackers:\n        attack_graph.attach_attackers()\n"
CAL = "    if calc_viability_and_necessity:\n        calculate_viability_and_necessity(attack_graph)\n"
MUTANTS = [
  ('M1', 'semantic', W, 'analysis before attachment (the two optional stages swapped)', ATT + "\n" + CAL, CAL + "\n" + ATT),
  ('M2', 'semantic', W, 'analysis run without looking at its flag', CAL, "    calculate_viability_and_necessity(attack_graph)\n"),
  ('M3', 'semantic', W, 'model loaded with the classes of another language graph (built from the .mal source)',
   "LanguageClassesFactory(lang_graph)", "LanguageClassesFactory(LanguageGraph.from_mal_spec(lang_file))"),
  ('M4', 'semantic', W, 'attachment skipped', "        attack_graph.attach_attackers()\n", "        pass\n"),
  ('M5', 'semantic', W, 'wrong file dispatch: .mal tried first, .mar as the fallback',
   "        lang_graph = LanguageGraph.from_mar_archive(lang_file)\n    except zipfile.BadZipFile:\n        lang_graph = LanguageGraph.from_mal_spec(lang_file)",
   "        lang_graph = LanguageGraph.from_mal_spec(lang_file)\n    except zipfile.BadZipFile:\n        lang_graph = LanguageGraph.from_mar_archive(lang_file)"),
  ('M6', 'semantic', W, 'exit status 0 when generation fails', "sys.exit(1)", "sys.exit(0)"),
  ('M7', 'semantic', W, 'handler widened to AttackGraphException', "    except AttackGraphStepExpressionError:", "    except Exception:"),
  ('M8', 'semantic', M, 'load_from_file: json files read with the yaml loader',
   "            serialized_model = load_dict_from_json_file(filename)", "            serialized_model = load_dict_from_yaml_file(filename)"),
  ('M9', 'semantic', M, 'load_from_file: unknown extension no longer rejected',
   "            raise ValueError('Unknown file extension, expected json/yml/yaml')", "            pass"),
  ('M10', 'semantic', W, 'language graph used after it was handed to the attack graph',
   "    if attach_attackers:\n", "    lang_graph.save_to_file('after.json')\n    if attach_attackers:\n"),
  ('M11', 'semantic', W, 'early return before the optional stages', "    if attach_attackers:\n", "    return attack_graph\n    if attach_attackers:\n"),
  ('M12', 'semantic', W, 'attach flag negated', "    if attach_attackers:\n", "    if not attach_attackers:\n"),
  ('H1', 'harmless', W, 'local instance_model renamed', "instance_model", "the_model"),
  ('H2', 'harmless', W, 'extra logging', "    if attach_attackers:\n", "    logger.info('attaching')\n    if attach_attackers:\n"),
  ('H3', 'harmless', W, 'docstring changed', "Create and return an attack graph", "Build an attack graph from two files"),
  ('H4', 'harmless', M, 'load_from_file: extra logging', "        serialized_model = None\n", "        serialized_model = None\n        logger.debug('dispatch')\n"),
]

def main(snapshot, scratch):
    common.enter_scratch()
    rows = []
    for mid, kind, path, what, old, new in MUTANTS:
        d = os.path.join(scratch, mid)
        shutil.rmtree(d, ignore_errors=True)
        shutil.copytree(os.path.join(snapshot, 'maltoolbox'), os.path.join(d, 'maltoolbox'))
        f = os.path.join(d, path)
        src = open(f, encoding='utf-8').read()
        if src.count(old) < 1: rows.append((mid, kind, what, 'PATTERN NOT FOUND')); continue
        open(f, 'w', encoding='utf-8').write(src.replace(old, new))
        common.REPO = d
        r = tie.translator_tie('C16')
        rows.append((mid, kind, what, r['status'], (r.get('detail') or '')[:110].replace('\n', ' ')))
        print(rows[-1], flush=True)
    ok = all((r[3] in ('broken', 'untranslatable')) == (r[1] == 'semantic') and r[3] != 'PATTERN NOT FOUND' for r in rows)
    print('ALL AS EXPECTED' if ok else 'UNEXPECTED ROWS')
    return 0 if ok else 1

if __name__ == '__main__':
    sys.exit(main(sys.argv[1], sys.argv[2]))
