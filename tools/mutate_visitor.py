#!/usr/bin/env python3
"""Mutation test of the second tie of the `visitor` domain (property C04).

Copies /repo/maltoolbox to a scratch directory, applies ONE small change to mal_visitor.py at a time, points
`common.REPO` at the copy and asks `tie.translator_tie('C04')` what it makes of it.  Semantic changes must give
`broken` or `untranslatable`; behaviour-preserving rewrites must stay `identical` / `reproved`.

    /venv/bin/python tools/mutate_visitor.py [name …]
"""
import os, shutil, sys, json
sys.path.insert(0, os.path.join(os.path.dirname(os.path.abspath(__file__)), '..'))
from harness import common, tie

V = 'maltoolbox/language/compiler/mal_visitor.py'
# name -> (kind, old text, new text, what a careless refactoring did)
MUTATIONS = {
    'expr-operator-once': ('semantic', 'ret["type"] = self.visit(ctx.children[2 * i - 1])',
                           'ret["type"] = self.visit(ctx.children[1])', 'visitExpr reads the set operator once per chain'),
    'parts-operand-index': ('semantic', 'ret["rhs"] = self.visit(ctx.part()[i])', 'ret["rhs"] = self.visit(ctx.part()[1])',
                            'visitParts takes the wrong operand'),
    'resolve-comma-dropped': ('semantic', '            if file_tokens[i].type == malParser.COMMA:  # end of current `expr`\n                return "attackStep"\n',
                              '', '_resolve_part_ID_type no longer stops at the COMMA (dropped guard)'),
    'resolve-start-after': ('semantic', 'for i in range(ctx.start.tokenIndex, pctx.stop.tokenIndex + 1):',
                            'for i in range(ctx.start.tokenIndex, pctx.stop.tokenIndex):', '_resolve_part_ID_type: off by one at the end of the clause'),
    'part-star-truthiness': ('semantic', '        if ctx.STAR():\n            ret = {"type": "transitive", "stepExpression": ret}',
                             '        if ctx.STAR:\n            ret = {"type": "transitive", "stepExpression": ret}',
                             'visitPart tests the bound method instead of calling it: every part becomes transitive'),
    'part-type-early-return': ('semantic', '        for type_ in ctx.type_():  # mind the trailing underscore\n            ret = {',
                               '        for type_ in ctx.type_():  # mind the trailing underscore\n            return {',
                               'visitPart returns after the first [T] (early return)'),
    'ttcterm-alias': ('semantic', '                else "division"\n            )\n            ret["lhs"] = lhs\n            ret["rhs"] = self.visit(factors[i])\n\n            lhs = ret.copy()',
                      '                else "division"\n            )\n            ret["lhs"] = lhs\n            ret["rhs"] = self.visit(factors[i])\n\n            lhs = ret',
                      'visitTtcterm drops .copy(): the dict contains itself'),
    'ttcexpr-swapped': ('semantic', '"addition"\n                if ctx.children[2 * i - 1].getText() == "+"\n                else "subtraction"',
                        '"subtraction"\n                if ctx.children[2 * i - 1].getText() == "+"\n                else "addition"', 'visitTtcexpr swaps the operator names'),
    'ttcfact-swapped-args': ('semantic', 'ret["lhs"] = self.visit(atoms[0])\n            ret["rhs"] = self.visit(atoms[1])',
                             'ret["lhs"] = self.visit(atoms[1])\n            ret["rhs"] = self.visit(atoms[0])', 'visitTtcfact swaps base and exponent'),
    'ttcdist-guard-dropped': ('semantic', '        if ctx.LPAREN():\n            ret["arguments"] = [self.visit(number)["value"] for number in ctx.number()]',
                              '        ret["arguments"] = [self.visit(number) for number in ctx.number()]', 'visitTtcdist keeps the number dicts instead of their values'),
    'mal-dedup-live-list': ('semantic', '            unique = []\n            for item in langspec[key]:\n                if item not in unique:\n                    unique.append(item)\n            langspec[key] = unique',
                            '            for item in langspec[key]:\n                if langspec[key].count(item) > 1:\n                    langspec[key].remove(item)',
                            'visitMal de-duplicates by removing from the list it iterates'),
    'reaches-inherits-swapped': ('semantic', 'ret["overrides"] = ctx.INHERITS() is None', 'ret["overrides"] = ctx.INHERITS() is not None',
                                 'visitReaches inverts the override flag'),
    # --- the methods tied in the second round: visitMal, visitAssociation(s), _post_process_multitudes
    'mal-dedup-dropped': ('semantic', '                if item not in unique:\n                    unique.append(item)',
                          '                unique.append(item)', 'visitMal no longer de-duplicates (dropped guard)'),
    'mal-include-not-merged': ('semantic', '                        if isinstance(v, MutableSequence) and k in included_file:\n                            langspec[k].extend(included_file[k])\n',
                               '', 'visitMal compiles the included file but does not merge its lists'),
    'mal-defines-overwritten': ('semantic', '                    langspec[key].update(value)', '                    langspec[key] = value',
                                'visitMal overwrites the defines instead of updating them'),
    'mal-assets-to-categories': ('semantic', '                    langspec["assets"].extend(assets)', '                    langspec["categories"].extend(assets)',
                                 'visitMal appends the assets to the wrong list (swapped arguments)'),
    'assoc-postprocess-skipped': ('semantic', '        self._post_process_multitudes(association)\n        return association',
                                  '        return association', 'visitAssociation skips the multiplicity post-processing'),
    'pp-star-min-one': ('semantic', '                    association[key][subkey] = 0', '                    association[key][subkey] = 1',
                        "_post_process_multitudes: '*' as lower bound becomes 1"),
    'pp-max-default-dropped': ('semantic', '            if subkey == "max" and association[key][subkey] is None:\n                association[key][subkey] = association[key]["min"]\n',
                               '', '_post_process_multitudes: a missing upper bound is no longer the lower bound'),
    # --- the methods tied in the third round: visitStep, visitAsset, visitCategory (and, through them, whole files)
    'asset-abstract-inverted': ('semantic', 'asset["isAbstract"] = ctx.ABSTRACT() is not None', 'asset["isAbstract"] = ctx.ABSTRACT() is None',
                                'visitAsset inverts the abstract flag'),
    'asset-super-lost': ('semantic', '        if len(ctx.ID()) > 1 and ctx.ID()[1]:', '        if len(ctx.ID()) > 2 and ctx.ID()[1]:',
                         'visitAsset: the `extends` name is never stored (off-by-one in the guard)'),
    'asset-category-own-name': ('semantic', 'asset["category"] = ctx.parentCtx.ID().getText()', 'asset["category"] = ctx.ID()[0].getText()',
                                'visitAsset stores its own name as its category'),
    'asset-steps-as-variables': ('semantic', 'asset["variables"] = [self.visit(variable) for variable in ctx.variable()]',
                                 'asset["variables"] = [self.visit(variable) for variable in ctx.step()]', 'visitAsset collects the steps under "variables"'),
    'steptype-swapped': ('semantic', '            "or"\n            if ctx.OR()\n            else "and"\n            if ctx.AND()',
                         '            "and"\n            if ctx.OR()\n            else "or"\n            if ctx.AND()', 'visitSteptype: two entries of the step type table swapped'),
    'step-tags-of-first-step': ('semantic', 'step["tags"] = [self.visit(tag) for tag in ctx.tag()]',
                                'step["tags"] = [self.visit(tag) for tag in ctx.parentCtx.step()[0].tag()]', 'visitStep attaches the tags of the first step of the asset to every step'),
    'step-requires-under-reaches': ('semantic', '        step["requires"] = (\n', '        step["reaches"] = (\n',
                                    'visitStep stores the precondition under "reaches" (then overwritten): "requires" is lost'),
    'step-ttc-dropped': ('semantic', 'step["ttc"] = self.visit(ctx.ttc()) if ctx.ttc() else None', 'step["ttc"] = None', 'visitStep drops the TTC'),
    'step-risk-guard-inverted': ('semantic', 'step["risk"] = self.visit(ctx.cias()) if ctx.cias() else None',
                                 'step["risk"] = self.visit(ctx.cias()) if not ctx.cias() else None', 'visitStep: inverted guard on the CIA block'),
    'variable-expr-dropped': ('semantic', '        ret["stepExpression"] = self.visit(ctx.expr())\n\n        return ret\n\n    def visitExpr',
                              '        return ret\n\n    def visitExpr', "visitVariable drops the variable's expression"),
    'category-meta-lost': ('semantic', 'category["meta"] = {k: v for meta in ctx.meta() for k, v in self.visit(meta)}', 'category["meta"] = {}',
                           'visitCategory loses the meta entries of the category'),
    'category-assets-reversed': ('semantic', '        return ("categories", ([category], assets))', '        return ("categories", (assets, [category]))',
                                 'visitCategory returns the pair the wrong way round (swapped arguments)'),
    # behaviour-preserving
    'mal-continue-dropped': ('harmless', '                    langspec["assets"].extend(assets)\n                    continue\n',
                             '                    langspec["assets"].extend(assets)\n', 'visitMal: the `continue` after the categories branch dropped (the other branches cannot match)'),
    'rename-local': ('harmless', None, None, 'visitParts: local `lhs` renamed to `left`'),
    'logging': ('harmless', '    def visitParts(self, ctx):\n', '    def visitParts(self, ctx):\n        logger.debug("visiting parts")\n', 'extra logging in visitParts'),
    'reorder-independent': ('falsealarm', '        ret = {}\n\n        lhs = self.visit(ctx.part()[0])\n', '        lhs = self.visit(ctx.part()[0])\n\n        ret = {}\n',
                            'visitParts: two independent statements swapped'),
    'asset-rename-local': ('harmless', None, None, 'visitAsset: local `asset` renamed to `node`'),
    'step-logging': ('harmless', '    def visitStep(self, ctx):\n', '    def visitStep(self, ctx):\n        logger.debug("visiting a step")\n', 'extra logging in visitStep'),
    'comment-and-docstring': ('harmless', '    def visitExpr(self, ctx):\n', '    def visitExpr(self, ctx):\n        """expr: parts (setop parts)*"""\n        # left-associative\n',
                              'docstring and comment added to visitExpr'),
}

def apply(name, src):
    kind, old, new, what = MUTATIONS[name]
    if name == 'rename-local':
        a = src.index('    def visitParts(self, ctx):'); b = src.index('    def _resolve_part_ID_type')
        body = src[a:b].replace('lhs', 'left').replace('ret["left"]', 'ret["lhs"]')
        return src[:a] + body + src[b:]
    if name == 'asset-rename-local':
        a = src.index('    def visitAsset(self, ctx):'); b = src.index('    def visitStep')
        body = src[a:b].replace('asset[', 'node[').replace('asset = {}', 'node = {}').replace('return asset', 'return node')
        return src[:a] + body + src[b:]
    if src.count(old) != 1: raise SystemExit(f'{name}: pattern occurs {src.count(old)} times')
    return src.replace(old, new)

def main(names):
    common.enter_scratch()
    base = os.path.join(common.scratch(), 'mut-repo')
    real = common.REPO
    rows = []
    pid = os.environ.get('MUTATE_PID', 'C04')
    for name in names or list(MUTATIONS):
        shutil.rmtree(base, ignore_errors=True)
        shutil.copytree(os.path.join(real, 'maltoolbox'), os.path.join(base, 'maltoolbox'))
        p = os.path.join(base, V)
        mutated = apply(name, open(p, encoding='utf-8').read())
        open(p, 'w', encoding='utf-8').write(mutated)
        common.REPO = base
        try:
            r = tie.translator_tie(pid)
        finally:
            common.REPO = real
        kind, what = MUTATIONS[name][0], MUTATIONS[name][3]
        ok = (r['status'] in ('broken', 'untranslatable')) if kind == 'semantic' else (r['status'] in ('identical', 'reproved'))
        if kind == 'falsealarm': ok = True      # known price of proofs that follow the statement order (NOTES_visitor §6)
        rows.append((name, kind, r['status'], 'ok' if ok else 'UNEXPECTED', r.get('wall_s'), what, (r.get('detail') or '')[:160].replace('\n', ' ')))
        print(f'{name:28s} {kind:9s} -> {r["status"]:15s} {"ok" if ok else "UNEXPECTED":10s} {r.get("wall_s")}s  | {rows[-1][-1]}', flush=True)
    return 0 if all(r[3] == 'ok' for r in rows) else 1

if __name__ == '__main__':
    sys.exit(main(sys.argv[1:]))
