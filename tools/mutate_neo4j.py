import sys, os, shutil, json
sys.path.insert(0, os.path.dirname(os.path.dirname(os.path.abspath(__file__))))
from harness import common, tie
common.enter_scratch()
BASE = os.environ.get('BASE', '/repo')
F = 'maltoolbox/ingestors/neo4j.py'
MUTS = [
 ('M1', 'ingest_model: the reverse relationship is not sent (second rels.append dropped)',
  """                rels.append(Relationship(nodes[str(second_asset.id)],
                    str(secondElementName),
                    nodes[str(first_asset.id)]))
""", ""),
 ('M2', 'ingest_model: start and end node of the first relationship swapped',
  """                rels.append(Relationship(nodes[str(first_asset.id)],
                    str(firstElementName),
                    nodes[str(second_asset.id)]))""",
  """                rels.append(Relationship(nodes[str(second_asset.id)],
                    str(firstElementName),
                    nodes[str(first_asset.id)]))"""),
 ('M3', 'ingest_model: both directions labelled with the second field name',
  "                    str(firstElementName),", "                    str(secondElementName),"),
 ('M4', 'ingest_model: asset_id property holds the name', "asset_id=str(asset.id),", "asset_id=str(asset.name),"),
 ('M5', 'ingest_model: g.commit(tx) dropped', """    tx.create(subgraph)
    g.commit(tx)


def get_model(""", """    tx.create(subgraph)


def get_model("""),
 ('M6', 'ingest_model: delete flag inverted', """    g = Graph(uri=uri, user=username, password=password, name=dbname)
    if delete:
        g.delete_all()

    nodes = {}
    rels = []

    for asset in model.assets:""", """    g = Graph(uri=uri, user=username, password=password, name=dbname)
    if not delete:
        g.delete_all()

    nodes = {}
    rels = []

    for asset in model.assets:"""),
 ('M7', 'ingest_model: node dictionary keyed by name, looked up by id', "        nodes[str(asset.id)] = Node(str(asset.type),", "        nodes[str(asset.name)] = Node(str(asset.type),"),
 ('M8', 'ingest_model: inner loop runs over the first field again', "            for second_asset in secondElements:", "            for second_asset in firstElements:"),
 ('M9', 'ingest_model: relationships appended while iterating the live list rels', """    subgraph = Subgraph(list(nodes.values()), rels)

    tx = g.begin()
    tx.create(subgraph)
    g.commit(tx)


def get_model(""", """    for r in rels:
        rels.append(r)
    subgraph = Subgraph(list(nodes.values()), rels)

    tx = g.begin()
    tx.create(subgraph)
    g.commit(tx)


def get_model("""),
 ('M10', 'ingest_model: label is the asset name instead of the type', "        nodes[str(asset.id)] = Node(str(asset.type),", "        nodes[str(asset.id)] = Node(str(asset.name),"),
 ('M11', 'ingest_attack_graph: edge direction reversed', "rels.append(Relationship(nodes[node.id], nodes[child.id]))", "rels.append(Relationship(nodes[child.id], nodes[node.id]))"),
 ('M12', 'ingest_attack_graph: is_viable stored under is_necessary', "is_necessary = str(node.is_necessary),", "is_necessary = str(node.is_viable),"),
 ('M13', "ingest_attack_graph: `'defense_status' in node_dict` -> truthiness of .get()", "defense_status = node_dict['defense_status'] if 'defense_status'\n                in node_dict else 'N/A')", "defense_status = node_dict['defense_status'] if node_dict.get('defense_status')\n                else 'N/A')"),
 ('M14', 'ingest_attack_graph: edges taken from parents instead of children', "        for child in node.children:", "        for child in node.parents:"),
 ('M15', 'get_model: `continue` after adding an attacker dropped', """            instance_model.add_attacker(attacker, attacker_id = attacker_id)
            continue
""", """            instance_model.add_attacker(attacker, attacker_id = attacker_id)
"""),
 ('M16', 'get_model: asset added without its id', "        instance_model.add_asset(asset_obj, asset_id)", "        instance_model.add_asset(asset_obj)"),
 ('M17', 'get_model: unknown asset type no longer rejected (guard dropped)', """        if not hasattr(lang_classes_factory.ns, asset_data['type']):
            msg = 'Failed to find %s asset in language specification!'
            logger.error(msg, asset_data["type"])
            raise LookupError(msg % asset_data["type"])
""", ""),
 ('M18', 'get_model: link looked up in one orientation only (fix 4f9fd3f undone)', """        if assoc.left_field.fieldname == left_field:
            first_asset, second_asset = left_asset, right_asset
        else:
            first_asset, second_asset = right_asset, left_asset
""", """        first_asset, second_asset = left_asset, right_asset
"""),
 ('H1', 'ingest_model: local rels renamed (behaviour preserving)', None, None),
 ('H2', 'ingest_model: extra logging (behaviour preserving)', "    subgraph = Subgraph(list(nodes.values()), rels)\n\n    tx = g.begin()\n    tx.create(subgraph)\n    g.commit(tx)\n\n\ndef get_model(", "    logger.info('sending %d relationships', len(rels))\n    subgraph = Subgraph(list(nodes.values()), rels)\n\n    tx = g.begin()\n    tx.create(subgraph)\n    g.commit(tx)\n\n\ndef get_model("),
 ('H3', 'ingest_model: the two initialisations nodes = {} / rels = [] reordered (behaviour preserving)', "    nodes = {}\n    rels = []\n\n    for asset in model.assets:", "    rels = []\n    nodes = {}\n\n    for asset in model.assets:"),
 ('H4', 'get_model: loop variable asset renamed, docstring changed (behaviour preserving)', None, None),
]
def apply(src, mid, old, new):
    if mid == 'H1':
        head, rest = src.split('def ingest_model(', 1)
        body, tail = rest.split('def get_model(', 1)
        return head + 'def ingest_model(' + body.replace('rels', 'relationships') + 'def get_model(' + tail
    if mid == 'H4':
        head, tail = src.split('def get_model(', 1)
        tail = tail.replace('"""Load a model from Neo4j"""', '"""Load a model from a Neo4j database"""')
        tail = tail.replace('for asset in assets_results:', 'for asset_row in assets_results:').replace("asset_data = dict(asset['a'])", "asset_data = dict(asset_row['a'])")
        return head + 'def get_model(' + tail
    if src.count(old) != 1: raise SystemExit(f'{mid}: pattern occurs {src.count(old)} times')
    return src.replace(old, new)
only = sys.argv[1:]
rows = []
for mid, what, old, new in MUTS:
    if only and mid not in only: continue
    d = f'/tmp/mutate_neo4j_repo_{mid}'
    shutil.rmtree(d, ignore_errors=True)
    os.makedirs(d)
    shutil.copytree(os.path.join(BASE, 'maltoolbox'), os.path.join(d, 'maltoolbox'))
    p = os.path.join(d, F)
    new_src = apply(open(p).read(), mid, old, new)
    open(p, 'w').write(new_src)
    common.REPO = d
    tie._closure_cache.clear()
    r = tie.translator_tie('C19')
    det = r.get('detail', '')
    where = ''
    if r['status'] == 'broken': where = det.split(' no longer')[0]
    if r['status'] == 'untranslatable': where = det[:110]
    print(f"| {mid} | {what} | {r['status']} | {where} | {r.get('wall_s')} |", flush=True)
    shutil.rmtree(d, ignore_errors=True)
