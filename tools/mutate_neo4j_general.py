#!/usr/bin/env python3
"""Mutations of the second loop of get_model that the structural closed form would follow and the kernel runs do not
exercise: only the general tie (TieNeo4jGetPair / TieNeo4jGetFull) catches them.

For each mutation: (1) the ordinary status of harness/tie.py (closed form `get_model_eq` is by `rfl` against verbatim
loop bodies, so ANY change of the loop is `broken` there); (2) the same with the named loop body `gmPairAssoc` of
Py/TieNeo4jGet.lean patched in the same way, as a maintainer would do after an intended refactoring: the closed form,
the asset-loop tie and the kernel-checked runs then still go through, and the first module that fails is reported.
"""
import sys, os, shutil, re
ROOT = os.path.dirname(os.path.dirname(os.path.abspath(__file__)))
sys.path.insert(0, ROOT)
from harness import common, tie
common.enter_scratch()
sys.path.insert(0, os.path.join(ROOT, 'translators'))
import py2lean_neo4j as N
BASE = os.environ.get('BASE', '/repo')
F = 'maltoolbox/ingestors/neo4j.py'
G = 'MalVerif/Py/TieNeo4jGet.lean'

def nth_replace(s, old, new, n):
    """replace the n-th (0-based) occurrence of old after the start of `def gmPairAssoc`"""
    start = s.index('def gmPairAssoc'); end = s.index('def gmPairMain')
    seg = s[start:end]; pos = -1
    for _ in range(n + 1):
        pos = seg.index(old, pos + 1)
    return s[:start] + seg[:pos] + new + seg[pos + len(old):] + s[end:]

MUTS = [
 ('G1', 'get_model, second loop: missing LEFT asset raises ValueError instead of LookupError',
  ("            raise LookupError(msg % left_id)\n        right_asset = instance_model.get_asset_by_id(right_id)",
   "            raise ValueError(msg % left_id)\n        right_asset = instance_model.get_asset_by_id(right_id)"),
  lambda s: nth_replace(s, '| _ => .error .lookupError', '| _ => .error .valueError', 2)),
 ('G2', 'get_model, second loop: missing RIGHT asset raises ValueError instead of LookupError',
  ("            raise LookupError(msg % right_id)\n\n        assoc = lang_graph", "            raise ValueError(msg % right_id)\n\n        assoc = lang_graph"),
  lambda s: nth_replace(s, '| _ => .error .lookupError', '| _ => .error .valueError', 1)),
 ('G3', 'get_model, second loop: class looked up by the types of the linked assets instead of the declared types (fix 4af9d13 undone)',
  ("            assoc.left_field.asset.name,\n            assoc.right_field.asset.name\n", "            left_asset.type,\n            right_asset.type\n"),
  lambda s: nth_replace(s, 'a3.left_field.asset.name a3.right_field.asset.name', '(s.a la).type (s.a ra).type', 0)),
 ('G0', 'control: no change (docstring of get_model reworded)',
  ('"""Load a model from Neo4j"""', '"""Load a model from a Neo4j database"""'), lambda s: s),
]
MUTS = [m for m in MUTS if m[2] is not None]

def overlay():
    sc = os.path.join(common.scratch(), 'tieg'); out = os.path.join(sc, 'out'); srcd = os.path.join(sc, 'src')
    shutil.rmtree(sc, ignore_errors=True); os.makedirs(out); os.makedirs(srcd)
    lib = os.path.join(common.LEAN, '.lake', 'build', 'lib', 'lean')
    for root_, _, files in os.walk(lib):
        rel = os.path.relpath(root_, lib)
        os.makedirs(os.path.join(out, rel), exist_ok=True)
        for f in files:
            if f.endswith(('.olean', '.ilean')) or '.olean.' in f:
                os.symlink(os.path.join(root_, f), os.path.join(out, rel, f))
    return out, srcd

only = sys.argv[1:]
for mid, what, (old, new), patch in MUTS:
    if only and mid not in only: continue
    d = f'/tmp/mutate_neo4j_general_{mid}'
    shutil.rmtree(d, ignore_errors=True); os.makedirs(d)
    shutil.copytree(os.path.join(BASE, 'maltoolbox'), os.path.join(d, 'maltoolbox'))
    p = os.path.join(d, F); src = open(p).read()
    if src.count(old) != 1: raise SystemExit(f'{mid}: pattern occurs {src.count(old)} times')
    open(p, 'w').write(src.replace(old, new))
    # (1) ordinary tie
    common.REPO = d; tie._closure_cache.clear()
    r = tie.translator_tie('C19')
    ordinary = r['status'] + (' at ' + r['detail'].split(' no longer')[0] if r['status'] == 'broken' else '')
    # (2) with the closed form following the mutant
    gen = N.generate(d, ['GetModel'])['GetModel']
    out, srcd = overlay()
    def put(rel, text):
        f = os.path.join(srcd, rel); os.makedirs(os.path.dirname(f), exist_ok=True); open(f, 'w').write(text); return f
    f_gen = put('MalVerif/Py/GenNeo4j/GetModel.lean', gen)
    f_get = put(G, patch(open(os.path.join(common.LEAN, G)).read()))
    first_fail = None
    for mod, path, root in [('MalVerif.Py.GenNeo4j.GetModel', f_gen, srcd), ('MalVerif.Py.TieNeo4jGet', f_get, srcd),
                            ('MalVerif.Py.TieNeo4jGetPair', None, None), ('MalVerif.Py.TieNeo4jGetFull', None, None),
                            ('MalVerif.PropsGen.C19', None, None)]:
        ok, log = tie._compile(mod, path or tie._mod_path(mod), out, out, root=root)
        if not ok:
            first_fail = mod; break
    print(f'| {mid} | {what} | {ordinary} | {first_fail or "nothing fails"} |', flush=True)
    shutil.rmtree(d, ignore_errors=True)
