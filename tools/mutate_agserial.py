#!/venv/bin/python
# usage: /venv/bin/python tools/mutate_agserial.py [M1 M2 … P5]    (BASE=<toolbox checkout> to mutate another copy than /repo)
"""mutation test of the agserial tie: one small change at a time in a scratch copy of the toolbox"""
import os, shutil, sys, json
ROOT = os.path.dirname(os.path.dirname(os.path.abspath(__file__)))
sys.path.insert(0, ROOT)
from harness import common, tie
common.enter_scratch()
import tempfile
SC = os.path.join(tempfile.mkdtemp(prefix='mutate_agserial_'), 'repo')
BASE = os.environ.get('BASE', '/repo')
N, A, G = 'maltoolbox/attackgraph/node.py', 'maltoolbox/attackgraph/attacker.py', 'maltoolbox/attackgraph/attackgraph.py'
MUT = [
 # (id, property, file, old, new, kind)
 ('M1 to_dict: `defense_status is not None` -> truthiness (0.0 dropped)', 'C10', N, "if self.defense_status is not None:", "if self.defense_status:", 'sem'),
 ('M2 to_dict: children written into the parents dictionary', 'C10', N, "node_dict['children'][child.id] = child.full_name", "node_dict['parents'][child.id] = child.full_name", 'sem'),
 ('M3 Attacker.to_dict: reached steps taken from entry_points', 'C10', A, "for attack_step in self.reached_attack_steps:", "for attack_step in self.entry_points:", 'sem'),
 ('M4 _to_dict: `while key taken` -> `if key taken` (second clash overwrites)', 'C10', G, "while attacker_key in serialized_attackers:", "if attacker_key in serialized_attackers:", 'sem'),
 ('M5 _from_dict: default of is_viable True -> False', 'C10', G, "'is_viable' in node_dict else True", "'is_viable' in node_dict else False", 'sem'),
 ("M6 _from_dict: `== 'True'` -> bool(..) ('False' is truthy)", 'C10', G, "ag_node.existence_status = node_dict['existence_status'] \\\n                == 'True' if", "ag_node.existence_status = bool(node_dict['existence_status']) if", 'sem'),
 ('M7 _from_dict: entry points and reached steps swapped in add_attacker', 'C10', G, "entry_points = attacker['entry_points'].keys(),", "entry_points = attacker['reached_attack_steps'].keys(),", 'sem'),
 ('M8 _from_dict: parent link dropped (one side only)', 'C10', G, "                    _ag_node.parents.append(parent)", "                    pass", 'sem'),
 ('M9 _from_dict: asset lookup guard dropped (`model and` removed)', 'C10', G, "if model and 'asset' in node_dict:", "if 'asset' in node_dict:", 'sem'),
 ('M10 _from_dict: node id not passed to add_node', 'C10', G, "attack_graph.add_node(ag_node, node_id=node_dict['id'])", "attack_graph.add_node(ag_node, node_id=None)", 'sem'),
 ('M11 node.__deepcopy__: compromised_by of the original handed to the copy', 'C14', N, "            self.is_necessary,\n            [],", "            self.is_necessary,\n            self.compromised_by,", 'sem'),
 ('M12 graph.__deepcopy__: children re-linked from parents', 'C14', G, "memo[id(node)].children = copy.deepcopy(node.children, memo)", "memo[id(node)].children = copy.deepcopy(node.parents, memo)", 'sem'),
 ('M13 graph.__deepcopy__: counters swapped', 'C14', G, "copied_attackgraph.next_node_id = self.next_node_id", "copied_attackgraph.next_node_id = self.next_attacker_id", 'sem'),
 ('M14 Attacker.__deepcopy__: shallow copy of entry_points (shares nodes)', 'C14', A, "copied_attacker.entry_points = copy.deepcopy(\n            self.entry_points, memo = memo)", "copied_attacker.entry_points = list(self.entry_points)", 'sem'),
 ('M15 graph.__deepcopy__: lookup dict shared instead of copied', 'C14', G, "copied_attackgraph._id_to_node = \\\n            copy.deepcopy(self._id_to_node, memo)", "copied_attackgraph._id_to_node = self._id_to_node", 'sem'),
 ('M16 node.__deepcopy__: tags list shared instead of deep-copied (aliasing of mutable per-node data)', 'C14', N, "copied_node.tags = copy.deepcopy(self.tags, memo)", "copied_node.tags = self.tags", 'sem'),
 ('M17 graph.__deepcopy__: copies appended to self.nodes (the list being iterated)', 'C14', G, "            copied_attackgraph.nodes.append(copied_node)", "            self.nodes.append(copied_node)", 'sem'),
 ('P1 to_dict: local renamed node_dict -> nd', 'C10', N, None, None, 'pres'),
 ('P2 _from_dict: extra logging', 'C10', G, "        attack_graph = AttackGraph()\n", "        attack_graph = AttackGraph()\n        logger.debug('loading %d steps', len(serialized_object))\n", 'pres'),
 ('P3 _to_dict: loop variable renamed attacker -> att', 'C10', G, None, None, 'pres'),
 ('P4 _from_dict: two independent assignments reordered (is_viable / is_necessary)', 'C10', G, None, None, 'pres'),
 ('P5 graph.__deepcopy__: extra logging + local renamed', 'C14', G, "            copied_node = copy.deepcopy(node, memo)\n            copied_attackgraph.nodes.append(copied_node)", "            cn = copy.deepcopy(node, memo)\n            logger.debug('copied')\n            copied_attackgraph.nodes.append(cn)", 'pres'),
]
def special(mid, txt):
    if mid.startswith('P1'):
        a = txt.index('    def to_dict'); b = txt.index('    def __repr__')
        return txt[:a] + txt[a:b].replace('node_dict', 'nd') + txt[b:]
    if mid.startswith('P3'):
        a = txt.index('    def _to_dict'); b = txt.index('    def __deepcopy__')
        return txt[:a] + txt[a:b].replace('for attacker in self.attackers', 'for att in self.attackers').replace('attacker.name', 'att.name').replace('attacker.id', 'att.id').replace('attacker.to_dict()', 'att.to_dict()') + txt[b:]
    if mid.startswith('P4'):
        v = "            ag_node.is_viable = node_dict['is_viable'] == 'True' if \\\n                'is_viable' in node_dict else True\n"
        n = "            ag_node.is_necessary = node_dict['is_necessary'] == 'True' if \\\n                'is_necessary' in node_dict else True\n"
        assert v + n in txt
        return txt.replace(v + n, n + v)
only = sys.argv[1:]
rows = []
for mid, pid, f, old, new, kind in MUT:
    if only and not any(mid.startswith(o + ' ') for o in only): continue
    shutil.rmtree(SC, ignore_errors=True)
    os.makedirs(SC)
    shutil.copytree(os.path.join(BASE, 'maltoolbox'), os.path.join(SC, 'maltoolbox'))
    p = os.path.join(SC, f)
    txt = open(p).read()
    if old is None: txt2 = special(mid, txt)
    else:
        assert txt.count(old) == 1, (mid, txt.count(old))
        txt2 = txt.replace(old, new)
    assert txt2 != txt
    open(p, 'w').write(txt2)
    common.REPO = SC
    tie._closure_cache.clear()
    r = tie.translator_tie(pid)
    rows.append((mid, pid, kind, r.get('status'), (r.get('detail') or '')[:160].replace('\n', ' '), r.get('wall_s')))
    print(json.dumps(rows[-1]), flush=True)
common.REPO = '/repo'
print('\n| change | property | kind | tie status | detail |')
print('|---|---|---|---|---|')
for mid, pid, kind, st, det, w in rows:
    print(f'| {mid} | {pid} | {"semantic" if kind == "sem" else "behaviour-preserving"} | **{st}** | {det[:110]} |')
