#!/usr/bin/env python3
"""regenerates MANIFEST.json from the table below (single source of truth)"""
import json, os
HERE = os.path.dirname(os.path.abspath(__file__))
TB = 'Lean 4.33 kernel; axioms propext, Classical.choice, Quot.sound only (audited by #print axioms on every run); hand-written Lean model tied to the code by the correspondence check of this command; harness generators/canonicalisation'
CHECKS = {
 'C08': dict(
   text='Theorems (Props/C08.lean): the model of calculate_viability_and_necessity computes the greatest fixed point of the property\'s equation system for every graph with converse child/parent lists, every visiting order and every order of the child/parent lists (no size bound, cycles and self-loops included). The model is tied to apriori.py by running both on exhaustive small graphs and random graphs under storage permutations.',
   note='assumes graphs handed to the analysis are structurally consistent (C09); labels before the analysis are arbitrary (re-runs, loaded graphs); the recursion depth of the real propagation is the recorded finding KF-C08-1 (the Lean side idealises it with fuel |nodes|+1, proved sufficient); float comparisons on defense_status computed by the harness',
   technique='Lean 4 proof (induction on fuel and child list, Knaster-Tarski uniqueness) + differential correspondence',
   design='C08'),
}
CHECKS['C12'] = dict(
   text='Theorems (Props/C12.lean): the model of query.py computes exactly the sets the property names (traversable_iff, surface = traversable children of reached steps without duplicates, defense surface / enabled defenses partition the non-suppressed defenses) and updating a surface with the newly compromised nodes has the same members as recomputing it (incremental_eq_recomputed, update_after_compromises) for every graph with converse edges and mirrored attackers, no size bound. Tied to query.py / node.py by histories of compromises with incremental updates run on the real code and the model; purity checked by comparing the graph state before/after each query.',
   note='hypotheses of the incremental law are the ones the API documents: consistent structure (C09), mirrored attackers (C11), the nodes passed are the newly compromised ones; purity of the real functions is a correspondence result, not a theorem',
   technique='Lean 4 proof (list induction, monotonicity of traversability) + differential correspondence',
   design='C12')
CHECKS['C09'] = dict(
   text='Theorems (Props/C09.lean over the state machine Model/AGS.lean): the structural invariant Consistent (children/parents inside the graph and mirrored with multiplicity, id/attacker indexes exact, name index exact for distinct full names, attacker/node references inside the graph) holds initially and is preserved by add_node, link, remove_node, add/remove_attacker, add_node / add_attacker of an object that is already part of the graph (rejected: add_same_object_twice_rejected), compromise/undo, attach, label writes and prune, hence after every finite history (reachable_consistent); a rejected add_attacker changes nothing (rejected_add_attacker_changes_nothing; the pre-fix order of effects is refuted by pre_fix_add_attacker_leaves_stray_attacker); lookups return exactly the present nodes; a removed node leaves no trace. Tied to attackgraph.py/node.py/attacker.py by random operation histories run on the real objects and the model, with a direct consistency checker on the real objects after every step.',
   note='operations receive handles the API accepts (live nodes/attackers, existing node ids) or calls that must be rejected and change nothing (duplicate ids, add_attacker with an unknown node id after valid ones or an id in use with reached steps, add_node / add_attacker of an object already in the graph); hand-added nodes have distinct full names; regenerate/deepcopy/save-load sections are correspondence-only so far',
   technique='Lean 4 proof (invariant preserved by each operation, induction over histories) + differential correspondence on operation histories',
   design='C09')
CHECKS['C11'] = dict(
   text='Theorems (Props/C11.lean): in every reachable state an attacker lists a node as reached iff the node lists the attacker (both duplicate-free); compromise is idempotent, undo of a non-compromised node is the identity, remove_attacker leaves no node compromised by it, attach creates one attacker per model attacker in order whose entry points = reached steps = the existing nodes named by the entry points. Tied to the real code by histories of compromise/undo from either side, attach, add/remove attacker.',
   note='attackers and nodes passed to the operations belong to the graph; dataclass == coincides with identity inside one graph',
   technique='Lean 4 proof (mirror invariant over histories) + differential correspondence',
   design='C11')
CHECKS['C13'] = dict(
   text='Theorems (Props/C13.lean): prune leaves exactly the nodes that are not (or/and with a False label), in order, with labels, ids and names unchanged, none prunable left, and the result is Consistent again. Tied to apriori.prune_unviable_and_unnecessary_nodes / remove_node by random labelled graphs (adjacent and connected prunable nodes, attackers) pruned on the real code and the model.',
   note='the graph handed to prune is structurally consistent (C09)',
   technique='Lean 4 proof (fold characterisation + invariant reuse) + differential correspondence',
   design='C13')
CHECKS['C01'] = dict(
   text='Theorems (Props/C01.lean): membership in the result of the evaluator model equals the set-lifted denotation DenF for every expression (all nine operators), every source list and every instance model (eval_mem_iff); field navigation = Linked incl. self-links (neighbours_iff); the frontier loop of the transitive operator is totally correct with fuel |assets|+2 on every finite model incl. cycles (closure_correct, eval_terminates); the edge list of genGraph is exactly EdgeSpec (edges_iff_EdgeSpec, child_iff); parents are the converse of children. Tied to attackgraph.py/model.py by random well-typed languages x valid models: child and parent sets of every node compared with an independent reference set semantics (bounds closure+..closure*) and with the Lean model.',
   note='operands of * must distribute over unions of sources (TransOK; proved for everything built from field/collect/union/subtype/transitive/variables, and shown necessary by a proved counterexample); variable lookup is set-lifted as in the code; the model returns mixedVariable where sources disagree on a variable definition (unreachable for well-typed languages); sufficiency of the concrete variable fuel L.varFuel and the step name of expressions ending in a variable are not proved (UNPROVED block)',
   technique='Lean 4 proof (induction on fuel and expression; closure invariant + pigeonhole) + differential correspondence',
   design='C01')
CHECKS['C02'] = dict(
   text='Theorems (Props/C02.lean): genNodes yields exactly one node per (asset, folded step) pair in order and no other (nodes_eq_spec, exactly_one_node, no_other_node), ids are the positions (ids_nodup), every attribute is the declaration\'s (node_attributes: type, ttc, tags, mitre, defense = explicit value or class default, existence = requirement reaches an asset), full names are injective for colon-free step names even when asset names contain colons (fullName_injective, fullNames_nodup), lookups by id / full name are exact. Tied to _generate_graph/add_node by random languages x models compared with an independent reference and the Lean model, lookups for present and absent keys.',
   note='asset names pairwise distinct (C05), step names colon-free (true of everything the lexer accepts); defense defaults taken from the generated classes',
   technique='Lean 4 proof (list equalities, string lemma over List Char) + differential correspondence',
   design='C02')
CHECKS['C03'] = dict(
   text='Theorems (Props/C03.lean): the pure fold foldSteps satisfies the override / extend / absent / new clauses as equations, keeps key order, depends only on the ancestor chain (fold_local, fold_independent_of_others); a heap-level model of the resolver (Model/InheritH.lean: deepcopy = fresh location, list.extend = in-place write) returns foldSteps for every history of queries and never writes a location of the loaded specification (resolve_value, resolve_frame, resolve_history_loaded), while the pre-fix aliasing variant provably does (aliasing_variant_writes_spec). Tied to _get_attacks_for_asset_type by asking every type three times in shuffled order before/after regenerating the language graph, building classes and two attack graphs; answers compared with an independent fold and the Lean model; _lang_spec compared with a snapshot.',
   note='acyclic single inheritance (chainOK hypothesis); object identity is modelled by store locations, the real aliasing is observed with id() as an early-warning count only',
   technique='Lean 4 proof (fold laws; store model with freshness invariant) + differential correspondence',
   design='C03')
CHECKS['C05'] = dict(
   text='Model/MState.lean is a state-machine model of Model / AttackerAttachment; the correspondence runs random API histories with valid and invalid arguments on the real objects and the model, checks the abstract reference (unique ids/names, reservations, back-references with multiplicity, neighbours incl. self-links, entry points, atomic errors) directly on the real objects after every step, and compares the canonical state. Theorems (Props/C05.lean): invariant preserved by every operation and over every history, explicit ids honoured, removal leaves no trace, inner loops cannot fail half-way, neighbours = linked assets.',
   note='removed objects serve as invalid handles unless they are value-equal to a live object (pjs compares by value); exception classes are compared as drift only; pjs guards modelled by three functions',
   technique='Lean 4 proof (invariant over operation histories) + differential correspondence on operation histories',
   design='C05')
CHECKS['C07'] = dict(
   text='Theorems (Props/C07.lean): int(str(n)) = n for dictionary keys (key_roundtrip); loading the saved document (YAML and JSON layer) of any state reachable through the API with distinct attacker ids succeeds and gives the same assets (id, name, type, effective defense values, extras), associations and attackers, and saving again gives the identical document (load_save_reachable, load_save_yaml/json_partial, save_idempotent_partial); permuting the asset entries of a file gives the same model up to asset order (load_order_independent, incl. id 0 anywhere); the type-only shorthand loads as the asset it abbreviates. Model/Serial.lean models _to_dict/_from_dict over a typed document with int/str keys. The correspondence builds models by random API histories, saves them with the real code to .json/.yml/.yaml, loads the real file, compares every preserved attribute, re-saved content, the same file with permuted asset order and type-only shorthand, and compares saved document and loaded state with the Lean model.',
   note='file layers (json, PyYAML) enter as assumed functions jsonRT / yamlRT validated through real files; the three round-trip theorems carry hypotheses the proof forced (non-empty attacker names, distinct defense keys per asset, links resolve to their class: each shown necessary by a proved counterexample and shown to hold after every API history: load_save_reachable); model name / metadata are not part of the state model; known finding KF-C07-1 (duplicate attacker ids collapse, proved in Lean and replayed on the real code on every run)',
   technique='Lean 4 proof (round trip over a typed document model, order independence, shorthand) + differential correspondence through real files',
   design='C07')
CHECKS['C06'] = dict(
   text='Theorems (Props/C06.lean): the class table of the model is exactly the declarations (defenses = own and inherited with default 1 iff Enabled; one association class per declaration with its fields, declared types and maxima; distinct class names for distinct (name, left, right) under the stated naming hypothesis, with proved counterexamples otherwise); Valid (defenses in range, members subtype-correct, counts within maxItems, no asset twice in a field, no link twice) is preserved by every operation over every history; each of the invalid constructions is rejected, and an association passing all checks is accepted. Tied to LanguageClassesFactory / pjs / _validate_association by class inventories and histories of valid and invalid constructions on the real library.',
   note='pjs validation is modelled by guard functions (assumption, exercised through the real library); per-object multiplicity; naming hypothesis for class-name distinctness',
   technique='Lean 4 proof (validity invariant, rejection lemmas) + differential correspondence through the real pjs classes',
   design='C06')
CHECKS['C15'] = dict(
   text='Theorems (Props/C15.lean): subtype queries = reflexive-transitive closure of extends (isSub_iff_rtc), each asset lists exactly the associations in which it or an ancestor takes part (assocs_of_asset, for pairwise distinct signatures), association lookup is correct and symmetric in both orientations, links are mirrored, unknown super assets / association ends / fields / step targets are rejected, and every evaluation result has a subtype of the static type (type_soundness), hence every attack-graph edge is predicted by a language-graph link (overapprox). Model/LangGraph.lean models LanguageGraph._generate_graph (association nodes with the code\'s de-duplication, per-asset association lists, subtype walk), get_association_by_fields_and_assets and the static typing of process_step_expression. The correspondence compares asset / super / sub / association lists, the subtype matrix, association lookups in both orientations, link mirroring and error reporting for ill-formed mutants with an independent reference and the Lean model, and checks for random valid models that every attack-graph edge is predicted by a language-graph link.',
   note='type soundness / over-approximation carry the hypotheses the proof forced: acyclic extends, field names unique per hierarchy, no variable shadowing, models valid for the language, and for e* that the operand is typed at its own target type (StarTyped: the toolbox does not check this MAL rule; star_side_condition_needed is a proved counterexample); KF-C15-1 (same-signature associations merged, proved as same_signature_merged) is replayed on every run',
   technique='Lean 4 proof (closure of extends, association lists, lookup, type soundness by induction on fuel and expression) + differential correspondence',
   design='C15')
CHECKS['C16'] = dict(
   text='Partial. Lean side (Props/C16.lean, re-using C02/C03): generation is a function of the ordered inputs, node ids are positions, node order is model order x fold order, and the step lookups of any number of generations leave the loaded specification unchanged and return the folded steps. Execution side: every (language, model) pair is generated twice in one process, after an analysis, through create_attack_graph from a .mar and a printed .mal with json and yml model files, and in fresh interpreters under PYTHONHASHSEED 0 / 1 / 4242 / random; all serialisations must be identical to each other and to the single answer of the Lean model; model serialisation and specification are compared before/after; node objects of two graphs must be disjoint.',
   note='partial: determinism across processes / hash seeds and through the file-based wrapper is established by execution only (a pure model cannot exhibit CPython hashing); edge order and multiplicity are not compared with the model',
   technique='Lean 4 proof of the model-side halves + differential execution across processes and hash seeds',
   design='C16')
CHECKS['C10'] = dict(
   text='Theorems (Props/C10.lean): for every consistent graph with distinct full names, loading the saved document through the JSON layer (id keys become strings) or the YAML layer (every mapping sorted by key), with or without a model, succeeds and gives the same nodes (id, name, type, ttc, defense, existence, viability, necessity, mitre, tags as list, extras), the same edge sets, the same attackers with entry points and reached steps, and a consistent graph again (ag_roundtrip_json / _yaml); nodes are bound to the asset name iff the model is given; attacker keys are always distinct; duplicate edges provably collapse (why edges are compared as sets) and distinct names are provably necessary. Tied to _to_dict / _from_dict / save_to_file / load_from_file by histories with save/load steps through real files.',
   note='file layers enter as assumed functions jsonRT / yamlRT validated through real files; edge multiplicity is not preserved by the format',
   technique='Lean 4 proof (document round trip; permutation lemmas for the sorted YAML layer) + differential correspondence through real files',
   design='C10')
CHECKS['C14'] = dict(
   text='Partial (object identity is runtime). Theorems (Props/C14.lean) on the store model: the copy has the same observation, serialisation, counters and lookups (copy_equal, copy_serialized, copy_lookup), lives entirely on fresh references disjoint from the original (copy_fresh, copy_disjoint), is closed and consistent (copy_closed, copy_consistent), the original is untouched; every operation writes only objects of its own graph or fresh ones, so arbitrary interleavings of operations on original and copy stay invisible to the other side (independent_interleaved_partial; the extra hypothesis — label writes address nodes of the graph — is shown necessary by a proved counterexample). Tied to the three __deepcopy__ methods by histories with a deep copy, mutations on both sides, and an id()-based sharing check over nodes, attackers and every mutable per-node container.',
   note='partial: CPython object identity is observed (id()), not proved; sharing of model / language is checked at run time only',
   technique='Lean 4 proof (fresh-reference / frame argument over a shared store) + differential correspondence with sharing-pattern check',
   design='C14')
CHECKS['C04'] = dict(
   text='Theorems (Props/C04.lean) over the recursive-descent model of mal.g4 + malVisitor: compiling the printed form of any well-formed specification gives the specification back at token level (parse_print) and from text (compile_render_print, lex_render_partial); expression trees are shaped by precedence and left associativity (shape_* theorems), the last name of a reaches expression is the attack step and every other a field (classify_last; cls / relabel characterise exactly what round-trips), TTC arithmetic is left-associative with ^ over * / over + - (parse_print_ttc), the five multiplicity forms normalise as documented, repeating or splitting includes does not change the result (include_flatten, include_repeat). Tied to the real compiler (ANTLR lexer/parser + visitor) by compiling random printed specifications — single file, re-formatted, split over includes — and coreLang from the shipped .mar, each also through the Lean model, and by comparing token streams.',
   note='the generated ANTLR lexer/parser are assumed to implement mal.g4 (maximal munch, LL); tied by correspondence only; fuel monotonicity holds in the partial form stated in Props/C04.lean (counterexample proved); derivation of lexability of prSpec from conditions on names is recorded UNPROVED (decided per specification by lexOKb)',
   technique='Lean 4 proof (parser/printer round trip per grammar rule, lexer round trip) + differential correspondence through the real compiler',
   design='C04')
CHECKS['C17'] = dict(
   text='Theorems (Props/C17.lean): the grammar mal.g4 is stated rule by rule as derivation relations carrying the visitor values (Spec/MalGrammar.lean); the model of the compiler front end (parser.mal() followed by the EOF check of e0054c2; a text that does not lex is rejected) is sound and complete for it (parse_sound, parse_exact, reject_iff, source_exact): a specification is returned iff the WHOLE token list of a text that lexes is derivable by declaration*; trailing input is rejected whatever parsed in front of it (trailing_input_rejected; prefix_variant_accepts_trailing / prefix_variant_accepts_lex_error / fix_only_rejects document the repaired defect: the start rule has no EOF and the compiler used to return the prefix); the on-demand token stream ends in a specification exactly when the model returns one (front_end_on_demand, front_end_accepts_iff); the generated prefix parser is characterised too (parse_rest_sound, parse_rest_exact); every function consumes a prefix; an error or trailing input in an included file is an error of the whole. Tied to the real compiler by token-level mutants (deletion, insertion, duplication, truncation, swapped brackets, reserved words, stray characters), by a trailing-input family (surplus }, misspelt top-level keyword + block, arbitrary legal tokens, lexical error behind a stop token; in root and included files) and unmutated controls, with three-way agreement in both directions: Lean classifier rejects <=> MalCompiler.compile raises <=> ANTLR with counting listeners reports an error or leaves tokens unconsumed.',
   note='a file conforms to the grammar iff the unmodified generated ANTLR parser with counting listeners reports no error AND the start rule consumed the whole token stream; which of the three errors (syntax error / extraneous input / token recognition error) the real front end reports for a text with a lexical error is not claimed, only that it is an error',
   technique='Lean 4 proof (soundness and completeness of the recogniser w.r.t. the grammar relation) + differential correspondence on mutants',
   design='C17')
CHECKS['C18'] = dict(
   text='Theorems (Props/C18.lean): the 0.0.39 loader and the native loader give literally the same result (state or error) on corresponding documents without extras (old_agrees), hence the old layout round-trips reachable states (old_roundtrip); loading the securiCAD document emitted for a state gives the same assets (id, name, type, every defense value), exactly the pairwise expansion of its links (scad_links_agree) and the same attacker entry points with one tuple per asset (scad_entry_points_agree). Tied to updater.py / securicad.py by translating random native models to both legacy layouts (json/yml/yaml, flat and nested association form; XML in a zip with the attacker on either side) and comparing the real legacy loaders with the real native loader and the Lean models.',
   note='XML / zip layer and harness rendering assumed; hypotheses forced by the proofs are explicit (no asset type named Attacker, no field named firstSteps, step names without dot, defense names not starting with an upper-case letter, links resolve to their declaration by field names); extras and attacker names are not expressible in the legacy layouts',
   technique='Lean 4 proof (loader equivalence, inverse translation) + differential correspondence through real files',
   design='C18')
CHECKS['C19'] = dict(
   text='Theorems (Props/C19.lean): ingest_model sends one node per asset (id, name, type) and exactly one relationship per direction and linked pair labelled with the field name, nothing else, no duplicates (ingest_nodes_bij, ingest_rels); ingest_attack_graph sends one node per step with its attributes and one relationship per edge (ingest_graph_iso); the two Cypher queries are characterised (query_pairs_spec); get_model on the ingested subgraph reconstructs the same assets and exactly the pairwise expansion of the links (get_model_inverts), with the necessary language conditions proved necessary by counterexamples (fields_differ_needed, no_mixed_match_needed). Tied to neo4j.py through a recording stand-in for the database driver using real py2neo objects.',
   note='the database driver is a recording stand-in (trusted); attackers are not exported by ingest_model; hypotheses: an association whose two fields have the same name, or a language declaring an association with the mixed field pair of two others, cannot be inverted (proved)',
   technique='Lean 4 proof (export characterisation, query semantics, import inverts export) + differential correspondence through a recording driver',
   design='C19')
NOT_YET = {}
PENDING = set()   # harness exists, theorems in progress: not claimed until they check

# properties whose theorems are also stated and proved for Lean definitions regenerated from the Python source
TRANSLATED = {
 'C01': ('the step-expression evaluator _process_step_expression and the whole of AttackGraph._generate_graph (node creation loop + linking loop; attackgraph.py)', 'py2lean.py', 'Py/Gen', 'PropsGen/C01.lean, PropsGen/C01_Gen.lean'),
 'C02': ('the node-creation loop of AttackGraph._generate_graph with add_node and the lookups (attackgraph.py)', 'py2lean.py', 'Py/Gen', 'PropsGen/C02.lean'),
 'C03': ('LanguageGraph._get_attacks_for_asset_type and _get_variable_for_asset_type_by_name (languagegraph.py), with the specification objects as references into stores so that aliasing and purity are theorems about the translated code', 'py2lean_lang.py', 'Py/GenLang', 'PropsGen/C03.lean'),
 'C04': ('all 33 methods of malVisitor (mal_visitor.py), run on parse trees of a hand-written tree builder whose trees are compared with ANTLR\'s on every run (ties proved for expressions, TTC, clauses, associations, visitMal; step / asset / category level executed against the real compiler only)', 'py2lean_visitor.py', 'Py/GenVisitor', 'PropsGen/C04.lean'),
 'C16': ('create_attack_graph (wrappers.py) and Model.load_from_file as the composition of the generated functions of the other domains, with the evaluator environment instantiated from the translated model and language-graph heaps (evalEnvOf_eq)', 'py2lean_wrapper.py', 'Py/GenWrapper', 'PropsGen/C16.lean'),
 'C17': ('malVisitor.visitMal (include handling) and the hand-written glue compileGen over the tree builder', 'py2lean_visitor.py', 'Py/GenVisitor', 'PropsGen/C17.lean'),
 'C05': ('the mutators and lookups of Model and AttackerAttachment (model.py: add_asset, remove_asset, remove_asset_from_association, _validate_association, add_association, remove_association, add/remove_attacker, entry points, get_*, association_exists_between_assets, get_associated_assets_by_field_name)', 'py2lean_model.py (+ py2lean_stmodel.py: the same mutators emitted once more in a monad that keeps the heap an exception leaves behind)', 'Py/GenModel, Py/GenModelSt', 'PropsGen/C05.lean, PropsGen/C05_St.lean (a rejected mutator leaves the heap unchanged; what a half-way raise leaves)'),
 'C06': ('LanguageClassesFactory._generate_assets, _generate_associations (with its three closures), _create_classes up to the JSON schema, get_association_by_signature (classes_factory.py; python_jsonschema_objects stays the modelled boundary)', 'py2lean_classes.py', 'Py/GenClasses', 'PropsGen/C06.lean'),
 'C07': ('Model.get_asset_defenses, asset_to_dict, association_to_dict, attacker_to_dict, _to_dict and _from_dict (model.py; the json / yaml file layer stays a modelled function; _to_dict tied in general, _from_dict by a general shorthand lemma plus kernel-evaluated documents)', 'py2lean_mserial.py', 'Py/GenMSerial', 'PropsGen/C07.lean'),
 'C08': ('analyzers/apriori.py (propagation, evaluation, outer loop incl. the reset)', 'py2lean.py', 'Py/Gen', 'PropsGen/C08.lean'),
 'C09': ('attackgraph.py (lookups, add_node, remove_node, add_attacker, remove_attacker, regenerate_graph, __init__), attacker.py', 'py2lean.py (+ py2lean_st.py: heap-keeping emission of the raising mutators)', 'Py/Gen, Py/GenSt', 'PropsGen/C09.lean, PropsGen/C09_Regen.lean, PropsGen/C09_St.lean (a rejected add_node / add_attacker leaves the whole heap unchanged; exact partial states of the removals)'),
 'C10': ('AttackGraphNode.to_dict, Attacker.to_dict, AttackGraph._to_dict and AttackGraph._from_dict (the json / yaml file layer stays a modelled function)', 'py2lean_agserial.py', 'Py/GenAgSerial', 'PropsGen/C10.lean'),
 'C11': ('attacker.py and node.py (compromise, undo_compromise, is_compromised_by) and AttackGraph.attach_attackers', 'py2lean.py', 'Py/Gen', 'PropsGen/C11.lean, PropsGen/C11_Attach.lean'),
 'C12': ('query.py (all functions) and the defense predicates of node.py', 'py2lean.py', 'Py/Gen', 'PropsGen/C12.lean'),
 'C13': ('prune_unviable_and_unnecessary_nodes (apriori.py) with remove_node (attackgraph.py)', 'py2lean.py', 'Py/Gen', 'PropsGen/C13.lean'),
 'C14': ('the three __deepcopy__ methods (node.py, attacker.py, attackgraph.py)', 'py2lean_agserial.py', 'Py/GenAgSerial', 'PropsGen/C14.lean'),
 'C18': ('load_model_from_older_version / load_model_from_version_0_0_39 with _process_model (updater.py) and load_model_from_scad_archive after zip/XML parsing (securicad.py)', 'py2lean_legacy.py', 'Py/GenLegacy', 'PropsGen/C18.lean'),
 'C19': ('ingest_model, ingest_attack_graph and get_model (ingestors/neo4j.py) over a recording database that stands for py2neo (ingest functions tied in general; get_model: asset loop tied, whole function by closed form + kernel-evaluated round trips)', 'py2lean_neo4j.py', 'Py/GenNeo4j', 'PropsGen/C19.lean'),
 'C15': ('LanguageGraph._generate_graph, process_step_expression, reverse_dep_chain, _get_associations_for_asset_type, get_all_common_superassets (languagegraph.py; tie = decidable agreement BuildAgrees with the hand model, kernel-evaluated on 15 languages, PropsGen/C15_Build.lean) and LanguageGraphAsset.is_subasset_of / get_all_subassets / get_all_superassets, the LanguageGraphAssociation helpers, get_asset_by_name and get_association_by_fields_and_assets (languagegraph.py)', 'py2lean_lang.py', 'Py/GenLang', 'PropsGen/C15.lean'),
}

def main():
    for k in PENDING: CHECKS.pop(k, None)
    for k, (what, tr, gen, pg) in TRANSLATED.items():
        if k in CHECKS:
            c = CHECKS[k]
            c['text'] += (f' SECOND TIE: translators/{tr} regenerates Lean definitions from the current source of {what} on every run '
                          f'(lean/MalVerif/{gen}); Py/Tie*.lean prove them equal to the hand-written model under the abstractions Py/Abs*.lean and '
                          f'{pg} restate the property theorems for the translated code; harness/tie.py compares the regenerated text with '
                          f'the files lake checked and, if it differs, re-checks all dependent proofs in a scratch overlay (status in the evidence file).')
            c['note'] += ('; translated code: trusted translator + Py/Prelude*.lean conventions (DESIGN.md I.9, I.10); a broken or untranslatable second tie '
                          'escalates the failing-input search and is reported as NOTE, the verdict then rests on the correspondence')
            c['technique'] += ' + Python-to-Lean translation of the relevant functions, regenerated and re-checked on every run'
    props = [json.loads(l) for l in open(os.path.join(HERE, 'properties.jsonl'))]
    checks = []
    for p in props:
        pid = p['id']
        if pid in CHECKS:
            c = CHECKS[pid]
            checks.append({
              'property_id': pid,
              'quick_cmd': f'./check {pid} quick',
              'thorough_cmd': f'./check {pid} thorough',
              'evidence_file': f'/verif/evidence/{pid}.json',
              'replay_cmd_template': f'./check {pid} --replay {{path}}',
              'engine': 'lean-model+correspondence',
              'level_claimed': {'category': 'proof', 'text': c['text'], 'design_ref': 'DESIGN.md §4 ' + c['design']},
              'level_note': c['note'] + '; trusted base: ' + TB,
              'technique': c['technique']})
    na = [{'property_id': p['id'], 'reason': NOT_YET.get(p['id'], 'check not built yet in this round (model and theorems planned in DESIGN.md §4); not claimed until it exists')}
          for p in props if p['id'] not in CHECKS]
    m = {
     'version': 1,
     'setup_cmd': './setup.sh',
     'hooks': {'guard': 'MAL_TOOLBOX_VERIF', 'enable': 'no hooks needed: every observable is reachable through the public API; checks import /repo in-process',
               'baseline_off_cmd': 'cd /repo && /venv/bin/python -m pytest -ra -q -p no:cacheprovider --timeout=900 --continue-on-collection-errors',
               'source_commits': [], 'add_only': True},
     'engines': [{'name': 'lean-model+correspondence', 'path': 'lean/ + harness/',
                  'serves_properties': sorted(CHECKS), 'kind_free_text': 'Lean 4 theorems about a hand-written executable model; compiled driver + Python differential harness tie the model to /repo'}],
     'checks': checks,
     'not_applicable': na,
     'notes': 'see DESIGN.md; known_findings.json lists repaired and recorded defects'}
    json.dump(m, open(os.path.join(HERE, 'MANIFEST.json'), 'w'), indent=1)
if __name__ == '__main__':
    main()
