"""Shared machinery of the checks: Lean side (build, audit), driver I/O,
evidence, replays, known findings.  Run with /venv/bin/python (the repo's
interpreter); the real code is imported from /repo's working tree."""
from __future__ import annotations
import hashlib, json, os, random, re, subprocess, sys, tempfile, time, shutil
from dataclasses import dataclass, field
from typing import Any, Callable, Iterable

VERIF = os.path.dirname(os.path.dirname(os.path.abspath(__file__)))
LEAN = os.path.join(VERIF, 'lean')
DRIVER = os.path.join(LEAN, '.lake', 'build', 'bin', 'driver')
REPO = os.environ.get('VERIF_REPO', '/repo')
STD_AXIOMS = {'propext', 'Classical.choice', 'Quot.sound'}
FORBIDDEN = re.compile(r'\b(sorry|admit|native_decide|bv_decide|implemented_by)\b|^\s*axiom\s|unsafe\s|maxHeartbeats\s+0')

_scratch = None
def scratch() -> str:
    """per-run scratch directory (also the cwd, because maltoolbox creates
    `tmp/log.txt` relative to the cwd at import time); removed at exit."""
    global _scratch
    if _scratch is None:
        import atexit
        base = os.environ.get('VERIF_SCRATCH_BASE') or tempfile.gettempdir()
        _scratch = tempfile.mkdtemp(prefix='malverif-', dir=base)
        atexit.register(lambda: shutil.rmtree(_scratch, ignore_errors=True))
    return _scratch

def enter_scratch():
    d = scratch()
    os.chdir(d)
    sys.dont_write_bytecode = True
    if REPO not in sys.path:
        sys.path.insert(0, REPO)
    return d

# ---------------------------------------------------------------- Lean side
def strip_comments(src: str) -> str:
    # remove /- ... -/ (nested not needed for our files) and -- ... comments
    out, i, depth = [], 0, 0
    while i < len(src):
        if src.startswith('/-', i):
            depth += 1; i += 2; continue
        if src.startswith('-/', i) and depth:
            depth -= 1; i += 2; continue
        if depth:
            if src[i] == '\n': out.append('\n')
            i += 1; continue
        if src.startswith('--', i):
            while i < len(src) and src[i] != '\n': i += 1
            continue
        out.append(src[i]); i += 1
    return ''.join(out)

def lean_files() -> list[str]:
    """the files of the library: every module imported by the root `MalVerif.lean` (which lists all modules
    explicitly), the root itself and the driver.  A .lean file that the root does not import is not part of
    the build and carries no claim."""
    res = [os.path.join(LEAN, 'MalVerif.lean'), os.path.join(LEAN, 'Driver.lean')]
    root = open(os.path.join(LEAN, 'MalVerif.lean'), encoding='utf-8').read()
    for m in re.findall(r'^import\s+(MalVerif\.[\w\.]+)', root, re.M):
        res.append(os.path.join(LEAN, *m.split('.')) + '.lean')
    return sorted(res)

def grep_audit() -> list[str]:
    hits = []
    for f in lean_files():
        src = strip_comments(open(f, encoding='utf-8').read())
        for n, line in enumerate(src.split('\n'), 1):
            if FORBIDDEN.search(line):
                hits.append(f'{os.path.relpath(f, LEAN)}:{n}: {line.strip()[:100]}')
    return hits

def _theorems_of(path: str, ns: str) -> list[str]:
    if not os.path.exists(path):
        return []
    src = strip_comments(open(path, encoding='utf-8').read())
    return [f'{ns}.{m}' for m in re.findall(r'^\s*theorem\s+([A-Za-z_][\w\.\']*)', src, re.M)]

def propsgen_modules(pid: str) -> list[str]:
    """PropsGen/<pid>.lean and PropsGen/<pid>_<Domain>.lean (one per translation domain): module base names"""
    d = os.path.join(LEAN, 'MalVerif', 'PropsGen')
    if not os.path.isdir(d): return []
    return sorted(f[:-5] for f in os.listdir(d) if f.endswith('.lean') and (f == f'{pid}.lean' or f.startswith(f'{pid}_')))

def prop_theorems(pid: str) -> list[str]:
    """names of the theorems stated in Props/<pid>.lean (namespace MalVerif.<pid>) and, where the property has
    translated-code counterparts, in PropsGen/<pid>.lean / PropsGen/<pid>_<Domain>.lean (namespace
    MalVerif.PropsGen.<file name>)"""
    res = _theorems_of(os.path.join(LEAN, 'MalVerif', 'Props', f'{pid}.lean'), f'MalVerif.{pid}')
    for m in propsgen_modules(pid):
        res += _theorems_of(os.path.join(LEAN, 'MalVerif', 'PropsGen', f'{m}.lean'), f'MalVerif.PropsGen.{m}')
    return res

def has_propsgen(pid: str) -> bool:
    return bool(propsgen_modules(pid))

def lake_build(timeout=1800) -> tuple[bool, str]:
    p = subprocess.run(['lake', 'build'], cwd=LEAN, capture_output=True, text=True, timeout=timeout)
    out = (p.stdout + p.stderr)
    ok = p.returncode == 0 and "declaration uses 'sorry'" not in out and 'declaration uses `sorry`' not in out
    return ok, out[-4000:]

def axiom_audit(pid: str, theorems: list[str]) -> dict:
    """#print axioms on each theorem; returns {thm: [axioms]} and failures"""
    if not theorems:
        return {'axioms': {}, 'bad': [], 'log': ''}
    d = os.path.join(LEAN, '.audit'); os.makedirs(d, exist_ok=True)
    f = os.path.join(d, f'Audit_{pid}_{os.getpid()}.lean')
    with open(f, 'w') as fh:
        fh.write(f'import MalVerif.Props.{pid}\n')
        for m in propsgen_modules(pid): fh.write(f'import MalVerif.PropsGen.{m}\n')
        for t in theorems:
            fh.write(f'#print axioms {t}\n')
    try:
        p = subprocess.run(['lake', 'env', 'lean', f], cwd=LEAN, capture_output=True, text=True, timeout=900)
    finally:
        try: os.remove(f)
        except OSError: pass
    out = p.stdout + p.stderr
    axioms: dict[str, list[str]] = {}
    for m in re.finditer(r"'([^']+)' depends on axioms: \[([^\]]*)\]", out, re.S):
        axioms[m.group(1)] = [a.strip() for a in m.group(2).replace('\n', ' ').split(',') if a.strip()]
    for m in re.finditer(r"'([^']+)' does not depend on any axioms", out):
        axioms[m.group(1)] = []
    bad = []
    for t in theorems:
        if t not in axioms:
            bad.append(f'{t}: not checked ({out[-300:].strip()})')
        elif not set(axioms[t]) <= STD_AXIOMS:
            bad.append(f'{t}: non-standard axioms {sorted(set(axioms[t]) - STD_AXIOMS)}')
    return {'axioms': axioms, 'bad': bad, 'log': out[-2000:] if p.returncode else ''}

def lean_side(pid: str, tier: str) -> dict:
    t0 = time.time()
    ok, log = lake_build()
    res = {'build_ok': ok, 'build_log': '' if ok else log, 'grep_hits': grep_audit()}
    thms = prop_theorems(pid)
    res['theorems'] = thms
    if ok:
        a = axiom_audit(pid, thms)
        res.update(axioms=a['axioms'], bad=a['bad'])
    else:
        res.update(axioms={}, bad=[f'build failed'])
    if tier == 'thorough' and ok and thms and os.environ.get('VERIF_NO_LEANCHECKER') != '1':
        p = subprocess.run(['lake', 'env', 'leanchecker', f'MalVerif.Props.{pid}'] +
                           [f'MalVerif.PropsGen.{m}' for m in propsgen_modules(pid)], cwd=LEAN,
                           capture_output=True, text=True, timeout=3600)
        res['leanchecker'] = 'ok' if p.returncode == 0 else (p.stdout + p.stderr)[-500:]
        if p.returncode != 0:
            res['bad'].append('leanchecker rejected MalVerif.Props.' + pid)
    from . import tie as _tie
    if pid in _tie.PIDS and ok:
        res['tie'] = _tie.translator_tie(pid)
    res['obligations'] = len(thms)
    res['discharged'] = len([t for t in thms if t in res['axioms'] and set(res['axioms'][t]) <= STD_AXIOMS]) if ok else 0
    res['ok'] = ok and not res['grep_hits'] and not res['bad'] and len(thms) > 0
    res['wall_s'] = round(time.time() - t0, 2)
    return res

# ---------------------------------------------------------------- driver
DRIVER_SKIPPED: list = []      # payloads the compiled model could not answer within its per-case limit (counted in the evidence)

def _run_driver_chunk(payloads: list[dict], case_limit: float | None = None) -> list[dict]:
    """`case_limit` (seconds; only the generation ops pass it): the evaluator of the real code keeps duplicates, and a model
    in which two assets sit on both sides of a link doubles them per hop - a single generated case can then cost the compiled
    model minutes and gigabytes (measured: 21 GB in the thorough tier).  The batch gets a budget; if it is exceeded or the
    process is killed, every case of the batch is run on its own with `case_limit`, and a case that still does not finish
    is answered `{'skipped': ...}` (running time is not a property under test: the case is left to the Python oracle)."""
    data = '\n'.join(json.dumps(p, separators=(',', ':')) for p in payloads) + '\n'
    budget = None if case_limit is None else max(4 * case_limit, 0.25 * len(payloads) + 60)
    try:
        p = subprocess.run([DRIVER], input=data, capture_output=True, text=True, timeout=budget)
    except subprocess.TimeoutExpired:
        p = None
    if case_limit is not None and (p is None or p.returncode < 0):
        if len(payloads) == 1:
            DRIVER_SKIPPED.append(payloads[0].get('op'))
            return [{'case': payloads[0].get('case'), 'skipped': f'the compiled model did not answer within {case_limit} s'}]
        out = []
        for q in payloads:
            try:
                r = subprocess.run([DRIVER], input=json.dumps(q, separators=(',', ':')) + '\n', capture_output=True, text=True, timeout=case_limit)
                lines = [l for l in r.stdout.split('\n') if l.strip()]
                if r.returncode == 0 and len(lines) == 1: out.append(json.loads(lines[0])); continue
                if r.returncode >= 0: raise RuntimeError(f'driver failed rc={r.returncode}: {r.stderr[-500:]}')
            except subprocess.TimeoutExpired:
                pass
            DRIVER_SKIPPED.append(q.get('op'))
            out.append({'case': q.get('case'), 'skipped': f'the compiled model did not answer within {case_limit} s'})
        return out
    if p.returncode != 0:
        raise RuntimeError(f'driver failed rc={p.returncode}: {p.stderr[-500:]}')
    lines = [l for l in p.stdout.split('\n') if l.strip()]
    if len(lines) != len(payloads):
        raise RuntimeError(f'driver answered {len(lines)} lines for {len(payloads)} payloads')
    return [json.loads(l) for l in lines]

def run_driver(payloads: list[dict], jobs: int | None = None, case_limit: float | None = None) -> list[dict]:
    """feed one JSON object per line to the compiled Lean model (several driver processes for large batches;
    cases are dealt round-robin so that large cases are spread over the processes)"""
    if not payloads:
        return []
    jobs = jobs or (min(14, os.cpu_count() or 1) if len(payloads) >= 400 else 1)
    if jobs <= 1:
        return _run_driver_chunk(payloads, case_limit)
    from concurrent.futures import ThreadPoolExecutor
    chunks = [payloads[i::jobs] for i in range(jobs)]
    with ThreadPoolExecutor(max_workers=jobs) as ex:
        parts = list(ex.map(lambda c: _run_driver_chunk(c, case_limit), chunks))
    out = [None] * len(payloads)
    for i, part in enumerate(parts):
        out[i::jobs] = part
    return out

import contextlib, signal
class CaseTimeout(BaseException):
    pass
_deadlines: list = []
@contextlib.contextmanager
def time_limit(seconds: int):
    """abort a single generated case that makes the real code run very long (python_jsonschema_objects compares
    objects structurally, and the evaluator multiplies duplicates: exponential on some generated language / model
    pairs): running time is not a property under test, the case is skipped and counted.  Limits nest (the innermost
    deadline that expires first fires)."""
    def _raise(signum, frame): raise CaseTimeout()
    try:
        signal.signal(signal.SIGALRM, _raise)
    except ValueError:              # not in the main thread: no limit
        yield; return
    _deadlines.append(time.time() + seconds)
    signal.alarm(max(1, int(min(_deadlines) - time.time()) + 1))
    try:
        yield
    finally:
        _deadlines.pop()
        signal.alarm(0)
        if _deadlines:
            signal.alarm(max(1, int(min(_deadlines) - time.time()) + 1))

def guarded(res, fn, *args, limit=30, **kw):
    """run one generated case; (True, value), or (False, None) when the real code needed more than `limit` seconds
    (the case is counted as skipped in the evidence: running time is not a property under test)"""
    try:
        with time_limit(limit), debug_logging(log_turn()):
            return True, fn(*args, **kw)
    except CaseTimeout:
        res.bump(f'skipped: the real code ran for more than {limit} s on this case')
        return False, None

# ---------------------------------------------------------------- log level of the code under test
# No answer of the toolbox may depend on the log level (a generator consumed by a debug message, a dump written only
# when debugging ...): every fourth history / generation runs with the 'maltoolbox' loggers at DEBUG, the records
# formatted and dropped.  LOG_MODE: 'mixed' (checks), 'off' / 'debug' (replays try both).
import logging
LOG_MODE = os.environ.get('VERIF_LOG', 'mixed')
_log_turns = [0]
LOG_COUNT = {'default': 0, 'DEBUG': 0}
class _Sink(logging.Handler):
    def emit(self, record):
        try: self.format(record)
        except Exception: pass
def log_turn() -> bool:
    if LOG_MODE != 'mixed': return LOG_MODE == 'debug'
    _log_turns[0] += 1
    if _log_turns[0] % 4 == 0:
        LOG_COUNT['DEBUG'] += 1; return True
    LOG_COUNT['default'] += 1; return False
@contextlib.contextmanager
def debug_logging(on: bool):
    if not on:
        yield; return
    lg = logging.getLogger('maltoolbox')
    saved = (lg.level, lg.handlers[:], lg.propagate)
    lg.handlers[:] = [_Sink()]; lg.propagate = False; lg.setLevel(logging.DEBUG)
    try:
        yield
    finally:
        lg.handlers[:] = saved[1]; lg.propagate = saved[2]; lg.setLevel(saved[0])
def logged(fn):
    """method decorator: the call runs at the log level the object drew when it was made (`self.debug`)"""
    import functools
    @functools.wraps(fn)
    def wrapper(self, *a, **kw):
        with debug_logging(getattr(self, 'debug', False)): return fn(self, *a, **kw)
    return wrapper

# the case (language / model / history) the harness is working on right now: reported if the real code crashes on it
CURRENT: dict = {}
def set_current(**kw):
    CURRENT.update(kw)

# ---------------------------------------------------------------- results
def canon_hash(obj: Any) -> str:
    return hashlib.sha1(json.dumps(obj, sort_keys=True, default=str).encode()).hexdigest()[:16]

@dataclass
class Violation:
    what: str                  # one line
    fingerprint: str           # structural, to match known findings
    replay: dict               # everything needed to replay (payload, impl/model observables)
    no_failing_input: bool = False

@dataclass
class Result:
    evaluations: int = 0
    nontrivial: set = field(default_factory=set)      # hashes of distinct non-trivial cases
    rule: str = ''
    samples: list = field(default_factory=list)
    violations: list = field(default_factory=list)    # [Violation]
    drift: int = 0
    distribution: dict = field(default_factory=dict)
    notes: list = field(default_factory=list)
    traces_validated: int = 0
    escalation: dict = field(default_factory=dict)

    def bump(self, key: str, n: int = 1):
        self.distribution[key] = self.distribution.get(key, 0) + n

def load_known() -> dict:
    p = os.path.join(VERIF, 'known_findings.json')
    if os.path.exists(p):
        return json.load(open(p))
    return {'findings': [], 'fixed': []}

def write_replay(pid: str, v: Violation, idx: int) -> str:
    os.makedirs(os.path.join(VERIF, 'replays'), exist_ok=True)
    path = os.path.join(VERIF, 'replays', f'{pid}-{canon_hash(v.replay)}-{idx}.json')
    with open(path, 'w') as fh:
        json.dump({'property': pid, 'what': v.what, 'fingerprint': v.fingerprint,
                   'no_failing_input_found': v.no_failing_input, **v.replay}, fh, indent=1, default=str)
    return path

def finish(pid: str, tier: str, seed: int, lean: dict, res: Result, assumptions: list[str],
           trusted: list[str], t0: float, partial_note: str = '') -> int:
    known = load_known()
    kf = {k['fingerprint']: k for k in known.get('findings', []) if k.get('property') == pid}
    real, known_hit = [], {}
    for v in res.violations:
        if v.fingerprint in kf:
            known_hit.setdefault(v.fingerprint, v)
        else:
            real.append(v)
    # proof-side obligation broken and no failing input found
    if not lean['ok'] and not real:
        why = '; '.join(lean.get('bad', []) + lean.get('grep_hits', [])) or lean.get('build_log', '')[-400:] or 'no theorems'
        real.append(Violation(what=f'proof side no longer checks: {why}', fingerprint='lean-side',
                              replay={'broken': lean.get('bad', []), 'grep_hits': lean.get('grep_hits', []),
                                      'build_log': lean.get('build_log', '')[-2000:]},
                              no_failing_input=True))
    lines, rc = [], 0
    for fp, v in known_hit.items():
        lines.append(f'KNOWN-FINDING: property={pid} {kf[fp].get("what", v.what)}')
    # de-duplicate violations by fingerprint, keep first (smallest, generators go small-first)
    seen, uniq = set(), []
    for v in real:
        if v.fingerprint not in seen:
            seen.add(v.fingerprint); uniq.append(v)
    for i, v in enumerate(uniq[:10]):
        path = write_replay(pid, v, i)
        tail = ' no-failing-input-found' if v.no_failing_input else ''
        lines.append(f'VIOLATION property={pid} replay={path}{tail}')
        rc = 1
    cov = {
        'obligations': lean['obligations'], 'discharged': lean['discharged'],
        'checker_cmd': f'cd {LEAN} && lake build && lake env lean <#print axioms of every theorem of Props/{pid}.lean'
                       + ''.join(f', PropsGen/{m}.lean' for m in propsgen_modules(pid)) + '>'
                       + (' && lake env leanchecker MalVerif.Props.' + pid + ''.join(f' MalVerif.PropsGen.{m}' for m in propsgen_modules(pid)) if tier == 'thorough' else ''),
        'trusted_base': trusted,
        'theorems': lean.get('axioms', {}),
        'grep_audit_hits': lean.get('grep_hits', []),
        'evaluations': res.evaluations,
        'distinct_nontrivial': len(res.nontrivial),
        'rule': res.rule,
        'samples': res.samples[:5] if res.samples else [],
        'traces_validated_against_impl': res.traces_validated or res.evaluations,
        'input_distribution': res.distribution,
        'drift_cases': res.drift,
        'known_findings_replayed': sorted(known_hit),
        'violations_reported': [v.what for v in uniq[:10]],
        'notes': res.notes[:20],
        'lean_wall_s': lean.get('wall_s'),
    }
    if 'leanchecker' in lean: cov['leanchecker'] = lean['leanchecker']
    if lean.get('tie'): cov['translator_tie'] = lean['tie']
    if getattr(res, 'escalation', None): cov['escalation'] = res.escalation
    ev = {'property_id': pid, 'tier': tier, 'seed': seed, 'level': 'proof', 'coverage': cov,
          'assumptions': assumptions + ([partial_note] if partial_note else []),
          'wall_s': round(time.time() - t0, 2), 'violations': len(uniq)}
    os.makedirs(os.path.join(VERIF, 'evidence'), exist_ok=True)
    with open(os.path.join(VERIF, 'evidence', f'{pid}.json'), 'w') as fh:
        json.dump(ev, fh, indent=1, default=str)
    for l in lines:
        print(l)
    print(f'{pid} {tier} seed={seed}: lean {lean["discharged"]}/{lean["obligations"]} theorems, '
          f'{res.evaluations} cases ({len(res.nontrivial)} distinct non-trivial), '
          f'{len(uniq)} violations, {len(known_hit)} known findings, {ev["wall_s"]}s')
    return rc
