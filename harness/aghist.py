"""Histories of AttackGraph / Attacker / analyzer / query operations, run on
the real code and on the Lean state machine `Model/AGS.lean` (C09, C11, C12, C13)."""
from __future__ import annotations
import copy, json, random, types
from .common import Result, Violation, run_driver, canon_hash

TYPES = ['or', 'and', 'defense', 'exist', 'notExist']

# ------------------------------------------------------------------ real code
class Impl:
    def __init__(self):
        from maltoolbox.attackgraph import AttackGraph
        self.g = AttackGraph()
        self.nodes = []     # allocation order = model refs
        self.atts = []
        self.assets = {}
        self.other = None   # the other side of a deep copy
        from .common import log_turn
        self.debug = log_turn()

    def asset(self, name):
        if name is None: return None
        if name not in self.assets:
            self.assets[name] = types.SimpleNamespace(name=name)
        return self.assets[name]

    def step(self, op):
        from .common import debug_logging
        with debug_logging(self.debug): return self._step(op)

    def _step(self, op):
        from maltoolbox.attackgraph import AttackGraphNode, Attacker
        from maltoolbox.attackgraph import query
        from maltoolbox.attackgraph.analyzers import apriori
        from maltoolbox.exceptions import AttackGraphException
        g, k = self.g, op['k']
        err, out = None, None
        before = getattr(self, '_last_obs', None)
        if before is None: before = self.obs()
        rej = None          # a freshly constructed object that the call was given, as the call left it
        try:
            if k == 'add_node':
                n = AttackGraphNode(type=op['type'], name=op['name'], ttc=None, asset=self.asset(op.get('asset')))
                n.is_viable, n.is_necessary = op['viable'], op['necessary']
                if op['type'] == 'defense' and op.get('defense') is None and not op.get('bare'): n.defense_status = 1.0 if op['defOne'] else 0.5
                if op['suppress']: n.tags = ['suppress']
                if 'tags' in op: n.tags = list(op['tags'])
                if op.get('ttc') is not None: n.ttc = json.loads(op['ttc'])
                if op.get('defense') is not None: n.defense_status = float(op['defense'])
                if op.get('exist') is not None: n.existence_status = op['exist']
                if op.get('mitre') is not None: n.mitre_info = op['mitre']
                if op.get('extras') not in (None, '{}'): n.extras = json.loads(op['extras'])
                if op.get('peek'):
                    # an observer (repr, logging, a debugger) may read the derived attributes of the new object
                    # before it is added; that must not influence what add_node records
                    _ = (n.full_name, repr(n), n.to_dict(), n.is_compromised())
                g.add_node(n, node_id=op.get('id'))
                self.nodes.append(n)
            elif k == 'link':
                p, c = self.nodes[op['p']], self.nodes[op['c']]
                p.children.append(c); c.parents.append(p)
            elif k == 'link1':
                # one half of an edge only (an inconsistent graph; the generated-code column of C09 only)
                p, c = self.nodes[op['p']], self.nodes[op['c']]
                if op['side'] == 'child': p.children.append(c)
                else: c.parents.append(p)
            elif k == 'remove_node':
                g.remove_node(self.nodes[op['n']])
            elif k == 'add_attacker':
                a = Attacker(name=op['name'], entry_points=[], reached_attack_steps=[])
                rej = a
                g.add_attacker(a, attacker_id=op.get('id'), entry_points=list(op['entry']),
                               reached_attack_steps=list(op['reached']))
                rej = None
                self.atts.append(a)
            elif k == 'add_node_again':
                # the node object `n` (already handed to add_node once) is handed to add_node again
                g.add_node(self.nodes[op['n']], node_id=op.get('id'))
            elif k == 'add_attacker_again':
                g.add_attacker(self.atts[op['a']], attacker_id=op.get('id'), entry_points=list(op['entry']),
                               reached_attack_steps=list(op['reached']))
            elif k == 'remove_attacker':
                g.remove_attacker(self.atts[op['a']])
            elif k in ('compromise', 'undo'):
                a, n = self.atts[op['a']], self.nodes[op['n']]
                if op.get('side') == 'node':
                    (n.compromise if k == 'compromise' else n.undo_compromise)(a)
                else:
                    (a.compromise if k == 'compromise' else a.undo_compromise)(n)
            elif k == 'attach':
                g.model = types.SimpleNamespace(name='m', attackers=[
                    types.SimpleNamespace(name=nm, entry_points=self._eps(eps)) for nm, eps in op['atts']])
                before = len(g.attackers)
                g.attach_attackers()
                self.atts.extend(g.attackers[before:])
            elif k == 'set_labels':
                for r, v, n in op['labels']:
                    self.nodes[r].is_viable, self.nodes[r].is_necessary = v, n
            elif k == 'prune':
                apriori.prune_unviable_and_unnecessary_nodes(g)
            elif k == 'touch':
                n = self.nodes[op['n']]
                if op['field'] == 'tags': n.tags.append('touched')
                elif op['field'] == 'extras': n.extras['touched'] = 1
                elif op['field'] == 'ttc': n.ttc['touched'] = 1
            elif k == 'trav':
                out = query.is_node_traversable_by_attacker(self.nodes[op['n']], self.atts[op['a']])
            elif k == 'surface':
                out = [n.id for n in query.get_attack_surface(self.atts[op['a']])]
            elif k == 'update_surface':
                cur = [self.nodes[r] for r in op['cur']]
                out = [n.id for n in query.update_attack_surface_add_nodes(
                    self.atts[op['a']], cur, [self.nodes[r] for r in op['nodes']])]
            elif k == 'defense_surface':
                out = [n.id for n in query.get_defense_surface(g)]
            elif k == 'enabled_defenses':
                out = [n.id for n in query.get_enabled_defenses(g)]
            elif k == 'save_load':
                from maltoolbox.attackgraph import AttackGraph
                from .common import scratch
                import os
                path = os.path.join(scratch(), 'ag.' + ('json' if op['fmt'] == 'json' else op.get('ext', 'yml')))
                g.save_to_file(path)
                model = None
                if op['withModel']:
                    model = types.SimpleNamespace(name='m', attackers=[], get_asset_by_name=lambda nm: self.asset(nm))
                g2 = AttackGraph.load_from_file(path, model=model)
                self.g = g2; self.nodes = list(g2.nodes); self.atts = list(g2.attackers); self.other = None
            elif k == 'deepcopy':
                memo = {}
                g2 = copy.deepcopy(g, memo)
                self.memo_hits = memo
                self.nodes.extend(memo[id(n)] for n in g.nodes)
                self.atts.extend(memo[id(a)] for a in g.attackers)
                self.other = g; self.g = g2
            elif k == 'switch':
                self.g, self.other = self.other, self.g
            elif k == 'lookup':
                f = lambda o: None if o is None else o.id
                out = {'ids': [f(g.get_node_by_id(i)) for i in op['ids']],
                       'names': [f(g.get_node_by_full_name(n)) for n in op['names']],
                       'aids': [f(g.get_attacker_by_id(i)) for i in op['aids']]}
            else:
                raise KeyError(k)
        except ValueError:
            err = 'ValueError'
        except AttackGraphException:
            err = 'AttackGraphException'
        except LookupError:
            err = 'LookupError'
        obs = self.obs()
        self._last_obs = obs
        res = {'err': err, 'out': out, 'obs': obs, 'other': self.obs(self.other) if self.other is not None else None}
        if err is not None:
            # a rejected operation must leave the observable state as it was ...
            res['rejected_changed'] = [k2 for k2 in obs if obs[k2] != before[k2]]
            # ... and the freshly constructed attacker it was given untouched (no id, nothing reached, no entry point)
            if rej is not None:
                res['rejected_obj'] = [rej.id, len(rej.reached_attack_steps), len(rej.entry_points)]
        return res

    def _eps(self, eps):
        # model entry points: [(asset, [steps])] from full names "asset:step"
        res = {}
        for fn in eps:
            a, s = fn.rsplit(':', 1)
            res.setdefault(a, []).append(s)
        return [(self.asset(a), steps) for a, steps in res.items()]

    def obs(self, g=None):
        g = g or self.g
        from .langgen import jtxt
        return {
            'nodes': [[n.id, n.full_name, [c.id for c in n.children], [p.id for p in n.parents],
                       [a.id for a in n.compromised_by], n.is_viable, n.is_necessary,
                       [n.name, n.type, jtxt(n.ttc), None if n.defense_status is None else repr(float(n.defense_status)),
                        n.existence_status, n.mitre_info, list(n.tags), jtxt(n.extras) if n.extras else '{}',
                        n.asset.name if n.asset else None]] for n in g.nodes],
            'attackers': [[a.id, a.name, [n.id for n in a.entry_points], [n.id for n in a.reached_attack_steps]]
                          for a in g.attackers],
            'idIdx': [[k, v.id] for k, v in g._id_to_node.items()],
            'nameIdx': [[k, v.id] for k, v in g._full_name_to_node.items()],
            'attIdx': [[k, v.id] for k, v in g._id_to_attacker.items()],
            'next': [g.next_node_id, g.next_attacker_id]}

def canon_obs(o):
    """property-level view: sets / multisets, no list order"""
    return {
        'nodes': sorted([n[0], n[1], sorted(n[2]), sorted(n[3]), sorted(n[4]), n[5], n[6]] + ([n[7]] if len(n) > 7 else []) for n in o['nodes']),
        'attackers': sorted([a[0], a[1], sorted(a[2]), sorted(a[3])] for a in o['attackers']),
        'idIdx': sorted(o['idIdx']), 'nameIdx': sorted(o['nameIdx']), 'attIdx': sorted(o['attIdx']),
        'next': o['next']}

def canon_out(op, out):
    if op['k'] in ('surface', 'update_surface', 'defense_surface', 'enabled_defenses') and out is not None:
        return sorted(out)
    return out

def consistent(g):
    """C09's structural consistency, checked directly on the real objects"""
    probs = []
    nodes = g.nodes
    idset = {id(n) for n in nodes}
    if len(idset) != len(nodes): probs.append('node stored twice')
    ids = [n.id for n in nodes]
    if len(set(ids)) != len(ids): probs.append('id given to two nodes')
    # multiplicity of every edge on both sides, by object identity (counted once per node, not once per edge)
    from collections import Counter
    nch = {id(n): Counter(id(x) for x in n.children) for n in nodes}
    npa = {id(n): Counter(id(x) for x in n.parents) for n in nodes}
    for n in nodes:
        for c in n.children:
            if id(c) not in idset: probs.append(f'child {c.id} of {n.id} not in graph')
            elif nch[id(n)][id(c)] != npa[id(c)][id(n)]:
                probs.append(f'edge {n.id}->{c.id} not mirrored')
        for p in n.parents:
            if id(p) not in idset: probs.append(f'parent {p.id} of {n.id} not in graph')
            elif npa[id(n)][id(p)] != nch[id(p)][id(n)]:
                probs.append(f'edge {p.id}->{n.id} not mirrored')
    if sorted(g._id_to_node.keys()) != sorted(ids) or any(g._id_to_node.get(n.id) is not n for n in nodes):
        probs.append('id index differs from the nodes in the graph')
    names = [n.full_name for n in nodes]
    if sorted(g._full_name_to_node.keys()) != sorted(set(names)) or \
            (len(set(names)) == len(names) and any(g._full_name_to_node.get(n.full_name) is not n for n in nodes)):
        probs.append('name index differs from the nodes in the graph')
    atts = g.attackers
    aset = {id(a) for a in atts}
    aids = [a.id for a in atts]
    if len(set(aids)) != len(aids): probs.append('id given to two attackers')
    if sorted(g._id_to_attacker.keys()) != sorted(aids) or any(g._id_to_attacker.get(a.id) is not a for a in atts):
        probs.append('attacker index differs from the attackers in the graph')
    for a in atts:
        for n in list(a.reached_attack_steps) + list(a.entry_points):
            if id(n) not in idset: probs.append(f'attacker {a.id} references node {n.id} not in graph')
    for n in nodes:
        for a in n.compromised_by:
            if id(a) not in aset: probs.append(f'node {n.id} references attacker {a.id} not in graph')
    return probs

def rejected_clean(st):
    """a rejected operation changes nothing (C09: in particular it cannot leave an attacker that is not part of the
    graph on a node, a second id on an object, a moved counter)"""
    probs = []
    if st.get('err') is None: return probs
    if st.get('rejected_changed'):
        probs.append('a rejected operation (' + str(st['err']) + ') changed the observable state: ' + ', '.join(st['rejected_changed']))
    if st.get('rejected_obj') not in (None, [None, 0, 0]):
        probs.append('a rejected add_attacker changed the attacker object it was given (id, reached, entry points)')
    return probs

def mirror(g):
    """C11: attackers and nodes agree on what is compromised"""
    probs = []
    for a in g.attackers:
        r = a.reached_attack_steps
        if len({id(n) for n in r}) != len(r): probs.append(f'attacker {a.id} lists a node twice')
        for n in r:
            if not any(x is a for x in n.compromised_by): probs.append(f'attacker {a.id} reached {n.id} but node does not list it')
    for n in g.nodes:
        c = n.compromised_by
        if len({id(a) for a in c}) != len(c): probs.append(f'node {n.id} lists an attacker twice')
        for a in c:
            if not any(x is n for x in a.reached_attack_steps): probs.append(f'node {n.id} compromised by {a.id} but attacker does not list it')
    return probs

# ------------------------------------------------------------------ generation
class Gen:
    """random history over pools of live / removed handles"""
    def __init__(self, rnd: random.Random, weights: dict, nmax=8, with_assets=True, rich=False, bare_defenses=False):
        self.r, self.w, self.nmax, self.with_assets = rnd, weights, nmax, with_assets
        self.bare_defenses = bare_defenses
        self.rich = rich; self.copied = False; self.saved = None
        self.snames, self.assets_of, self.extras_of, self.ttc_of, self.anames = {}, {}, {}, {}, {}
        self.live_n, self.dead_n, self.live_a, self.dead_a = [], [], [], []
        self.nrefs = 0; self.arefs = 0
        self.ids = {}        # node ref -> id (predicted: explicit or next)
        self.aids = {}
        self.next_n = 0; self.next_a = 0
        self.used_ids, self.used_aids = set(), set()
        self.names = {}      # ref -> full name
        self.reached = {}    # attacker ref -> set(node ref)
        self.types = {}; self.labels = {}
        self.ops = []

    def add_node(self, explicit=None, dup=False):
        r = self.r
        t = r.choices(TYPES, [5, 5, 2, 1, 1])[0]
        asset = r.choice(['A', 'B', 'C:1', 'A:1', 'B:x', None]) if self.with_assets else None   # 'A:1' is what add_asset calls the second 'A'; its node keys start with 'A:'
        nid = None
        if dup and self.live_n:
            nid = self.ids[r.choice(self.live_n)]
        elif explicit or r.random() < 0.2:
            nid = r.choice([self.next_n + r.randint(0, 3), r.randint(-2, 12)])
        eff = nid if nid is not None else self.next_n
        self.name_counter = getattr(self, 'name_counter', 0) + 1
        name = f's{self.name_counter}'
        # the same step name on several assets is the normal case (and nodes without an asset may repeat a name: their
        # full names differ by the id); only the full names of live nodes are pairwise distinct
        if self.live_n and r.random() < 0.35:
            again = self.snames[r.choice(self.live_n)]
            full = (asset + ':' + again) if asset else f'{eff}:{again}'
            if full not in {self.names[x] for x in self.live_n}: name = again
        op = {'k': 'add_node', 'name': name, 'asset': asset, 'type': t,
              'viable': r.random() < 0.7, 'necessary': r.random() < 0.7,
              'defOne': r.random() < 0.5, 'suppress': r.random() < 0.3, 'id': nid}
        if t == 'defense': op['defense'] = '1.0' if op['defOne'] else '0.5'
        if r.random() < 0.3: op['peek'] = True
        op['tags'] = ['suppress'] if op['suppress'] else []
        if self.rich:
            from .langgen import jtxt
            op['tags'] = r.choice([[], [], ['suppress'], ['a', 'b'], ['hidden', 'suppress']])
            op['suppress'] = 'suppress' in op['tags']
            op['ttc'] = jtxt(r.choice([None, {'type': 'function', 'name': 'Exponential', 'arguments': [0.1]},
                                       {'type': 'function', 'name': 'Exponential', 'arguments': [1e-05]},      # json writes 1e-05: no dot
                                       {'type': 'function', 'name': 'Enabled', 'arguments': []}, {}]))      # ({}: falsy, but not None)
            if t == 'defense':
                op['defense'] = repr(r.choice([0.0, 1.0, 0.5, 0.25, 1e-05])); op['defOne'] = op['defense'] == '1.0'
                if self.bare_defenses and r.random() < 0.2:
                    # a defense whose status was never set (a hand-written file may leave it out): None is a value of its own
                    del op['defense']; op['bare'] = True; op['defOne'] = False
            if t in ('exist', 'notExist'): op['exist'] = r.random() < 0.5
            if r.random() < 0.3: op['mitre'] = 'T1' + str(r.randint(100, 999))
            if r.random() < 0.3: op['extras'] = jtxt({'pos': [r.randint(0, 9), r.randint(0, 9)], 'note': 'x', **({'w': 2.5e-07} if r.random() < 0.3 else {}), **({'2024': 'audited', 'slots': {'7': 1}} if r.random() < 0.25 else {}),
                                                              # free-form metadata may use the words the node's own attributes use
                                                              **({r.choice(['name', 'type', 'id', 'full_name', 'is_viable', 'ttc', 'asset', 'children']): r.choice(['other', 7, False])} if r.random() < 0.3 else {})})
        self.snames = getattr(self, 'snames', {}); self.assets_of = getattr(self, 'assets_of', {})
        self.ops.append(op)
        if eff in {self.ids[x] for x in self.live_n}:
            return None     # rejected: no allocation
        ref = self.nrefs; self.nrefs += 1
        self.ids[ref] = eff; self.next_n = max(eff + 1, self.next_n)
        self.names[ref] = (asset + ':' + name) if asset else f'{eff}:{name}'
        self.live_n.append(ref); self.used_ids.add(eff)
        self.types[ref] = t; self.labels[ref] = (op['viable'], op['necessary'])
        self.snames[ref] = name; self.assets_of[ref] = asset
        self.extras_of = getattr(self, 'extras_of', {}); self.ttc_of = getattr(self, 'ttc_of', {})
        self.extras_of[ref] = op.get('extras', '{}'); self.ttc_of[ref] = op.get('ttc', 'null')
        return ref

    def gen(self, length):
        r = self.r
        kinds, wts = zip(*self.w.items())
        if not self.ops:
            for _ in range(self.r.randint(2, 4)):
                self.add_node()
        while len(self.ops) < length:
            k = r.choices(kinds, wts)[0]
            if k == 'add_node':
                if len(self.live_n) < self.nmax: self.add_node()
            elif k == 'add_node_dup':
                self.add_node(dup=True)
            elif k == 'link' and self.live_n:
                p, c = r.choice(self.live_n), r.choice(self.live_n)
                self.ops.append({'k': 'link', 'p': p, 'c': c})
            elif k == 'remove_node' and self.live_n:
                n = r.choice(self.live_n); self.live_n.remove(n); self.dead_n.append(n)
                for s in self.reached.values(): s.discard(n)
                self.ops.append({'k': 'remove_node', 'n': n})
            elif k == 'add_attacker':
                aid = None
                dup = False
                if r.random() < 0.3:
                    aid = r.choice([0, self.next_a + r.randint(0, 2), r.randint(0, 5)])
                eff = aid if aid is not None else self.next_a
                live_ids = [self.ids[x] for x in self.live_n]
                reached = r.sample(self.live_n, min(len(self.live_n), r.randint(0, 3)))
                entry = r.sample(self.live_n, min(len(self.live_n), r.randint(0, 2)))
                # names: duplicates, names that look like the keys the file format derives for duplicates ('att:<id>'),
                # a control character that YAML treats as a line break
                aname = r.choice(['att', 'att', 'att', f'att{self.arefs}', f'att:{r.randint(0, 4)}', f'att:{self.next_a + 1}', 'at\x85t'])
                rids = [self.ids[x] for x in reached]
                eids = [self.ids[x] for x in entry]
                if rids and r.random() < 0.2: rids.append(r.choice(rids))      # the same id listed twice
                if eids and r.random() < 0.1: eids.append(r.choice(eids))
                self.ops.append({'k': 'add_attacker', 'name': aname, 'id': aid, 'entry': eids, 'reached': rids})
                if eff in {self.aids[x] for x in self.live_a}:
                    continue
                a = self.arefs; self.arefs += 1
                self.aids[a] = eff; self.next_a = max(eff + 1, self.next_a); self.used_aids.add(eff)
                self.live_a.append(a); self.reached[a] = set(reached); self.anames[a] = aname
            elif k == 'add_attacker_bad' and self.live_n:
                # MIXED valid / invalid node ids: an id that names no node of the graph (never used, or the id of a removed
                # node) AFTER one or more valid ones, among the reached steps and / or the entry points.  Always rejected;
                # nothing may have happened to the graph (the valid ids in front must not have been acted upon).
                live_ids = [self.ids[x] for x in self.live_n]
                bad_ids = [i for i in [self.ids[x] for x in self.dead_n if x in self.ids] + [self.next_n, self.next_n + 3, -1]
                           if i not in live_ids]
                valid = lambda lo, hi: [self.ids[x] for x in r.sample(self.live_n, min(len(self.live_n), r.randint(lo, hi)))]
                where = r.choice(['reached', 'entry', 'both'])
                rids, eids = valid(0, 3), valid(0, 2)
                if where in ('reached', 'both'):
                    rids = rids or valid(1, 2); rids.insert(r.randint(1, len(rids)), r.choice(bad_ids))
                if where in ('entry', 'both'):
                    eids = eids or valid(1, 2); eids.insert(r.randint(1, len(eids)), r.choice(bad_ids))
                aid = r.choice([None, None, self.next_a + r.randint(0, 2)])
                self.ops.append({'k': 'add_attacker', 'name': f'bad{self.arefs}', 'id': aid, 'entry': eids, 'reached': rids,
                                 'case': 'unknown-id-after-valid-ids:' + where})
            elif k == 'add_attacker_used_id' and self.live_n and self.live_a:
                # an id that is in use while there ARE reached steps: rejected before anything is compromised
                reached = r.sample(self.live_n, min(len(self.live_n), r.randint(1, 3)))
                self.ops.append({'k': 'add_attacker', 'name': f'dup{self.arefs}', 'id': self.aids[r.choice(self.live_a)],
                                 'entry': [self.ids[x] for x in reached[:1]], 'reached': [self.ids[x] for x in reached],
                                 'case': 'id-in-use-with-reached-steps'})
            elif k == 'add_attacker_again' and self.live_a:
                # an attacker object that is already part of the graph: same id, another id, no id
                a = r.choice(self.live_a)
                how = r.choice(['same-id', 'other-id', 'no-id'])
                others = [self.aids[x] for x in self.live_a if x != a]
                aid = {'same-id': self.aids[a], 'no-id': None,
                       'other-id': r.choice(others + [self.next_a + r.randint(0, 2)] * 2)}[how]
                reached = r.sample(self.live_n, min(len(self.live_n), r.randint(0, 2)))
                entry = r.sample(self.live_n, min(len(self.live_n), r.randint(0, 1)))
                self.ops.append({'k': 'add_attacker_again', 'a': a, 'id': aid, 'entry': [self.ids[x] for x in entry],
                                 'reached': [self.ids[x] for x in reached], 'case': 'attacker-object-again:' + how})
            elif k == 'add_node_again' and self.live_n:
                n = r.choice(self.live_n)
                how = r.choice(['same-id', 'other-id', 'no-id'])
                others = [self.ids[x] for x in self.live_n if x != n]
                nid = {'same-id': self.ids[n], 'no-id': None,
                       'other-id': r.choice(others + [self.next_n + r.randint(0, 2)] * 2)}[how]
                self.ops.append({'k': 'add_node_again', 'n': n, 'id': nid, 'case': 'node-object-again:' + how})
            elif k == 'remove_attacker' and self.live_a:
                a = r.choice(self.live_a); self.live_a.remove(a); self.dead_a.append(a)
                self.ops.append({'k': 'remove_attacker', 'a': a})
            elif k in ('compromise', 'undo') and self.live_a and self.live_n:
                a, n = r.choice(self.live_a), r.choice(self.live_n)
                if k == 'undo' and self.reached[a] and r.random() < 0.7:
                    n = r.choice(sorted(self.reached[a]))
                (self.reached[a].add if k == 'compromise' else self.reached[a].discard)(n)
                self.ops.append({'k': k, 'a': a, 'n': n, 'side': r.choice(['attacker', 'node'])})
            elif k == 'attach':
                atts = []
                for i in range(r.randint(1, 2)):
                    cands = [self.names[x] for x in self.live_n if ':' in self.names[x] and not self.names[x][0].isdigit()]
                    eps = r.sample(cands, min(len(cands), r.randint(0, 3)))
                    # entry points that name no node of the graph (unknown step, or a step whose node was removed /
                    # pruned) are skipped by attach_attackers; they may stand anywhere in an asset's list of steps
                    if r.random() < 0.3: eps.insert(r.randint(0, len(eps)), 'A:nosuchstep')
                    if eps and r.random() < 0.3:
                        eps.insert(r.randint(0, len(eps) - 1), r.choice(eps).rsplit(':', 1)[0] + ':nosuchstep')
                    gone = [self.names[x] for x in self.dead_n if ':' in self.names.get(x, '') and not self.names[x][0].isdigit()
                            and self.names[x] not in cands]
                    if gone and r.random() < 0.4: eps.insert(r.randint(0, len(eps)), r.choice(gone))
                    atts.append([f'm{i}', eps])
                self.ops.append({'k': 'attach', 'atts': atts})
                for nm, eps in atts:
                    a = self.arefs; self.arefs += 1
                    self.aids[a] = self.next_a; self.used_aids.add(self.next_a); self.next_a += 1
                    self.live_a.append(a); self.anames[a] = nm
                    inv = {v: k2 for k2, v in self.names.items() if k2 in self.live_n}
                    self.reached[a] = {inv[e] for e in eps if e in inv}
            elif k == 'set_labels' and self.live_n:
                ns = r.sample(self.live_n, min(len(self.live_n), r.randint(1, 4)))
                labs = [[n, r.random() < 0.5, r.random() < 0.6] for n in ns]
                for n, v, nc in labs: self.labels[n] = (v, nc)
                self.ops.append({'k': 'set_labels', 'labels': labs})
            elif k == 'prune':
                self.ops.append({'k': 'prune'})
                for n in list(self.live_n):
                    if self.types[n] in ('or', 'and') and not (self.labels[n][0] and self.labels[n][1]):
                        self.live_n.remove(n); self.dead_n.append(n)
                        for st in self.reached.values(): st.discard(n)
            elif k == 'trav' and self.live_a and self.live_n:
                self.ops.append({'k': 'trav', 'a': r.choice(self.live_a), 'n': r.choice(self.live_n)})
            elif k == 'surface' and self.live_a:
                self.ops.append({'k': 'surface', 'a': r.choice(self.live_a)})
            elif k == 'defense_surface':
                self.ops.append({'k': r.choice(['defense_surface', 'enabled_defenses'])})
            elif k == 'touch' and self.live_n:
                from .langgen import jtxt
                n = r.choice(self.live_n)
                fld = r.choice(['tags', 'extras', 'ttc'])
                if fld == 'ttc' and self.ttc_of.get(n, 'null') == 'null': fld = 'tags'
                op = {'k': 'touch', 'n': n, 'field': fld}
                if fld != 'tags':
                    tab = self.extras_of if fld == 'extras' else self.ttc_of
                    d = json.loads(tab[n]); d['touched'] = 1; tab[n] = jtxt(d); op['new'] = tab[n]
                self.ops.append(op)
            elif k == 'save_load' and not self.copied:
                with_model = r.random() < 0.5
                self.ops.append({'k': 'save_load', 'fmt': r.choice(['json', 'yaml']), 'ext': r.choice(['yml', 'yaml']), 'withModel': with_model})
                order_n, order_a = list(self.live_n), list(self.live_a)
                if self.ops[-1]['fmt'] != 'json':
                    # PyYAML writes mappings with sorted keys: the loaded graph lists nodes by full name, attackers by key
                    order_n = sorted(self.live_n, key=lambda x: self.names[x])
                    keys, taken = {}, set()
                    for a in self.live_a:
                        k2 = self.anames[a]
                        while k2 in taken: k2 = f'{k2}:{self.aids[a]}'
                        taken.add(k2); keys[a] = k2
                    order_a = sorted(self.live_a, key=lambda a: keys[a])
                self.live_n, self.live_a = order_n, order_a
                self.renumber({old: i for i, old in enumerate(order_n)}, {old: j for j, old in enumerate(order_a)})
                self.nrefs, self.arefs = len(self.live_n), len(self.live_a)
                self.next_n = max([self.ids[x] for x in self.live_n] + [-1]) + 1
                self.next_a = max([self.aids[x] for x in self.live_a] + [-1]) + 1
                for x in self.live_n:
                    if not with_model or self.assets_of[x] is None:
                        self.assets_of[x] = None; self.names[x] = f'{self.ids[x]}:{self.snames[x]}'
            elif k == 'deepcopy' and not self.copied:
                self.copied = True
                self.ops.append({'k': 'deepcopy'})
                self.saved = self.snapshot()
                self.renumber({old: self.nrefs + i for i, old in enumerate(self.live_n)},
                              {old: self.arefs + j for j, old in enumerate(self.live_a)})
                self.nrefs += len(self.live_n); self.arefs += len(self.live_a)
            elif k == 'switch' and self.copied:
                self.ops.append({'k': 'switch'})
                cur = self.snapshot(); self.restore(self.saved); self.saved = cur
            elif k == 'lookup':
                self.ops.append(self.lookup_op())
        self.ops.append(self.lookup_op())
        return self.ops

    PER_NODE = ('ids', 'names', 'types', 'labels', 'snames', 'assets_of', 'extras_of', 'ttc_of')
    def snapshot(self):
        import copy as _c
        return _c.deepcopy({k: getattr(self, k) for k in ('live_n', 'dead_n', 'live_a', 'dead_a', 'next_n', 'next_a', 'reached', 'aids', 'anames') + self.PER_NODE})
    def restore(self, snap):
        # node / attacker tables are per reference: merge (references of both graphs stay valid)
        for k in ('live_n', 'dead_n', 'live_a', 'dead_a', 'next_n', 'next_a'): setattr(self, k, snap[k])
        for k in self.PER_NODE + ('reached', 'aids', 'anames'): getattr(self, k).update(snap[k])
    def renumber(self, nmap, amap):
        for k in self.PER_NODE:
            d = getattr(self, k)
            snap = dict(d)
            for old, new in nmap.items():
                if old in snap: d[new] = snap[old]
        a_snap, r_snap, n_snap = dict(self.aids), dict(self.reached), dict(self.anames)
        for old, new in amap.items():
            self.aids[new] = a_snap[old]; self.anames[new] = n_snap.get(old, '')
            self.reached[new] = {nmap[x] for x in r_snap.get(old, set()) if x in nmap}
        self.live_n = [nmap[x] for x in self.live_n]; self.dead_n = []
        self.live_a = [amap[x] for x in self.live_a]; self.dead_a = []

    def lookup_op(self):
        ids = sorted(self.used_ids | {-1, self.next_n, self.next_n + 1})
        live = set(self.names.values())
        # near misses of live names (padded, other case, cut, extended): a lookup answers for exactly the name asked
        near = {f(n) for n in sorted(live)[:4] for f in (lambda x: ' ' + x, lambda x: x + ' ', str.lower, str.upper, lambda x: x[:-1],
                                                          lambda x: x + 'x', lambda x: x.replace(':', ': '), lambda x: x + '\n')}
        names = sorted(live | near | {'A:nosuch', 'zz', ''})
        return {'k': 'lookup', 'ids': ids, 'names': names, 'aids': sorted(self.used_aids | {-1, self.next_a})}

def run_pair(ops):
    """run one history on the real code; returns per-step results"""
    im = Impl()
    return [im.step(op) for op in ops], im
