"""MAL source text: pretty-printer (minimal parentheses), noisy re-formatter, splitting over included files,
token-level mutants, and the grammar's own verdict (ANTLR with counting listeners)."""
from __future__ import annotations
import json, os, random, re

def q(s): return '"' + s + '"'
def meta(m): return ' '.join(f'{k} info: {q(v)}' for k, v in m.items())
PREC = {'union': 1, 'intersection': 1, 'difference': 1, 'collect': 2}
OPS = {'union': '\\/', 'intersection': '/\\', 'difference': '-'}

def ex(e, ctx=0, right=False, noise=None):
    t = e['type']
    if t in ('field', 'attackStep'): s = e['name']; p = 9
    elif t == 'variable': s = e['name'] + '()'; p = 9
    elif t in OPS or t == 'collect':
        p = PREC[t]
        l = ex(e['lhs'], p, False, noise); r = ex(e['rhs'], p, True, noise)
        s = f'{l}.{r}' if t == 'collect' else f'{l} {OPS[t]} {r}'
        if p < ctx or (p == ctx and right): return '(' + s + ')'
    elif t == 'transitive':
        inner = e['stepExpression']; s = ex(inner, 3, False, noise)
        if inner['type'] in ('transitive', 'subType'): s = '(' + s + ')'
        s += '*'; p = 9
    elif t == 'subType':
        s = ex(e['stepExpression'], 3, False, noise) + '[' + e['subType'] + ']'; p = 9
    else: raise ValueError(t)
    if noise and noise.random() < 0.15 and t in OPS or (noise and noise.random() < 0.08 and t == 'collect'):
        return '(' + s + ')'           # a redundant parenthesis around a complete sub-expression
    return s

def num(v):
    s = repr(float(v)); assert 'e' not in s and 'inf' not in s and 'nan' not in s, s
    return s
TP = {'addition': ('+', 1), 'subtraction': ('-', 1), 'multiplication': ('*', 2), 'division': ('/', 2), 'exponentiation': ('^', 3)}
def ttc(t, ctx=0, right=False):
    k = t['type']
    if k == 'function': return t['name'] + ('(' + ', '.join(num(a) for a in t['arguments']) + ')' if t['arguments'] else '')
    if k == 'number': return num(t['value'])
    op, p = TP[k]
    if k == 'exponentiation':          # ttcfact: ttcatom (POWER ttcatom)? — both operands are atoms
        s = f"{ttc(t['lhs'], 4, False)} ^ {ttc(t['rhs'], 4, False)}"
    else:
        s = f"{ttc(t['lhs'], p, False)} {op} {ttc(t['rhs'], p, True)}"
    if p < ctx or (p == ctx and right) or (ctx == 4): s = '(' + s + ')'
    return s
ST = {'or': '|', 'and': '&', 'defense': '#', 'exist': 'E', 'notExist': '!E'}
def mult(m, rnd=None):
    lo, hi = m['min'], m['max']
    if hi is None:
        if lo == 0: return '*' if not rnd or rnd.random() < 0.6 else '0..*'
        return f'{lo}..*'
    if lo == hi: return str(lo) if not rnd or rnd.random() < 0.6 else f'{lo}..{hi}'
    return f'{lo}..{hi}'

def step_line(s, noise=None):
    line = f"    {ST[s['type']]} {s['name']}"
    for t in s['tags']: line += f' @{t}'
    if s['risk']:
        cia = [x for x, kk in (('C', 'isConfidentiality'), ('I', 'isIntegrity'), ('A', 'isAvailability')) if s['risk'][kk]]
        line += ' {' + ', '.join(cia) + '}'
    if s['ttc']: line += ' [' + ttc(s['ttc']) + ']'
    if s['meta']: line += ' ' + meta(s['meta'])
    if s['requires']: line += ' <- ' + ', '.join(ex(e, noise=noise) for e in s['requires']['stepExpressions'])
    if s['reaches']: line += (' -> ' if s['reaches']['overrides'] else ' +> ') + ', '.join(ex(e, noise=noise) for e in s['reaches']['stepExpressions'])
    return line

def blocks(spec, noise=None, rnd=None):
    """the declarations of a specification, in order, as separate source blocks"""
    out = []
    for k, v in spec['defines'].items(): out.append(f'#{k}: {q(v)}')
    for c in spec['categories']:
        b = [f"category {c['name']} {meta(c['meta'])} {{"]
        for a in spec['assets']:
            if a['category'] != c['name']: continue
            b.append(f"  {'abstract ' if a['isAbstract'] else ''}asset {a['name']}{' extends ' + a['superAsset'] if a['superAsset'] else ''} {meta(a['meta'])} {{")
            # variables and steps may be interleaved in the source; the specification lists them separately
            items = [('v', v) for v in a['variables']] + [('s', s) for s in a['attackSteps']]
            for kind, it in items:
                b.append(f"    let {it['name']} = {ex(it['stepExpression'], noise=noise)}" if kind == 'v' else step_line(it, noise))
            b.append('  }')
        b.append('}')
        out.append('\n'.join(b))
    if spec['associations']:
        b = ['associations {']
        for a in spec['associations']:
            b.append(f"  {a['leftAsset']} [{a['leftField']}] {mult(a['leftMultiplicity'], rnd)} <-- {a['name']} --> {mult(a['rightMultiplicity'], rnd)} [{a['rightField']}] {a['rightAsset']} {meta(a['meta'])}")
        b.append('}')
        out.append('\n'.join(b))
    return out

def pr(spec): return '\n'.join(blocks(spec)) + '\n'

TOKEN_RE = re.compile(r'"[^"]*"|//[^\n]*|/\*.*?\*/|<--|-->|<-|->|\+>|/\\|\\/|\.\.|!E|[0-9]*\.[0-9]+|[A-Za-z0-9_]+|\S', re.S)
def tokens_of(text): return TOKEN_RE.findall(text)

def glue_ok(a, b):
    """may the two lexemes be written without a blank between them?"""
    if re.match(r'[A-Za-z0-9_.]', a[-1]) and re.match(r'[A-Za-z0-9_.]', b[0]): return False
    if a + b in ('--', '->', '<-', '+>', '//', '/*', '/\\', '\\/', '..', '!E') or (a[-1] + b[0]) in ('--', '->', '<-', '+>', '//', '/*', '/\\', '\\/', '..', '!E', '-<', '>-'): return False
    if a[-1] in '<-+/\\.!*' or b[0] in '<->/\\.*E': return False
    return True

def reformat(text, rnd):
    """same token sequence, different layout: odd spacing, newlines, comments"""
    toks = tokens_of(text)
    out = []
    for i, t in enumerate(toks):
        out.append(t)
        if i + 1 < len(toks):
            k = rnd.random()
            if k < 0.1 and glue_ok(t, toks[i + 1]): sep = ''
            elif k < 0.6: sep = ' '
            elif k < 0.7: sep = '\n\t'
            elif k < 0.8: sep = '  \r\n'
            elif k < 0.9: sep = ' /* c*mment " */ '
            else: sep = ' // line comment -> x.y\n'
            out.append(sep)
    return ''.join(out) + '\n'

def split_files(blks, rnd, order_preserving=True):
    """distribute declarations over a root file and included files; returns {name: text}, root name"""
    n = rnd.randint(1, 3)
    names = [f'inc{i}.mal' for i in range(n)]
    files = {nm: [] for nm in names}
    root = []
    if order_preserving:
        cuts = sorted(rnd.sample(range(len(blks) + 1), min(n, len(blks) + 1)))
        prev = 0
        for nm, c in zip(names, cuts + [len(blks)] * n):
            files[nm] = blks[prev:c]; root.append(f'include "{nm}"'); prev = c
        root += blks[prev:]
    else:
        for b in blks:
            tgt = rnd.choice(names + ['root'])
            (root if tgt == 'root' else files[tgt]).append(b)
        pos = [rnd.randint(0, len(root)) for _ in names]
        for nm, p in sorted(zip(names, pos), key=lambda x: -x[1]): root.insert(p, f'include "{nm}"')
    if rnd.random() < 0.4 and names:      # a repeated include must not change anything
        root.append(f'include "{rnd.choice(names)}"')
    out = {nm: '\n'.join(b) + '\n' for nm, b in files.items()}
    out['root.mal'] = '\n'.join(root) + '\n'
    # an included file must itself be a valid MAL file: empty is fine (mal: declaration+ | EOF)
    return out, 'root.mal'

RESERVED = ['E', 'C', 'I', 'A', 'asset', 'let', 'info', 'extends', 'category', 'abstract', 'include', 'associations']
def mutate(text, rnd):
    toks = [t for t in tokens_of(text) if not t.startswith('//') and not t.startswith('/*')]
    if len(toks) < 3: return text
    k = rnd.choice(['delete', 'insert', 'dup', 'truncate', 'swap', 'reserved', 'garbage'])
    i = rnd.randrange(len(toks))
    if k == 'delete': del toks[i]
    elif k == 'insert': toks.insert(i, rnd.choice(['*', ')', '(', '{', '}', ',', '.', '->', 'x', '[', ']', '<-', '\\/', '"s"', '3', '..', '&', '|']))
    elif k == 'dup': toks.insert(i, toks[i])
    elif k == 'truncate': toks = toks[:max(1, i)]
    elif k == 'swap':
        pairs = {'(': ')', ')': '(', '{': '}', '}': '{', '[': ']', ']': '['}
        idx = [j for j, t in enumerate(toks) if t in pairs]
        if idx: j = rnd.choice(idx); toks[j] = pairs[toks[j]]
    elif k == 'reserved':
        idx = [j for j, t in enumerate(toks) if re.fullmatch(r'[A-Za-z_][A-Za-z0-9_]*', t) and t not in RESERVED]
        if idx: toks[rnd.choice(idx)] = rnd.choice(RESERVED)
    else:
        toks.insert(i, rnd.choice(['$', '?', '~', '"unterminated', '%']))
    return ' '.join(toks) + '\n'

def antlr_errors(path):
    """the grammar's own verdict: (number of lexer + parser errors reported to counting listeners by the unmodified
    generated parser, the files it includes, trailing) — `trailing`: the start rule `mal: declaration+ | EOF` returned
    without an error but the next token of the stream is not EOF (the rule has no EOF after the declarations, so the
    parser stops silently at the first token that cannot start a declaration; text behind that token is not even
    lexed).  The file conforms to the grammar as a whole iff errors == 0 and not trailing."""
    from antlr4 import FileStream, CommonTokenStream, Token
    from antlr4.error.ErrorListener import ErrorListener
    from maltoolbox.language.compiler.mal_lexer import malLexer
    from maltoolbox.language.compiler.mal_parser import malParser
    class Count(ErrorListener):
        def __init__(self): super().__init__(); self.n = 0
        def syntaxError(self, *a): self.n += 1
    c = Count()
    lx = malLexer(FileStream(path, encoding='utf-8')); lx.removeErrorListeners(); lx.addErrorListener(c)
    stream = CommonTokenStream(lx)
    ps = malParser(stream); ps.removeErrorListeners(); ps.addErrorListener(c)
    tree = ps.mal()
    n = c.n
    trailing = n == 0 and stream.LA(1) != Token.EOF
    includes = [d.getChild(0).STRING().getText().strip('"') for d in tree.declaration() if d.getChild(0).getRuleIndex() == malParser.RULE_include] if n == 0 else []
    return n, includes, trailing

# ---- trailing input: the defect class repaired by e0054c2 (start rule without EOF) -------------------------------
STARTERS = {'include', '#', 'category', 'associations'}
LEGAL = ['*', ')', '(', '{', '}', ',', '.', '->', '+>', '<-', '<--', '-->', 'x', 'Asset1', '[', ']', '\\/', '/\\', '-', '+', '/', '^',
         '"s"', '3', '0.5', '..', '&', '|', '!E', 'E', 'C', 'I', 'A', '@', '=', ':', 'let', 'asset', 'abstract', 'extends', 'info',
         'include', '#', 'category', 'associations']
MISSPELT = ['asociations', 'associaton', 'Associations', 'assocations', 'categry', 'Category', 'categories', 'includes', 'Include', 'define']
def trailing_input(text, rnd, kind=None):
    """a valid text followed by input that `parser.mal()` does not consume: returns (kind, mutated text).
    surplus: a surplus `}`;  misspelt: a misspelt top-level keyword with a (well-formed) block;  tokens: arbitrary legal
    tokens, the first of which cannot start a declaration;  lexerror: a lexical error behind a token at which the parser
    stops (the erroneous text is never fetched by the on-demand token stream)"""
    kind = kind or rnd.choice(['surplus', 'misspelt', 'tokens', 'lexerror'])
    body = text.rstrip('\n')
    sep = rnd.choice([' ', '\n', '\n\n', ' /* c */ ', '\n// comment\n'])
    if kind == 'surplus':
        tail = '}' + rnd.choice(['', '\n', ' }', '\n#extra: "value"', '\ncategory Later { }'])
    elif kind == 'misspelt':
        kw = rnd.choice(MISSPELT)
        blk = rnd.choice(['{ }', '{ Asset1 [a] * <-- L --> * [b] Asset1 }', 'Name { asset X { | s } }', '"file.mal"', 'k: "v"'])
        tail = f'{kw} {blk}' + rnd.choice(['', '\n', '\n#extra: "value"'])
    elif kind == 'tokens':
        first = rnd.choice([t for t in LEGAL if t not in STARTERS])
        tail = ' '.join([first] + [rnd.choice(LEGAL) for _ in range(rnd.randint(0, 6))])
    else:
        stop = rnd.choice(['"x" y', '}', 'x', ') (', '3', 'asociations {'])
        tail = stop + ' ' + rnd.choice(['"', '$', '~ z', '"unterminated', '%', '?', '!', '<', '\\'])
    return kind, body + sep + tail + rnd.choice(['', '\n'])

def real_tokens(path):
    from antlr4 import FileStream, Token
    from maltoolbox.language.compiler.mal_lexer import malLexer
    from antlr4.error.ErrorListener import ErrorListener
    class Count(ErrorListener):
        def __init__(self): super().__init__(); self.n = 0
        def syntaxError(self, *a): self.n += 1
    c = Count()
    lx = malLexer(FileStream(path, encoding='utf-8')); lx.removeErrorListeners(); lx.addErrorListener(c)
    out = []
    while True:
        t = lx.nextToken()
        if t.type == Token.EOF: break
        nm = malLexer.symbolicNames[t.type]
        out.append(f'{nm}:{t.text}' if nm in ('STRING', 'INT', 'FLOAT', 'ID') else nm)
    return out, c.n

def write_files(dirname, files):
    os.makedirs(dirname, exist_ok=True)
    for nm, txt in files.items():
        with open(os.path.join(dirname, nm), 'w', encoding='utf-8') as fh: fh.write(txt)

def canon_spec(spec):
    """numbers as floats, everything else as is"""
    def walk(x):
        if isinstance(x, dict):
            if x.get('type') == 'number': return {'type': 'number', 'value': float(x['value'])}
            if x.get('type') == 'function': return {'type': 'function', 'name': x['name'], 'arguments': [float(a) for a in x['arguments']]}
            return {k: walk(v) for k, v in x.items()}
        if isinstance(x, list): return [walk(v) for v in x]
        return x
    return walk(spec)
