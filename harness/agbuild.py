"""Build real `AttackGraph` objects from abstract graph payloads (no language,
no model): used by C08, C09, C11, C12, C13."""
from __future__ import annotations

_EXP = {'type': 'function', 'name': 'Exponential', 'arguments': [0.1]}
_NUM = {'type': 'number', 'value': 2.0}
TTC_KINDS = {
    'none': None,
    'empty': {},
    'enabled': {'type': 'function', 'name': 'Enabled', 'arguments': []},
    'disabled': {'type': 'function', 'name': 'Disabled', 'arguments': []},
    'dist': _EXP,
    'bernoulli': {'type': 'function', 'name': 'Bernoulli', 'arguments': [0.5]},
    # composite TTC expressions and plain numbers have no 'name' key
    'composite': {'type': 'addition', 'lhs': _EXP, 'rhs': _NUM},
    'subtraction': {'type': 'subtraction', 'lhs': _EXP, 'rhs': _NUM},
    'multiplication': {'type': 'multiplication', 'lhs': {'type': 'function', 'name': 'Bernoulli', 'arguments': [0.5]}, 'rhs': _EXP},
    'division': {'type': 'division', 'lhs': _EXP, 'rhs': _NUM},
    'exponentiation': {'type': 'exponentiation', 'lhs': _NUM, 'rhs': _NUM},
    # a sum whose operands are the pseudo-distributions is still a composite
    'composite_enabled': {'type': 'addition', 'lhs': {'type': 'function', 'name': 'Enabled', 'arguments': []},
                          'rhs': {'type': 'function', 'name': 'Disabled', 'arguments': []}},
    'number': _NUM,
}
# kinds that are / are not a probability distribution, for generators that want one of each
DIST_KINDS = ('dist', 'bernoulli', 'composite', 'subtraction', 'multiplication', 'division', 'exponentiation',
              'composite_enabled', 'number')
PLAIN_KINDS = ('none', 'empty', 'enabled', 'disabled')

def gate_of(ttc_kind: str) -> bool:
    """the property's "a parent whose TTC is a probability distribution": a non-empty TTC that is not one of the
    pseudo-distributions Enabled / Disabled (written independently of `_has_ttc_distribution`)"""
    t = TTC_KINDS[ttc_kind]
    if t is None or len(t) == 0:
        return False
    return not (t.get('type') == 'function' and t.get('name') in ('Enabled', 'Disabled'))

def ttc_fields(ttc_kind: str) -> dict:
    """what the Lean model is given of a TTC (Model/AGraph.lean: ANode.ttcSet / ttcName): its truthiness and the
    value under 'name' if there is one"""
    t = TTC_KINDS[ttc_kind]
    out = {'ttcSet': bool(t)}
    if t and 'name' in t:
        out['ttcName'] = t['name'] if isinstance(t['name'], str) else '<non-string>'
    return out

def opposite_kind(ttc_kind: str, k: int = 0) -> str:
    """a TTC of the other sort (distribution <-> none / pseudo-distribution), to construct a node with before the
    intended TTC is assigned"""
    return PLAIN_KINDS[k % len(PLAIN_KINDS)] if gate_of(ttc_kind) else DIST_KINDS[k % len(DIST_KINDS)]

def build_graph(nodes: list[dict]):
    """nodes: storage order; each {type, ttc, def (float|None), exist (bool|None),
    children [idx], parents [idx], viable?, necessary?, tags?, ttc0?}.
    `ttc0`: the node object is constructed with that TTC kind and the intended `ttc` is assigned to the public
    field afterwards (an implementation must read the field when it analyses, not a copy made at construction)."""
    import copy
    from maltoolbox.attackgraph import AttackGraph, AttackGraphNode
    g = AttackGraph()
    objs = []
    for i, n in enumerate(nodes):
        o = AttackGraphNode(type=n['type'], name=n.get('name', f's{i}'),
                            ttc=copy.deepcopy(TTC_KINDS[n.get('ttc0', n.get('ttc', 'none'))]))
        if 'ttc0' in n:
            o.ttc = copy.deepcopy(TTC_KINDS[n.get('ttc', 'none')])
        o.defense_status = n.get('def')
        o.existence_status = n.get('exist')
        if 'viable' in n: o.is_viable = n['viable']
        if 'necessary' in n: o.is_necessary = n['necessary']
        if 'tags' in n: o.tags = list(n['tags'])
        g.add_node(o)
        objs.append(o)
    for i, n in enumerate(nodes):
        objs[i].children = [objs[j] for j in n['children']]
        objs[i].parents = [objs[j] for j in n['parents']]
    return g, objs
