"""Build real `AttackGraph` objects from abstract graph payloads (no language,
no model): used by C08, C09, C11, C12, C13."""
from __future__ import annotations

TTC_KINDS = {
    'none': None,
    'enabled': {'type': 'function', 'name': 'Enabled', 'arguments': []},
    'disabled': {'type': 'function', 'name': 'Disabled', 'arguments': []},
    'dist': {'type': 'function', 'name': 'Exponential', 'arguments': [0.1]},
    'composite': {'type': 'addition',
                  'lhs': {'type': 'function', 'name': 'Exponential', 'arguments': [0.1]},
                  'rhs': {'type': 'number', 'value': 2.0}},
}

def gate_of(ttc_kind: str) -> bool:
    """what `propagate_necessity_from_node` tests: ttc has a 'name' other than Enabled/Disabled"""
    t = TTC_KINDS[ttc_kind]
    return bool(t) and 'name' in t and t['name'] not in ('Enabled', 'Disabled')

def build_graph(nodes: list[dict]):
    """nodes: storage order; each {type, ttc, def (float|None), exist (bool|None),
    children [idx], parents [idx], viable?, necessary?, tags?}"""
    import copy
    from maltoolbox.attackgraph import AttackGraph, AttackGraphNode
    g = AttackGraph()
    objs = []
    for i, n in enumerate(nodes):
        o = AttackGraphNode(type=n['type'], name=n.get('name', f's{i}'), ttc=copy.deepcopy(TTC_KINDS[n.get('ttc', 'none')]))
        o.defense_status = n.get('def')
        o.existence_status = n.get('exist')
        if 'viable' in n: o.is_viable = n['viable']
        if 'necessary' in n: o.is_necessary = n['necessary']
        if 'tags' in n: o.tags = list(n['tags'])
        g.add_node(o)
        objs.append(o)
    for i, n in enumerate(nodes):
        objs[i].children = [objs[j] for j in n['children']]
        objs[i].parents = [objs[j] for j in n['parents']]
    return g, objs
