"""Second tie between model and code: the *translated* attack-graph core.

`translators/py2lean.py` turns the current source of node.py / attacker.py / query.py / attackgraph.py /
analyzers/apriori.py into Lean definitions (`lean/MalVerif/Py/Gen/*.lean`); `Py/Tie*.lean` prove that these
definitions coincide with the hand-written model under the abstraction of `Py/Abs.lean`, and `PropsGen/Cnn.lean`
restate the property theorems for the translated code.

On every run of a check of C08, C09, C11, C12, C13:
  * the translation is regenerated from /repo and compared with the committed files that `lake build` checked;
  * identical  -> the theorems hold of what the code says now (status `identical`);
  * different  -> the new translation and every module that depends on it are re-checked by Lean in a scratch
                  directory (nothing under lean/.lake is touched): status `reproved` if all proofs still go through,
                  `broken` (with the first error) otherwise; `untranslatable` if the source left the supported subset.
A broken / untranslatable tie is not a violation by itself: the caller escalates the search for a failing input
(more seeds of the correspondence run); see DESIGN.md §I.9 for what is reported when nothing is found.
"""
from __future__ import annotations
import os, subprocess, sys, shutil, time
from . import common

GEN_MODULES = ['Node', 'Attacker', 'NodeDelegates', 'Query', 'Graph', 'Apriori', 'Eval', 'Link']
# modules that depend on the generated code, in dependency order
CHAIN = ['MalVerif.Py.TieNode', 'MalVerif.Py.TieGraph', 'MalVerif.Py.TieApriori', 'MalVerif.Py.TieEval', 'MalVerif.Py.TieLink', 'MalVerif.PropsGen.C01',
         'MalVerif.PropsGen.C08', 'MalVerif.PropsGen.C09', 'MalVerif.PropsGen.C11', 'MalVerif.PropsGen.C12',
         'MalVerif.PropsGen.C13']
# which modules carry the claim of a property (its PropsGen file and what that imports)
NEEDS = {
    'C01': ['MalVerif.Py.TieEval', 'MalVerif.Py.TieLink', 'MalVerif.PropsGen.C01'],
    'C08': ['MalVerif.Py.TieApriori', 'MalVerif.PropsGen.C08'],
    'C09': ['MalVerif.Py.TieNode', 'MalVerif.Py.TieGraph', 'MalVerif.PropsGen.C09'],
    'C11': ['MalVerif.Py.TieNode', 'MalVerif.PropsGen.C11'],
    'C12': ['MalVerif.Py.TieNode', 'MalVerif.PropsGen.C12'],
    'C13': ['MalVerif.Py.TieNode', 'MalVerif.Py.TieGraph', 'MalVerif.PropsGen.C13'],
}
# python functions whose translation a property's theorems are about (for the evidence file)
SOURCES = {
    'C01': 'attackgraph.py: _process_step_expression (the methods it calls on lang_graph / model are parameters: EvalEnv) and the linking loop (second loop) of _generate_graph',
    'C08': 'analyzers/apriori.py: propagate_viability_from_node, propagate_necessity_from_node, _has_ttc_distribution, evaluate_viability, evaluate_necessity, evaluate_viability_and_necessity, calculate_viability_and_necessity',
    'C09': 'attackgraph.py: get_node_by_id, get_node_by_full_name, get_attacker_by_id, add_node, remove_node, add_attacker, remove_attacker; attacker.py: compromise, undo_compromise; node.py: full_name',
    'C11': 'attacker.py: compromise, undo_compromise; node.py: is_compromised, is_compromised_by, compromise, undo_compromise',
    'C12': 'query.py: is_node_traversable_by_attacker, get_attack_surface, update_attack_surface_add_nodes, get_defense_surface, get_enabled_defenses; node.py: is_available_defense, is_enabled_defense, is_compromised_by',
    'C13': 'analyzers/apriori.py: prune_unviable_and_unnecessary_nodes; attackgraph.py: remove_node; attacker.py: undo_compromise',
}
PIDS = set(NEEDS)

def _translate():
    sys.path.insert(0, os.path.join(common.VERIF, 'translators'))
    try:
        import py2lean
    finally:
        sys.path.pop(0)
    try:
        return py2lean.generate(common.REPO), None
    except py2lean.Unsupported as e:
        return None, str(e)
    except SyntaxError as e:
        return None, f'python syntax error: {e}'

def _mod_path(mod: str) -> str:
    return os.path.join(common.LEAN, *mod.split('.')) + '.lean'

def _compile(mod: str, src: str, out: str, lean_path: str, root: str | None = None, timeout=900):
    rel = os.path.join(out, *mod.split('.'))
    os.makedirs(os.path.dirname(rel), exist_ok=True)
    for ext in ('.olean', '.ilean'):          # never write through a link into lean/.lake
        if os.path.islink(rel + ext): os.remove(rel + ext)
    root = root or common.LEAN
    p = subprocess.run(['lean', f'--root={root}', '-o', rel + '.olean', '-i', rel + '.ilean', src], cwd=root,
                       env=dict(os.environ, LEAN_PATH=lean_path), capture_output=True, text=True, timeout=timeout)
    txt = p.stdout + p.stderr
    bad = p.returncode != 0 or "declaration uses 'sorry'" in txt or 'declaration uses `sorry`' in txt
    return (not bad), txt[-1500:]

def translator_tie(pid: str) -> dict:
    if pid not in PIDS:
        return {}
    t0 = time.time()
    res = {'sources': SOURCES[pid], 'translator': 'translators/py2lean.py', 'modules': NEEDS[pid]}
    gen, why = _translate()
    if gen is None:
        res.update(status='untranslatable', detail=why)
        return res
    gdir = os.path.join(common.LEAN, 'MalVerif', 'Py', 'Gen')
    changed = [m for m in GEN_MODULES
               if not os.path.exists(os.path.join(gdir, m + '.lean'))
               or open(os.path.join(gdir, m + '.lean'), encoding='utf-8').read() != gen[m]]
    res['generated_functions'] = sum(t.count('\ndef ') for t in gen.values())
    if not changed:
        res.update(status='identical', detail='regenerated translation is identical to the files checked by lake build',
                   wall_s=round(time.time() - t0, 2))
        return res
    # re-check in a scratch directory
    sc = os.path.join(common.scratch(), 'tie'); out = os.path.join(sc, 'out'); srcd = os.path.join(sc, 'src')
    shutil.rmtree(sc, ignore_errors=True); os.makedirs(out); os.makedirs(srcd)
    # Lean resolves a module through the first search-path entry that contains its top-level directory, so the
    # scratch output directory must be a complete overlay of the library: links to every compiled file of the
    # lake build, the re-compiled modules replace their links
    lib = os.path.join(common.LEAN, '.lake', 'build', 'lib', 'lean')
    for root_, _, files in os.walk(lib):
        rel = os.path.relpath(root_, lib)
        os.makedirs(os.path.join(out, rel), exist_ok=True)
        for f in files:
            if f.endswith(('.olean', '.ilean')) or '.olean.' in f:
                os.symlink(os.path.join(root_, f), os.path.join(out, rel, f))
    lean_path = out
    res['changed_modules'] = changed
    for m in GEN_MODULES:                     # all of them: later ones import earlier ones
        f = os.path.join(srcd, 'MalVerif', 'Py', 'Gen', m + '.lean')
        os.makedirs(os.path.dirname(f), exist_ok=True)
        open(f, 'w', encoding='utf-8').write(gen[m])
        ok, log = _compile(f'MalVerif.Py.Gen.{m}', f, out, lean_path, root=srcd)
        if not ok:
            res.update(status='broken', detail=f'generated module {m} does not compile: {log[-600:]}',
                       wall_s=round(time.time() - t0, 2))
            return res
    failed = None
    for mod in CHAIN:                          # every dependent must be rebuilt against the new translation
        ok, log = _compile(mod, _mod_path(mod), out, lean_path)
        if not ok:
            if mod in NEEDS[pid]:
                failed = (mod, log); break
            # a module this property does not need failed: later modules that import it cannot be checked either,
            # but none of them is needed by this property unless listed in NEEDS (which are checked before use)
            continue
    if failed:
        res.update(status='broken', detail=f'{failed[0]} no longer checks against the regenerated translation: {failed[1][-800:]}')
    else:
        res.update(status='reproved', detail='translation changed; all tie and property theorems re-checked against it')
    res['wall_s'] = round(time.time() - t0, 2)
    return res
