"""Second tie between model and code: the *translated* Python.

Each translator `translators/<name>.py` that defines a table `TIE` is a *domain*: it turns the current source of some
functions of /repo into Lean definitions (`generate(repo) -> {module: text}`, committed under `TIE['gen_dir']` and
checked by `lake build`); hand-written `Py/Tie*.lean` files prove that these definitions coincide with the
hand-written model under an abstraction, and `PropsGen/Cnn.lean` restate the property theorems for the translated
code.  `TIE` lists: `gen_dir` (relative to lean/), `gen_modules` (in import order), `chain` (the Lean modules that
depend on the generated code, in dependency order), `needs` (property -> the modules that carry its claim) and
`sources` (property -> the Python functions its theorems are about, for the evidence file).

On every run of a check of a property that some domain `needs`:
  * the translation is regenerated from /repo and compared with the committed files that `lake build` checked;
  * identical  -> the theorems hold of what the code says now (status `identical`);
  * different  -> the new translation and every module that (transitively) imports a changed module are re-checked
                  by Lean in a scratch overlay (nothing under lean/.lake is touched): status `reproved` if all proofs
                  the property needs still go through, `broken` (with the first error) otherwise; `untranslatable`
                  if the source left the supported subset.
A broken / untranslatable tie is not a violation by itself: the caller escalates the search for a failing input
(more seeds of the correspondence run); see DESIGN.md §I.9 for what is reported when nothing is found.
"""
from __future__ import annotations
import importlib, os, re, subprocess, sys, shutil, time
from . import common

TRANSLATORS = os.path.join(common.VERIF, 'translators')

def _load_domains():
    doms = []
    sys.path.insert(0, TRANSLATORS)
    try:
        for f in sorted(os.listdir(TRANSLATORS)):
            if not f.endswith('.py'): continue
            m = importlib.import_module(f[:-3])
            if hasattr(m, 'TIE') and hasattr(m, 'generate'):
                doms.append(m)
    finally:
        sys.path.pop(0)
    # py2lean (the attack-graph core) first: other domains may import its generated modules
    doms.sort(key=lambda m: (m.__name__ != 'py2lean', m.TIE.get('order', 50), m.__name__))
    return doms

DOMAINS = _load_domains()
PIDS = {p for d in DOMAINS for p in d.TIE['needs']}

def _gen_mod(dom, m):  # lean module name of a generated file
    return dom.TIE['gen_dir'].replace('/', '.') + '.' + m

def _translate(dom, modules=None):
    try:
        return (dom.generate(common.REPO, modules) if modules else dom.generate(common.REPO)), None
    except dom.Unsupported as e:
        return None, str(e)
    except SyntaxError as e:
        return None, f'python syntax error: {e}'
    except Exception as e:      # a translator bug on unexpected source is "cannot translate", never a crash of the check
        return None, f'translator failed: {type(e).__name__}: {e}'

def _mod_path(mod: str) -> str:
    return os.path.join(common.LEAN, *mod.split('.')) + '.lean'

def _imports(path: str) -> list[str]:
    try:
        src = open(path, encoding='utf-8').read()
    except OSError:
        return []
    return re.findall(r'^import\s+([\w\.]+)', src, re.M)

def _compile(mod: str, src: str, out: str, lean_path: str, root: str | None = None, timeout=1800):
    rel = os.path.join(out, *mod.split('.'))
    os.makedirs(os.path.dirname(rel), exist_ok=True)
    for ext in ('.olean', '.ilean'):          # never write through a link into lean/.lake
        if os.path.islink(rel + ext): os.remove(rel + ext)
    root = root or common.LEAN
    p = subprocess.run(['lean', f'--root={root}', '-o', rel + '.olean', '-i', rel + '.ilean', src], cwd=root,
                       env=dict(os.environ, LEAN_PATH=lean_path), capture_output=True, text=True, timeout=timeout)
    txt = p.stdout + p.stderr
    bad = p.returncode != 0 or "declaration uses 'sorry'" in txt or 'declaration uses `sorry`' in txt
    return (not bad), txt[-1500:]

def translator_tie(pid: str) -> dict:
    doms = [d for d in DOMAINS if pid in d.TIE['needs']]
    if not doms:
        return {}
    t0 = time.time()
    needs = [m for d in doms for m in d.TIE['needs'][pid]]
    res = {'sources': '; '.join(d.TIE['sources'][pid] for d in doms),
           'translator': ', '.join(f'translators/{d.__name__}.py' for d in doms), 'modules': needs}
    # regenerate every domain (a module this property needs may import generated code of another domain)
    gens, changed_mods, nfun = {}, [], 0
    for d in DOMAINS:
        gen, why = _translate(d)
        if gen is None and d in doms:
            # retry with only the generated modules this property's theorems rest on
            prefix = d.TIE['gen_dir'].replace('/', '.') + '.'
            used = sorted({i[len(prefix):] for n in needs for i in _closure_imports(n) if i.startswith(prefix)})
            if used:
                gen, why2 = _translate(d, used)
                if gen is not None:
                    res['note'] = f'{d.__name__}: only {sorted(gen)} could be translated ({why})'
        if gen is None:
            if d in doms:
                res.update(status='untranslatable', detail=f'{d.__name__}: {why}', wall_s=round(time.time() - t0, 2))
                return res
            continue                            # a domain this property does not use: its files stay as committed
        gens[d.__name__] = gen
        gdir = os.path.join(common.LEAN, d.TIE['gen_dir'])
        for m in d.TIE['gen_modules']:
            if m not in gen: continue
            f = os.path.join(gdir, m + '.lean')
            if not os.path.exists(f) or open(f, encoding='utf-8').read() != gen[m]:
                changed_mods.append((d, m))
        if d in doms: nfun += sum(t.count('\ndef ') for t in gen.values())
    res['generated_functions'] = nfun
    if not changed_mods:
        res.update(status='identical', detail='regenerated translation is identical to the files checked by lake build',
                   wall_s=round(time.time() - t0, 2))
        return res
    # which modules must be re-checked: everything that transitively imports a changed generated module
    changed = {_gen_mod(d, m) for d, m in changed_mods}
    res['changed_modules'] = sorted(changed)
    order = []          # (module, source path or None for generated, text)
    for d in DOMAINS:
        if d.__name__ in gens:
            for m in d.TIE['gen_modules']:
                if m in gens[d.__name__]: order.append((_gen_mod(d, m), None, gens[d.__name__][m], d))
    for d in DOMAINS:
        for mod in d.TIE['chain']: order.append((mod, _mod_path(mod), None, d))
    dirty = set(changed)
    srcd_cache = {}
    sc = os.path.join(common.scratch(), 'tie'); out = os.path.join(sc, 'out'); srcd = os.path.join(sc, 'src')
    shutil.rmtree(sc, ignore_errors=True); os.makedirs(out); os.makedirs(srcd)
    # Lean resolves a module through the first search-path entry that contains its top-level directory, so the
    # scratch output directory must be a complete overlay of the library: links to every compiled file of the
    # lake build, the re-compiled modules replace their links
    lib = os.path.join(common.LEAN, '.lake', 'build', 'lib', 'lean')
    for root_, _, files in os.walk(lib):
        rel = os.path.relpath(root_, lib)
        os.makedirs(os.path.join(out, rel), exist_ok=True)
        for f in files:
            if f.endswith(('.olean', '.ilean')) or '.olean.' in f:
                os.symlink(os.path.join(root_, f), os.path.join(out, rel, f))
    failed_mods = {}
    for mod, path, text, d in order:
        if text is not None:
            f = os.path.join(srcd, *mod.split('.')) + '.lean'
            os.makedirs(os.path.dirname(f), exist_ok=True)
            open(f, 'w', encoding='utf-8').write(text)
            imps = re.findall(r'^import\s+([\w\.]+)', text, re.M)
            if mod not in dirty and not (set(imps) & dirty): continue
            dirty.add(mod)
            if set(imps) & set(failed_mods):
                failed_mods[mod] = f'imports {sorted(set(imps) & set(failed_mods))[0]}, which no longer checks'
                continue
            ok, log = _compile(mod, f, out, out, root=srcd)
            if not ok:
                failed_mods[mod] = log
        else:
            imps = _imports(path)
            if not (set(imps) & dirty): continue
            dirty.add(mod)
            if set(imps) & set(failed_mods):
                failed_mods[mod] = f'imports {sorted(set(imps) & set(failed_mods))[0]}, which no longer checks'
                continue
            ok, log = _compile(mod, path, out, out)
            if not ok:
                failed_mods[mod] = log
    res['rechecked_modules'] = len(dirty)
    # the claim of this property rests on its `needs` (a failure below them has been propagated upwards)
    bad = [m for m in needs if m in failed_mods]
    if bad:
        first = bad[0]
        root_cause = first
        # name the first module in dependency order that failed by itself
        for mod, *_ in order:
            if mod in failed_mods and not failed_mods[mod].startswith('imports '):
                if mod == first or mod in _closure_imports(first): root_cause = mod; break
        res.update(status='broken', detail=f'{root_cause} no longer checks against the regenerated translation: '
                                           f'{failed_mods[root_cause][-800:]}')
    else:
        res.update(status='reproved', detail='translation changed; all tie and property theorems that depend on it '
                                             're-checked against it')
    res['wall_s'] = round(time.time() - t0, 2)
    return res

_closure_cache: dict[str, set] = {}
def _closure_imports(mod: str) -> set:
    """transitive MalVerif imports of a (committed) module"""
    if mod in _closure_cache: return _closure_cache[mod]
    _closure_cache[mod] = set()
    acc = set()
    for i in _imports(_mod_path(mod)):
        if i.startswith('MalVerif'):
            acc.add(i); acc |= _closure_imports(i)
    _closure_cache[mod] = acc
    return acc
