"""Running attack-graph generation on the real code and the Lean model;
Python reference semantics (oracle) for step expressions."""
from __future__ import annotations
import copy, json
from .langgen import build_lang, build_model, lang_payload, inst_payload, jtxt

ERRMAP = {'AttackGraphStepExpressionError': 'AttackGraphStepExpressionError', 'LookupError': 'LookupError',
          'LanguageGraphException': 'LanguageGraphException', 'RecursionError': 'Recursion', 'KeyError': 'KeyError'}

def churn_plan(spec, inst, rnd, member_p=0.4):
    """A superset of `inst` (extra members of existing links, extra links incl. self-links, an extra asset) together
    with the API calls that take the extras away again.  The model is built from the superset, an attack graph is
    generated once (whatever the code caches is filled), the extras are removed through the API — and the graph
    generated *then* must be the graph of `inst`."""
    from .langgen import assoc_class_name
    byname = {a['name']: a for a in spec['assets']}
    def anc(t):
        out = []
        while t: out.append(t); t = byname[t]['superAsset']
        return out
    big = copy.deepcopy(inst)
    plan = []
    decl = {}
    for a in spec['associations']: decl[(assoc_class_name(spec, a), a['leftField'], a['rightField'])] = a
    seen = {(l['cls'], x, y) for l in inst['links'] for x in l['left'] for y in l['right']}
    types = {a['id']: a['type'] for a in inst['assets']}
    for i, l in enumerate(big['links']):
        a = decl.get((l['cls'], l['lf'], l['rf']))
        if a is None or rnd.random() > member_p: continue
        side = rnd.choice(['left', 'right'])
        want, mx = (a['leftAsset'], a['leftMultiplicity']['max']) if side == 'left' else (a['rightAsset'], a['rightMultiplicity']['max'])
        other = l['right'] if side == 'left' else l['left']
        # (remove_asset_from_association takes the asset out of *both* fields: the extra member must be new to the link)
        cands = [x for x, t in types.items() if want in anc(t) and x not in l['left'] and x not in l['right']
                 and all(((l['cls'], x, o) if side == 'left' else (l['cls'], o, x)) not in seen for o in other)]
        if cands and (mx is None or len(l[side]) + 1 <= mx):
            x = rnd.choice(cands)
            l[side] = l[side] + [x]
            seen |= {(l['cls'], x, o) if side == 'left' else (l['cls'], o, x) for o in other}
            plan.append(('member', i, x))
    if spec['associations'] and rnd.random() < 0.6:
        a = rnd.choice(spec['associations'])
        cls = assoc_class_name(spec, a)
        L = [x for x, t in types.items() if a['leftAsset'] in anc(t)]
        R = [x for x, t in types.items() if a['rightAsset'] in anc(t)]
        both = [x for x in L if x in R]
        if L and R and 0 not in (a['leftMultiplicity']['max'], a['rightMultiplicity']['max']):
            x = rnd.choice(both) if both and rnd.random() < 0.5 else rnd.choice(L)
            y = x if x in R and rnd.random() < 0.5 else rnd.choice(R)
            if (cls, x, y) not in seen:
                big['links'].append({'cls': cls, 'lf': a['leftField'], 'rf': a['rightField'], 'left': [x], 'right': [y]})
                seen.add((cls, x, y))
                plan.append(('link', len(big['links']) - 1, None))
    concrete = [a['name'] for a in spec['assets'] if not a['isAbstract']]
    if concrete and rnd.random() < 0.4:
        nid = max([a['id'] for a in inst['assets']] + [0]) + 7
        t = rnd.choice(concrete)
        big['assets'].append({'id': nid, 'name': f'churn{nid}', 'type': t, 'defenses': {}})
        for a in spec['associations']:
            if a['leftAsset'] in anc(t) and rnd.random() < 0.5 and 0 not in (a['leftMultiplicity']['max'], a['rightMultiplicity']['max']):
                R = [x for x, ty in types.items() if a['rightAsset'] in anc(ty)]
                if R:
                    big['links'].append({'cls': assoc_class_name(spec, a), 'lf': a['leftField'], 'rf': a['rightField'], 'left': [nid], 'right': [rnd.choice(R)]})
                    break
        plan.append(('asset', None, nid))
    return big, plan

SLOW: list = []       # churned cases abandoned because the real code ran for more than 15 s (counted in the evidence)

def _churned_model(lg, fac, spec, inst, churn, member_p):
    from maltoolbox.attackgraph import AttackGraph
    big, plan = churn_plan(spec, inst, churn, member_p)
    m, byid = build_model(fac, big)
    assocs = list(m.associations)
    AttackGraph(lg, m)                       # an earlier generation on the larger model
    # removals of single members last: the other removals may reset what the code caches
    for kind, i, x in sorted(plan, key=lambda p: p[0] == 'member'):
        if kind == 'member': m.remove_asset_from_association(byid[x], assocs[i])
        elif kind == 'link': m.remove_association(assocs[i])
        else: m.remove_asset(byid[x])
    return m, byid

def impl_generate(spec, inst, keep=False, churn=None, member_p=0.4):
    from .common import log_turn, debug_logging
    with debug_logging(log_turn()):
        return _impl_generate(spec, inst, keep, churn, member_p)

def _impl_generate(spec, inst, keep=False, churn=None, member_p=0.4):
    from maltoolbox.attackgraph import AttackGraph
    try:
        lg, fac = build_lang(spec)
        if churn is None:
            m, byid = build_model(fac, inst)
        else:
            from .common import time_limit, CaseTimeout
            try:
                with time_limit(15):
                    m, byid = _churned_model(lg, fac, spec, inst, churn, member_p)
            except CaseTimeout:
                SLOW.append(1)
                m, byid = build_model(fac, inst)
        for a in inst['assets']:
            # names chosen by the model (unnamed assets, automatic renaming of duplicates) are read back
            a['name'] = str(byid[a['id']].name)
        g = AttackGraph(lg, m)
    except Exception as e:
        name = type(e).__name__
        for k in ERRMAP:
            if k == name or any(b.__name__ == k for b in type(e).__mro__):
                return {'error': ERRMAP[k]}
        return {'error': name + ': ' + str(e)[:80]}
    res = graph_obs(g)
    if keep: res['_objs'] = (lg, fac, m, g)
    return res

def graph_obs(g):
    return {'nodes': [{'id': n.id, 'full_name': n.full_name, 'asset': str(n.asset.name) if n.asset else None, 'name': n.name,
                       'type': n.type, 'ttc': jtxt(n.ttc), 'tags': list(n.tags), 'mitre': n.mitre_info,
                       'defense': None if n.defense_status is None else float(n.defense_status),
                       'exist': n.existence_status} for n in g.nodes],
            'edges': [[n.id, c.id] for n in g.nodes for c in n.children],
            'parent_edges': [[p.id, n.id] for n in g.nodes for p in n.parents]}

def model_nodes_canon(ns):
    return [{**n, 'defense': None if n['defense'] is None else float(n['defense'])} for n in ns]

# ------------------------------------------------------------------ reference semantics
class Ref:
    """set semantics of step expressions, independent of the Lean model (used
    to confirm violations and to search for failing inputs)"""
    def __init__(self, spec, inst):
        self.spec, self.inst = spec, inst
        self.byname = {a['name']: a for a in spec['assets']}
        self.type = {a['id']: a['type'] for a in inst['assets']}
    def anc(self, t):
        out = []
        seen = set()
        while t and t in self.byname and t not in seen:
            out.append(t); seen.add(t); t = self.byname[t]['superAsset']
        return out
    def nbrs(self, x, f):
        out = set()
        for l in self.inst['links']:
            if x in l['left'] and l['rf'] == f: out |= set(l['right'])
            if x in l['right'] and l['lf'] == f: out |= set(l['left'])
        return out
    def var(self, t, v):
        for u in self.anc(t):
            for d in self.byname[u]['variables']:
                if d['name'] == v: return d['stepExpression']
        return None
    def den(self, e, S: frozenset, refl: bool, depth=0):
        """(lo, hi) pair is obtained by calling with refl False / True and flipping under difference"""
        t = e['type']
        if depth > 60: raise RecursionError
        if t == 'attackStep': return S
        if t == 'field': return frozenset(y for x in S for y in self.nbrs(x, e['name']))
        if t == 'collect': return self.den(e['rhs'], self.den(e['lhs'], S, refl, depth + 1), refl, depth + 1)
        if t == 'union': return self.den(e['lhs'], S, refl, depth + 1) | self.den(e['rhs'], S, refl, depth + 1)
        if t == 'intersection': return self.den(e['lhs'], S, refl, depth + 1) & self.den(e['rhs'], S, refl, depth + 1)
        if t == 'difference': return self.den(e['lhs'], S, refl, depth + 1) - self.den(e['rhs'], S, not refl, depth + 1)
        if t == 'subType':
            return frozenset(y for y in self.den(e['stepExpression'], S, refl, depth + 1) if e['subType'] in self.anc(self.type[y]))
        if t == 'variable':
            if not S: return frozenset()
            defs = {jtxt(self.var(self.type[x], e['name'])) for x in S}
            if len(defs) != 1 or 'null' in defs: raise LookupError('variable')
            return self.den(json.loads(defs.pop()), S, refl, depth + 1)
        if t == 'transitive':
            acc = set(S) if refl else set()
            cur = S
            while cur:
                nxt = self.den(e['stepExpression'], frozenset(cur), refl, depth + 1)
                cur = nxt - acc if not refl else nxt - acc
                new = nxt - acc
                acc |= nxt
                cur = new
            return frozenset(acc)
        raise KeyError(t)
    def last_step(self, e):
        t = e['type']
        if t == 'attackStep': return e['name']
        if t == 'collect': return self.last_step(e['rhs'])
        if t == 'variable': return None
        return None
    def fold_steps(self, t):
        res = {}
        for u in reversed(self.anc(t)):
            for s in self.byname[u]['attackSteps']:
                if s['name'] not in res:
                    res[s['name']] = copy.deepcopy(s)
                elif not s.get('reaches'):
                    continue
                elif s['reaches']['overrides']:
                    res[s['name']] = copy.deepcopy(s)
                else:
                    cur = res[s['name']]
                    if cur.get('reaches'):
                        cur['reaches'] = {'overrides': cur['reaches']['overrides'],
                                          'stepExpressions': cur['reaches']['stepExpressions'] + copy.deepcopy(s['reaches']['stepExpressions'])}
                    else:
                        cur['reaches'] = {'overrides': False, 'stepExpressions': copy.deepcopy(s['reaches']['stepExpressions'])}
        return res
    def edges(self, refl_lo=False):
        """(lo, hi): sets of (src full name, dst full name)"""
        name = {a['id']: a['name'] for a in self.inst['assets']}
        lo, hi = set(), set()
        for a in self.inst['assets']:
            for sn, s in self.fold_steps(a['type']).items():
                if not s.get('reaches'): continue
                for e in s['reaches']['stepExpressions']:
                    st = self.last_step(e)
                    for (acc, refl) in ((lo, False), (hi, True)):
                        for y in self.den(e, frozenset([a['id']]), refl):
                            acc.add((f"{a['name']}:{sn}", f"{name[y]}:{st}"))
        return lo, hi
