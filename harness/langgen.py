"""Type-directed generators of MAL language specifications (toolbox langspec
dict format) and of instance models valid for them; builders of the real
objects; conversion to the driver's compact payload."""
from __future__ import annotations
import copy, json, random

MULTS = [(0, None), (1, None), (0, 1), (1, 1), (0, 3)]
# a declared maximum of 0 (`0` / `0..0`): a field that may hold nothing (the generated class must say maxItems 0)
MULT_ZERO = (0, 0)
TTC_DEF = [None,
           {'type': 'function', 'name': 'Enabled', 'arguments': []},
           {'type': 'function', 'name': 'Disabled', 'arguments': []},
           {'type': 'function', 'name': 'Bernoulli', 'arguments': [0.5]}]
# TTCs of a defense that are not a single distribution (no key 'name'): a sum / product of distributions, a number
# (knob `composite_def_ttc`, used by C06: the class factory must give such a defense the default 0, fix 6addd5c)
TTC_DEF_COMPOSITE = [
    {'type': 'addition', 'lhs': {'type': 'function', 'name': 'Exponential', 'arguments': [1.0]},
     'rhs': {'type': 'function', 'name': 'Exponential', 'arguments': [2.0]}},
    {'type': 'multiplication', 'lhs': {'type': 'function', 'name': 'Enabled', 'arguments': []},
     'rhs': {'type': 'number', 'value': 2.0}},
    {'type': 'number', 'value': 0.5},
    {'type': 'subtraction', 'lhs': {'type': 'function', 'name': 'Bernoulli', 'arguments': [0.5]},
     'rhs': {'type': 'function', 'name': 'Enabled', 'arguments': []}}]
TTC_STEP = [None, None,
            {'type': 'function', 'name': 'Exponential', 'arguments': [0.1]},
            {'type': 'addition', 'lhs': {'type': 'function', 'name': 'Exponential', 'arguments': [0.1]},
             'rhs': {'type': 'number', 'value': 2.0}}]

def _substrings(word, least=1):
    return sorted({word[i:j] for i in range(len(word)) for j in range(i + least, len(word) + 1)})

# names that contain one another (an implementation that finds a declaration with `in` on a string, with a prefix
# test or with str.replace answers for the wrong asset / field / step); no single capital letter (C, I, A, E are
# tokens of the MAL grammar), no step name with a capital initial (the legacy format lower-cases the first letter)
NESTED_ASSETS = _substrings('Nodes', 2)
NESTED_FIELDS = _substrings('parte') + _substrings('holdi')
NESTED_STEPS = ['s', 'sS', 'sSs', 'ss', 'sSS']

class LangGen:
    def __init__(self, rnd: random.Random, n_assets=None, knobs=None):
        self.r = rnd
        self.k = {'dup_assoc_names': 0.25, 'reuse_fields': 0.2, 'setops': 0.5, 'trans': 0.3, 'vars': 0.5,
                  'subtype': 0.6, 'abstract': 0.3, 'redefine': 0.6}
        if knobs: self.k.update(knobs)
        self.n = n_assets or rnd.randint(2, 6)

    # ---- structure helpers
    def ancestors(self, t):           # t first
        out = []
        while t is not None:
            out.append(t); t = self.parent[t]
        return out
    def is_sub(self, t, u): return u in self.ancestors(t)
    def descendants(self, t): return [x for x in self.names if self.is_sub(x, t)]
    def fields_of(self, t):
        """visible fields of type t: name -> target type"""
        res = {}
        for a in self.assocs:
            if self.is_sub(t, a['leftAsset']): res.setdefault(a['rightField'], a['rightAsset'])
            if self.is_sub(t, a['rightAsset']): res.setdefault(a['leftField'], a['leftAsset'])
        return res
    def steps_of(self, t):
        names = []
        for u in reversed(self.ancestors(t)):
            for s in self.steps[u]:
                if s['name'] not in names: names.append(s['name'])
        return names
    def step_type(self, t, name):
        for u in reversed(self.ancestors(t)):
            for s in self.steps[u]:
                if s['name'] == name: return s['type']
        return None
    def vars_of(self, t):
        """variables visible from type t: name -> (expression, result type, declaring asset); the nearest declaration
        wins (MAL forbids re-declaring a variable of an ancestor, so there is exactly one)"""
        res = {}
        for u in self.ancestors(t):
            for v in self.variables[u]:
                res.setdefault(v['name'], (v['stepExpression'], self.var_type[(u, v['name'])], u))
        return res
    def lca(self, t, u):
        for x in self.ancestors(t):
            if x in self.ancestors(u): return x
        return None

    # ---- expressions (typed): returns (expr, result type) or None
    def nav(self, t, depth, allow_vars=True):
        r = self.r
        fields = self.fields_of(t)
        choices = []
        if fields: choices += ['field'] * 4
        if depth > 0:
            if fields: choices += ['collect'] * 3
            if r.random() < self.k['setops'] and fields: choices += ['set'] * 2
            if r.random() < self.k['trans']: choices += ['trans']
            if r.random() < self.k['subtype']: choices += ['sub']
        if allow_vars and self.vars_of(t) and r.random() < self.k['vars']: choices += ['var'] * 2
        if not choices: return None
        c = r.choice(choices)
        if c == 'field':
            f = r.choice(sorted(fields)); return ({'type': 'field', 'name': f}, fields[f])
        if c == 'var':
            v = r.choice(sorted(self.vars_of(t))); return ({'type': 'variable', 'name': v}, self.vars_of(t)[v][1])
        if c == 'collect':
            l = self.nav(t, depth - 1, allow_vars)
            if not l: return None
            rr = self.nav(l[1], depth - 1, allow_vars)
            if not rr: return l
            return ({'type': 'collect', 'lhs': l[0], 'rhs': rr[0]}, rr[1])
        if c == 'set':
            l = self.nav(t, depth - 1, allow_vars)
            # a variable as the left operand (its value is the list the operator starts from: an evaluator that
            # re-uses or extends that list in place shows only when the variable is used again from the same asset)
            if allow_vars and self.vars_of(t) and r.random() < 0.5:
                v = r.choice(sorted(self.vars_of(t))); l = ({'type': 'variable', 'name': v}, self.vars_of(t)[v][1])
            if not l: return None
            for _ in range(6):
                rr = self.nav(t, depth - 1, allow_vars)
                # the toolbox types a set operation by its left operand: keep the right operand's type below it
                # (sibling operand types are exercised separately by the C15 check)
                if rr and (self.is_sub(rr[1], l[1]) or (self.k.get('sibling_sets') and self.lca(l[1], rr[1]))):
                    op = r.choice(['union', 'intersection', 'difference'])
                    return ({'type': op, 'lhs': l[0], 'rhs': rr[0]}, self.lca(l[1], rr[1]) if op == 'union' else l[1])
            return l
        if c == 'trans':
            # inner expression from t to a subtype of t, so that it can be iterated
            for _ in range(6):
                e = self.nav(t, min(depth - 1, 1), allow_vars)
                if e and self.is_sub(e[1], t) and self.distributive(e[0], t):
                    return ({'type': 'transitive', 'stepExpression': e[0]}, e[1])
            return None
        if c == 'sub':
            e = self.nav(t, depth - 1, allow_vars)
            if not e: return None
            subs = [x for x in self.descendants(e[1])]
            # prefer a strict sub asset that has sub assets of its own: the filter must then accept assets two or
            # more levels below the named type and reject its super assets
            deep = [x for x in subs if x != e[1] and len(self.descendants(x)) > 1]
            v = r.choice(deep) if deep and r.random() < 0.6 else r.choice(subs)
            return ({'type': 'subType', 'subType': v, 'stepExpression': e[0]}, v)

    def distributive(self, e, t):
        """does expression e (typed from asset type t) distribute over unions of sources?  (needed under `*`)"""
        return self._dist(e, t)[0]
    def _dist(self, e, t):
        k = e['type']
        if k == 'field': return True, self.fields_of(t).get(e['name'])
        if k == 'variable':
            d = self.vars_of(t).get(e['name'])
            if d is None: return False, None
            return self._dist(d[0], d[2])[0], d[1]
        if k == 'collect':
            a, ta = self._dist(e['lhs'], t)
            if ta is None: return False, None
            b, tb = self._dist(e['rhs'], ta)
            return a and b, tb
        if k == 'union':
            a, ta = self._dist(e['lhs'], t); b, tb = self._dist(e['rhs'], t)
            return a and b, (self.lca(ta, tb) if ta and tb else None)
        if k in ('intersection', 'difference'):
            return False, self._dist(e['lhs'], t)[1]
        if k == 'transitive': return self._dist(e['stepExpression'], t)
        if k == 'subType': return self._dist(e['stepExpression'], t)[0], e['subType']
        return False, None

    def reach_expr(self, t):
        """navigation (possibly empty) followed by an attack step of the target type"""
        r = self.r
        if r.random() < 0.3:
            tgt, navi = t, None
        else:
            nv = self.nav(t, r.choice([0, 1, 1, 2, 3]))
            if self.vars_of(t) and r.random() < 0.25 * self.k['vars']:
                # the bare variable again: several steps of one asset use the same variable
                v = r.choice(sorted(self.vars_of(t))); nv = ({'type': 'variable', 'name': v}, self.vars_of(t)[v][1])
            if nv is None: tgt, navi = t, None
            else: navi, tgt = nv
        steps = self.steps_of(tgt)
        if not steps: return None
        st = {'type': 'attackStep', 'name': r.choice(steps)}
        return st if navi is None else {'type': 'collect', 'lhs': navi, 'rhs': st}

    # ---- the language
    def gen(self):
        r = self.r
        self.names = [f'T{i}' for i in range(self.n)]
        self.nested = r.random() < self.k.get('nested_names', 0.25)
        field_names = None
        if self.nested:
            self.names = r.sample(NESTED_ASSETS, self.n) if self.n <= len(NESTED_ASSETS) else self.names
            field_names = r.sample(NESTED_FIELDS, len(NESTED_FIELDS))
        self.parent = {}
        for i, nm in enumerate(self.names):
            self.parent[nm] = r.choice(self.names[:i]) if i and r.random() < 0.55 else None
        has_child = {p for p in self.parent.values() if p}
        self.abstract = {nm: (nm in has_child and r.random() < self.k['abstract']) for nm in self.names}
        # associations
        self.assocs = []
        fcount = 0
        for i in range(r.randint(1, 5)):
            la, ra = r.choice(self.names), r.choice(self.names)
            # association (class) names in several styles: a YAML file lists the keys of an association entry
            # alphabetically, so a lower-case type name can sort after the optional 'extras' key
            nm = r.choices(['Assoc', 'link', 'conn', 'zone'], [6, 2, 1, 1])[0] + str(i)
            if self.assocs and r.random() < self.k['dup_assoc_names']:
                nm = r.choice(self.assocs)['name']
                # same name between the same two asset types: allowed in the opposite orientation (two classes
                # name_A_B and name_B_A); in the same orientation the two are merged (recorded finding KF-C15-1)
                if r.random() < 0.5:
                    prev = r.choice([a for a in self.assocs if a['name'] == nm])
                    if prev['leftAsset'] != prev['rightAsset']: la, ra = prev['rightAsset'], prev['leftAsset']
                if any(a['name'] == nm and (a['leftAsset'], a['rightAsset']) == (la, ra) for a in self.assocs) or \
                        (la == ra and any(a['name'] == nm and {a['leftAsset'], a['rightAsset']} == {la} for a in self.assocs)):
                    nm = f'Assoc{i}x'
            lf, rf = f'f{fcount}', f'f{fcount + 1}'
            if field_names and fcount + 1 < len(field_names): lf, rf = field_names[fcount], field_names[fcount + 1]
            fcount += 2
            if self.assocs and r.random() < self.k['reuse_fields']:
                # MAL only requires a field name to be unique among the fields one asset hierarchy owns: the owner of the
                # right field is the left asset and vice versa.  Re-use names of other associations where that is legal
                # (e.g. 'owner' used by two unrelated assets, or by an asset that is itself pointed to by an 'owner' field).
                def related(t, u): return self.is_sub(t, u) or self.is_sub(u, t)
                def owned_by(t):
                    res = set()
                    for a in self.assocs:
                        if related(t, a['leftAsset']): res.add(a['rightField'])
                        if related(t, a['rightAsset']): res.add(a['leftField'])
                    return res
                pool = sorted({a['leftField'] for a in self.assocs} | {a['rightField'] for a in self.assocs})
                cand_r = [f for f in pool if f not in owned_by(la)]
                if cand_r: rf = r.choice(cand_r)
                # (the two ends of one association get different names: the generated class keys its fields by name,
                #  an association with the same field name on both ends cannot be represented — recorded finding KF-C06-1)
                cand_l = [f for f in pool if f not in owned_by(ra) and f != rf]
                if cand_l and r.random() < 0.5: lf = r.choice(cand_l)
            if self.assocs and r.random() < self.k.get('crossed_twin', 0.15):
                # the same pair of role names between the same two asset types, the other way round, under another
                # name:  A [x] <-- N --> [y] B   and   B [x] <-- M --> [y] A   (A.y: B, B.x: A; B.y: A, A.x: B)
                prev = r.choice(self.assocs)
                if prev['leftAsset'] != prev['rightAsset'] and not (self.is_sub(prev['leftAsset'], prev['rightAsset']) or self.is_sub(prev['rightAsset'], prev['leftAsset'])):
                    def owned(t):
                        res = set()
                        for a in self.assocs:
                            if self.is_sub(t, a['leftAsset']) or self.is_sub(a['leftAsset'], t): res.add(a['rightField'])
                            if self.is_sub(t, a['rightAsset']) or self.is_sub(a['rightAsset'], t): res.add(a['leftField'])
                        return res
                    if prev['rightField'] not in owned(prev['rightAsset']) and prev['leftField'] not in owned(prev['leftAsset']) \
                            and prev['leftField'] != prev['rightField']:
                        la, ra, lf, rf, nm = prev['rightAsset'], prev['leftAsset'], prev['leftField'], prev['rightField'], f'Twin{i}'
            if r.random() < self.k.get('same_field_both_ends', 0.0) and not (self.is_sub(la, ra) or self.is_sub(ra, la)):
                # a fresh role name used on both ends, between two unrelated assets (so that navigation stays
                # unambiguous); language-graph level only: no class can be generated for it (KF-C06-1)
                lf = rf = f'p{fcount}'
            lm, rm = r.choice(MULTS), r.choice(MULTS)
            if r.random() < self.k.get('zero_mult', 0.03): lm = MULT_ZERO
            if r.random() < self.k.get('zero_mult', 0.03): rm = MULT_ZERO
            cand = {'name': nm, 'meta': {} if r.random() < 0.7 else {'user': 'assoc info'},
                    'leftAsset': la, 'leftField': lf, 'leftMultiplicity': {'min': lm[0], 'max': lm[1]},
                    'rightAsset': ra, 'rightField': rf, 'rightMultiplicity': {'min': rm[0], 'max': rm[1]}}
            self.assocs.append(cand)
        # steps (names from a small pool so that redefinitions happen); first without reaches
        pool = list(NESTED_STEPS) if self.nested else [f's{i}' for i in range(5)]
        self.steps = {nm: [] for nm in self.names}
        for nm in self.names:
            inherited = self.steps_of(nm)
            for _ in range(r.randint(1, 4)):
                if inherited and r.random() < self.k['redefine']:
                    sn = r.choice(inherited); ty = self.step_type(nm, sn)
                else:
                    sn = r.choice(pool)
                    ty = self.step_type(nm, sn) or r.choices(['or', 'and', 'defense', 'exist', 'notExist'], [5, 5, 2, self.k.get('exist_w', 1), self.k.get('exist_w', 1)])[0]
                if any(s['name'] == sn for s in self.steps[nm]): continue
                meta = {}
                if r.random() < 0.3: meta['user'] = f'info {sn}'
                if r.random() < 0.2: meta['mitre'] = 'T1' + str(r.randint(100, 999))
                composite = ty == 'defense' and self.k.get('composite_def_ttc', 0) > 0 and r.random() < self.k['composite_def_ttc']
                self.steps[nm].append({'name': sn, 'meta': meta, 'type': ty,
                                       'tags': r.choice([[], [], ['hidden'], ['suppress'], ['a', 'b']]),
                                       'risk': r.choice([None, None, {'isConfidentiality': True, 'isIntegrity': False, 'isAvailability': True}]),
                                       'ttc': copy.deepcopy(r.choice(TTC_DEF_COMPOSITE if composite else TTC_DEF if ty == 'defense' else TTC_STEP)) if ty not in ('exist', 'notExist') else None,
                                       'requires': None, 'reaches': None})
        # variables (acyclic: may use variables of ancestors and earlier ones of the same asset).  A name may be used
        # again by an asset that is neither an ancestor nor a descendant of a declaring asset (no shadowing along a
        # chain, as malc demands): `let reach = …` on two unrelated assets are two different variables.
        self.variables = {nm: [] for nm in self.names}
        self.var_type = {}
        vc = 0
        for nm in self.names:
            for _ in range(r.choice([0, 0, 1, 2])):
                e = self.nav(nm, r.choice([0, 1, 2]))
                if e:
                    related = set(self.ancestors(nm)) | set(self.descendants(nm))
                    taken = {v['name'] for u in related for v in self.variables[u]}
                    reusable = sorted({v['name'] for u in self.names if u not in related for v in self.variables[u]} - taken)
                    if reusable and r.random() < self.k.get('reuse_vars', 0.4): v = r.choice(reusable)
                    else: v = f'v{vc}'; vc += 1
                    self.var_type[(nm, v)] = e[1]
                    self.variables[nm].append({'name': v, 'stepExpression': e[0]})
        # requires / reaches
        for nm in self.names:
            inherited_before = set()
            for u in self.ancestors(nm)[1:]:
                inherited_before |= {s['name'] for s in self.steps[u]}
            for s in self.steps[nm]:
                if s['type'] in ('exist', 'notExist'):
                    e = self.nav(nm, r.choice([0, 1, 2]))
                    if e is not None and r.random() < 0.4:
                        # requirement narrowed to a sub asset that has sub assets of its own (`<- hosts[Server]`)
                        deep = [x for x in self.descendants(e[1]) if len(self.descendants(x)) > 1] or self.descendants(e[1])
                        v = r.choice(deep)
                        e = ({'type': 'subType', 'subType': v, 'stepExpression': e[0]}, v)
                    if e is None:
                        s['type'] = 'or'; s['ttc'] = None
                    else:
                        s['requires'] = {'overrides': True, 'stepExpressions': [e[0]]}
                redefinition = s['name'] in inherited_before
                p = r.random()
                if p < (0.3 if redefinition else 0.15):
                    continue                          # no reaches clause
                exprs = [x for x in (self.reach_expr(nm) for _ in range(r.randint(1, 3))) if x]
                if exprs:
                    s['reaches'] = {'overrides': (r.random() < 0.5) if redefinition else True, 'stepExpressions': exprs}
        # an exist step whose type was inherited as exist but lost its requirement cannot happen: types are kept
        spec = {'formatVersion': '1.0.0', 'defines': {'id': 'org.verif.gen', 'version': '0.0.1'},
                'categories': [{'name': 'C', 'meta': {}}],
                'assets': [{'name': nm, 'meta': {} if r.random() < 0.8 else {'user': 'asset info'}, 'category': 'C',
                            'isAbstract': self.abstract[nm], 'superAsset': self.parent[nm],
                            'variables': self.variables[nm], 'attackSteps': self.steps[nm]} for nm in self.names],
                'associations': self.assocs}
        # the order of the declarations carries no meaning: a sub asset may be declared before its super asset
        if r.random() < self.k.get('shuffle_assets', 0.3): r.shuffle(spec['assets'])
        return spec

def chain_language(rnd: random.Random):
    """a single inheritance chain in which the same steps are redefined at every level with a random
    mix of absent / '->' / '+>' / no-reaches declarations (the shapes C03 singles out)"""
    depth = rnd.randint(3, 6)
    names = [f'T{i}' for i in range(depth)]
    if rnd.random() < 0.25: names = rnd.sample(NESTED_ASSETS, depth)
    assocs = [{'name': 'Link', 'meta': {}, 'leftAsset': names[0], 'leftField': 'up', 'leftMultiplicity': {'min': 0, 'max': None},
               'rightAsset': names[0], 'rightField': 'down', 'rightMultiplicity': {'min': 0, 'max': None}}]
    pool = ['s0', 's1', 's2']
    def expr():
        tgt = {'type': 'attackStep', 'name': rnd.choice(pool)}
        k = rnd.random()
        if k < 0.4: return tgt
        nav = {'type': 'field', 'name': rnd.choice(['up', 'down'])}
        if k > 0.8: nav = {'type': 'transitive', 'stepExpression': nav}
        return {'type': 'collect', 'lhs': nav, 'rhs': tgt}
    assets = []
    bare = rnd.randrange(1, depth) if rnd.random() < 0.3 else None      # a level that declares no step of its own
    for i, nm in enumerate(names):
        steps = []
        for sn in pool:
            if i > 0 and (rnd.random() < 0.3 or i == bare): continue          # absent at this level
            kind = rnd.choice(['none', '->', '+>', '+>']) if i > 0 else rnd.choice(['none', 'none', '->'])
            reaches = None if kind == 'none' else {'overrides': kind == '->', 'stepExpressions': [expr() for _ in range(rnd.randint(1, 2))]}
            steps.append({'name': sn, 'meta': {}, 'type': {'s0': 'or', 's1': 'and', 's2': 'or'}[sn], 'tags': [] if rnd.random() < 0.7 else [f't{i}'],
                          'risk': None, 'ttc': None if rnd.random() < 0.6 else {'type': 'function', 'name': 'Exponential', 'arguments': [float(i + 1)]},
                          'requires': None, 'reaches': reaches})
        assets.append({'name': nm, 'meta': {}, 'category': 'C', 'isAbstract': False, 'superAsset': names[i - 1] if i else None,
                       'variables': [], 'attackSteps': steps})
    if rnd.random() < 0.4: rnd.shuffle(assets)          # declaration order is free: descendants may come first
    return {'formatVersion': '1.0.0', 'defines': {'id': 'org.verif.chain', 'version': '0.0.1'}, 'categories': [{'name': 'C', 'meta': {}}],
            'assets': assets, 'associations': assocs}

def fix_exist_types(spec):
    """a redefinition keeps the type of the inherited step; an exist/notExist step needs a requirement at the
    level that defines it — make the spec coherent after random generation"""
    byname = {a['name']: a for a in spec['assets']}
    def chain(t):
        out = []
        while t: out.append(t); t = byname[t]['superAsset']
        return out
    for a in spec['assets']:
        for s in a['attackSteps']:
            # find the definition the fold would keep; if it is exist/notExist without requires -> make it 'or'
            pass
    return spec

# ------------------------------------------------------------------ payload for the driver
def _tagged_keys(x):
    """keys that are not strings are made visible (and sortable): {1: 'a'} and {'1': 'a'} are different contents"""
    if isinstance(x, dict): return {(k if isinstance(k, str) else f'<{type(k).__name__}>{k!r}'): _tagged_keys(v) for k, v in x.items()}
    if isinstance(x, (list, tuple)): return [_tagged_keys(v) for v in x]
    return x
def jtxt(x): return json.dumps(_tagged_keys(x), sort_keys=True, separators=(',', ':'))

def lang_payload(spec):
    assets = []
    for a in spec['assets']:
        steps = []
        for s in a['attackSteps']:
            ttc = s.get('ttc')
            steps.append({'name': s['name'], 'type': s['type'], 'tags': list(s.get('tags') or []), 'ttc': jtxt(ttc),
                          'ttcName': ttc.get('name') if isinstance(ttc, dict) else None,
                          'meta': jtxt(s.get('meta', {})), 'mitre': (s.get('meta') or {}).get('mitre'),
                          'risk': jtxt(s.get('risk')),
                          'requires': s['requires']['stepExpressions'] if s.get('requires') else None,
                          'reaches': {'overrides': bool(s['reaches']['overrides']), 'exprs': s['reaches']['stepExpressions']}
                                     if s.get('reaches') else None})
        assets.append({'name': a['name'], 'superAsset': a.get('superAsset'), 'isAbstract': bool(a.get('isAbstract')),
                       'variables': [[v['name'], v['stepExpression']] for v in a.get('variables', [])],
                       'steps': steps, 'meta': jtxt(a.get('meta', {})), 'category': a.get('category', '')})
    assocs = []
    for s in spec['associations']:
        assocs.append({'name': s['name'], 'leftAsset': s['leftAsset'], 'leftField': s['leftField'],
                       'leftMin': s['leftMultiplicity']['min'], 'leftMax': s['leftMultiplicity']['max'],
                       'rightAsset': s['rightAsset'], 'rightField': s['rightField'],
                       'rightMin': s['rightMultiplicity']['min'], 'rightMax': s['rightMultiplicity']['max'],
                       'meta': jtxt(s.get('meta', {}))})
    return {'assets': assets, 'assocs': assocs}

def inst_payload(inst):
    return {'assets': [{'id': a['id'], 'name': a['name'], 'type': a['type'],
                        'defenses': [[k, repr(float(v))] for k, v in a.get('defenses', {}).items()]} for a in inst['assets']],
            'links': [{'cls': l['cls'], 'lf': l['lf'], 'rf': l['rf'], 'left': l['left'], 'right': l['right']} for l in inst['links']]}

# ------------------------------------------------------------------ instance models
def assoc_class_name(spec, assoc):
    same = [a for a in spec['associations'] if a['name'] == assoc['name']]
    if len(same) > 1:
        return f"{assoc['name']}_{assoc['leftAsset']}_{assoc['rightAsset']}"
    return assoc['name']

def gen_model(rnd: random.Random, spec, n_assets=None, allow_abstract=False, colon_names=False):
    byname = {a['name']: a for a in spec['assets']}
    def anc(t):
        out = []
        while t: out.append(t); t = byname[t]['superAsset']
        return out
    concrete = [a['name'] for a in spec['assets'] if allow_abstract or not a['isAbstract']]
    if not concrete: concrete = [a['name'] for a in spec['assets']]
    n = n_assets if n_assets is not None else rnd.randint(1, 8)
    assets = []
    ids = list(range(n))
    if rnd.random() < 0.3:
        ids = rnd.sample(range(-3, 40), n)
    def steps_of(t):
        res = {}
        for u in reversed(anc(t)):
            for s in byname[u]['attackSteps']:
                if s['name'] not in res or s.get('reaches') is None and False:
                    res[s['name']] = s
                elif s.get('reaches') and s['reaches']['overrides']:
                    res[s['name']] = s
        return res
    for i in range(n):
        t = rnd.choice(concrete)
        nm = f'a{i}' if not (colon_names and rnd.random() < 0.4) else f'a:{i}'
        defs = {}
        for sn, s in steps_of(t).items():
            if s['type'] == 'defense' and rnd.random() < 0.5:
                defs[sn] = rnd.choice([0.0, 0.5, 1.0, 0.25])
        assets.append({'id': ids[i], 'name': nm, 'type': t, 'defenses': defs})
    links = []
    seen = set()
    for a in spec['associations']:
        L = [x for x in assets if a['leftAsset'] in anc(x['type'])]
        R = [x for x in assets if a['rightAsset'] in anc(x['type'])]
        if not L or not R: continue
        for _ in range(rnd.choice([0, 1, 1, 2, 3])):
            lmax = 3 if a['leftMultiplicity']['max'] is None else a['leftMultiplicity']['max']
            rmax = 3 if a['rightMultiplicity']['max'] is None else a['rightMultiplicity']['max']
            if lmax == 0 or rmax == 0: break       # a field with maximum 0 holds nothing: no link of this association
            left = rnd.sample(L, rnd.randint(1, min(len(L), lmax)))
            right = rnd.sample(R, rnd.randint(1, min(len(R), rmax)))
            cls = assoc_class_name(spec, a)
            pairs = {(cls, l['id'], r['id']) for l in left for r in right}
            if pairs & seen: continue
            seen |= pairs
            links.append({'cls': cls, 'lf': a['leftField'], 'rf': a['rightField'],
                          'left': [x['id'] for x in left], 'right': [x['id'] for x in right]})
    return {'assets': assets, 'links': links}

# ------------------------------------------------------------------ real objects
def build_lang(spec):
    from maltoolbox.language import LanguageGraph, LanguageClassesFactory
    from . import common as _c
    _c.set_current(spec=spec, inst=None)
    lg = LanguageGraph(copy.deepcopy(spec))
    return lg, LanguageClassesFactory(lg)

def build_model(factory, inst, name='m'):
    from maltoolbox.model import Model
    from . import common as _c
    _c.set_current(inst=inst)
    m = Model(name, factory)
    byid = {}
    for a in inst['assets']:
        cls = getattr(factory.ns, a['type'])
        obj = cls(name=a['name']) if a['name'] is not None else cls()      # unnamed: the model generates '<type>:<id>'
        for k, v in a.get('defenses', {}).items():
            setattr(obj, k, float(v))
        m.add_asset(obj, asset_id=a['id'])
        byid[a['id']] = obj
    for l in inst['links']:
        assoc = getattr(factory.ns, l['cls'])()
        setattr(assoc, l['lf'], [byid[i] for i in l['left']])
        setattr(assoc, l['rf'], [byid[i] for i in l['right']])
        m.add_association(assoc)
    return m, byid
