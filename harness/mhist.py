"""Histories of Model / AttackerAttachment operations on the real code and on
the Lean state machine Model/MState.lean (C05, C06, C07)."""
from __future__ import annotations
import json, random
from .common import Result, Violation, run_driver, canon_hash
from .langgen import LangGen, build_lang, lang_payload, assoc_class_name, jtxt

class Impl:
    def __init__(self, spec):
        from maltoolbox.model import Model
        self.spec = spec
        from .common import log_turn, debug_logging
        self.debug = log_turn()
        with debug_logging(self.debug):
            self.lg, self.fac = build_lang(spec)
            self.m = Model('hist', self.fac)
        self.assets, self.assocs, self.atts = [], [], []

    def step(self, op):
        from .common import debug_logging
        with debug_logging(self.debug): return self._step(op)

    def _step(self, op):
        from maltoolbox.model import AttackerAttachment
        from maltoolbox.exceptions import DuplicateModelAssociationError, ModelAssociationException
        from python_jsonschema_objects.validators import ValidationError
        m, k = self.m, op['k']
        err, out = None, None
        try:
            if k == 'add_asset':
                cls = getattr(self.fac.ns, op['type'])
                obj = cls(name=op['name']) if op['name'] is not None else cls()
                for d, v in op['defenses']:
                    setattr(obj, d, float(v))
                if op['extras'] != '{}':
                    obj.extras = json.loads(op['extras'])
                if op['name'] is not None and len(self.assets) % 4 == 1:
                    self.drafted(obj)
                m.add_asset(obj, asset_id=op['id'], allow_duplicate_names=op['allowDup'])
                self.assets.append(obj)
            elif k == 'remove_asset':
                m.remove_asset(self.assets[op['a']])
            elif k == 'remove_asset_from_association':
                m.remove_asset_from_association(self.assets[op['a']], self.assocs[op['l']])
            elif k == 'add_association':
                a = getattr(self.fac.ns, op['cls'])()
                setattr(a, op['lf'], [self.assets[i] for i in op['left']])
                setattr(a, op['rf'], [self.assets[i] for i in op['right']])
                m.add_association(a)
                self.assocs.append(a)
            elif k == 'remove_association':
                m.remove_association(self.assocs[op['l']])
            elif k == 'set_assoc_extras':
                self.assocs[op['l']].extras = json.loads(op['extras'])
            elif k == 'add_attacker':
                t = AttackerAttachment(name=op['name']) if op['name'] is not None else AttackerAttachment()
                m.add_attacker(t, attacker_id=op['id'])
                self.atts.append(t)
            elif k == 'remove_attacker':
                m.remove_attacker(self.atts[op['t']])
            elif k == 'add_entry_point':
                self.atts[op['t']].add_entry_point(self.assets[op['a']], op['step'])
            elif k == 'remove_entry_point':
                self.atts[op['t']].remove_entry_point(self.assets[op['a']], op['step'])
            elif k == 'lookup':
                f = lambda o: None if o is None else int(o.id)
                out = {'ids': [f(m.get_asset_by_id(i)) for i in op['ids']],
                       'names': [f(m.get_asset_by_name(n)) for n in op['names']],
                       'aids': [f(m.get_attacker_by_id(i)) for i in op['ids']],
                       'nbrs': [[int(x.id) for x in m.get_associated_assets_by_field_name(self.assets[a], fld)] for a, fld in op['nbrs']]}
            else:
                raise KeyError(k)
        except ValidationError: err = 'ValidationError'
        except DuplicateModelAssociationError: err = 'DuplicateModelAssociationError'
        except ModelAssociationException: err = 'ModelAssociationException'
        except ValueError: err = 'ValueError'
        except LookupError: err = 'LookupError'
        except RecursionError: err = 'RecursionError'   # pjs __eq__ on removed objects with re-used names
        return {'err': err, 'out': out, 'obs': self.obs()}

    def drafted(self, obj):
        """every fourth named asset object has a past: it was part of a draft model (another Model object, thrown
        away afterwards) and linked there to itself or to a partner that only the draft knows; what the draft did to
        the object must not show in the model under test"""
        from maltoolbox.model import Model
        draft = Model('draft', self.fac)
        try:
            draft.add_asset(obj)
        except Exception:
            return
        by = {a['name']: a for a in self.spec['assets']}
        def anc(t):
            out = []
            while t: out.append(t); t = by[t]['superAsset']
            return out
        concrete = [a['name'] for a in self.spec['assets'] if not a['isAbstract']]
        for a in self.spec['associations']:
            if a['leftField'] == a['rightField']: continue
            for mine, other, mf, of in ((a['leftAsset'], a['rightAsset'], a['leftField'], a['rightField']),
                                        (a['rightAsset'], a['leftAsset'], a['rightField'], a['leftField'])):
                if mine not in anc(str(obj.type)): continue
                pt = next((t for t in concrete if other in anc(t)), None)
                if pt is None: continue
                try:
                    partner = getattr(self.fac.ns, pt)(name='draft partner')
                    draft.add_asset(partner)
                    link = getattr(self.fac.ns, assoc_class_name(self.spec, a))()
                    setattr(link, mf, [obj]); setattr(link, of, [partner])
                    draft.add_association(link)
                    return
                except Exception:
                    pass

    def obs(self):
        m = self.m
        pos = {id(a): i for i, a in enumerate(m.associations)}
        def fields(a):
            lf, rf = m.get_association_field_names(a)
            return str(lf), [int(x.id) for x in getattr(a, lf)], str(rf), [int(x.id) for x in getattr(a, rf)]
        assets = []
        for a in m.assets:
            d = m.get_asset_defenses(a)
            assets.append([int(a.id), str(a.name), str(a.type), sorted([k, repr(float(v))] for k, v in d.items()),
                           jtxt(a.extras.as_dict() if hasattr(a.extras, 'as_dict') else dict(a.extras)) if a.extras else '{}',
                           [pos.get(id(x), -1) for x in a.associations]])
        assocs = []
        for a in m.associations:
            lf, l, rf, r = fields(a)
            ex = a.extras
            assocs.append([type(a).__name__, lf, l, rf, r, jtxt(ex.as_dict() if hasattr(ex, 'as_dict') else dict(ex)) if ex else '{}'])
        return {'assets': assets, 'associations': assocs,
                'attackers': [[t.id, t.name, [[int(a.id), list(s)] for a, s in t.entry_points]] for t in m.attackers],
                'assetIds': sorted(int(x) for x in m.asset_ids), 'assetNames': sorted(str(x) for x in m.asset_names),
                'tta': [[k, [pos.get(id(x), -1) for x in v]] for k, v in m._type_to_association.items()],
                'nextId': m.next_id}

def canon_obs(o):
    # back-references of an asset are compared as the multiset of associations they point to (described by content),
    # not by list position: with two value-equal associations in the model, `list.remove` takes the first equal one
    # where the Lean state machine takes the object itself - the same model up to the order of equal entries
    def desc(i):
        if not (0 <= i < len(o['associations'])): return ['<not in model>', i]
        a = o['associations'][i]; return [a[0], a[1], sorted(a[2]), a[3], sorted(a[4])]
    return {'assets': sorted([a[0], a[1], a[2], sorted(a[3]), a[4], sorted(desc(i) for i in a[5])] for a in o['assets']),
            'associations': sorted([a[0], a[1], sorted(a[2]), a[3], sorted(a[4]), a[5]] for a in o['associations']),
            'attackers': sorted([t[0], t[1], sorted([e[0], sorted(e[1])] for e in t[2])] for t in o['attackers']),
            'assetIds': sorted(o['assetIds']), 'assetNames': sorted(o['assetNames']),
            'tta': sorted([k, len(v)] for k, v in o['tta']), 'nextId': o['nextId']}

def canon_out(out):
    if isinstance(out, dict) and 'nbrs' in out:
        return dict(out, nbrs=[sorted(set(x)) for x in out['nbrs']])
    return out

def coherent(im: Impl):
    """the abstract reference model of C05, checked directly on the real objects"""
    m = im.m
    probs = []
    ids = [int(a.id) for a in m.assets]; names = [str(a.name) for a in m.assets]
    if len(set(ids)) != len(ids): probs.append('two live assets share an id')
    if len(set(names)) != len(names): probs.append('two live assets share a name')
    if set(m.asset_ids) != set(ids): probs.append('reserved ids differ from the ids of the live assets')
    if set(m.asset_names) != set(names): probs.append('reserved names differ from the names of the live assets')
    live = {id(a) for a in m.assets}
    apos = {id(x) for x in m.associations}
    for assoc in m.associations:
        lf, rf = m.get_association_field_names(assoc)
        for x in list(getattr(assoc, lf)) + list(getattr(assoc, rf)):
            if id(x) not in live: probs.append('an association lists an asset that is not in the model'); break
    for a in m.assets:
        mine = list(a.associations)
        for x in mine:
            if id(x) not in apos: probs.append('an asset lists an association that is not in the model'); break
        for assoc in m.associations:
            lf, rf = m.get_association_field_names(assoc)
            member = any(y is a for y in getattr(assoc, lf)) or any(y is a for y in getattr(assoc, rf))
            listed = any(y is assoc for y in mine)
            if member != listed:
                probs.append('asset lists an association iff the association lists the asset: violated'); break
    for t in m.attackers:
        seen = []
        for a, steps in t.entry_points:
            if id(a) not in live: probs.append('an entry point refers to an asset that is not in the model')
            if id(a) in seen: probs.append('two entry point tuples for one asset')
            seen.append(id(a))
    grouped = {}
    for assoc in m.associations: grouped.setdefault(type(assoc).__name__, []).append(id(assoc))
    if {k: sorted(v) for k, v in grouped.items()} != {k: sorted(id(x) for x in v) for k, v in m._type_to_association.items()}:
        probs.append('type-to-association index differs from the associations of the model')
    # neighbours = assets linked through the field (self-links included)
    fields = {f for assoc in m.associations for f in m.get_association_field_names(assoc)}
    for a in m.assets:
        for f in fields:
            want = set()
            for assoc in m.associations:
                lf, rf = m.get_association_field_names(assoc)
                if any(y is a for y in getattr(assoc, lf)) and rf == f: want |= {int(y.id) for y in getattr(assoc, rf)}
                if any(y is a for y in getattr(assoc, rf)) and lf == f: want |= {int(y.id) for y in getattr(assoc, lf)}
            got = {int(y.id) for y in m.get_associated_assets_by_field_name(a, f)}
            if got != want: probs.append(f'neighbours of an asset through field {f} differ from the linked assets'); break
    return probs

class Gen:
    def __init__(self, rnd, spec, weights, explicit_attacker_ids=True, extras=True, names=(), odd_defenses=False):
        self.r, self.spec, self.w = rnd, spec, weights
        self.odd_defenses = odd_defenses       # also nan / inf as defense values (C06 only)
        self.extra_names = list(names)         # further asset names to draw from (the predictions below see them)
        self.explicit_attacker_ids, self.with_extras = explicit_attacker_ids, extras
        self.by = {a['name']: a for a in spec['assets']}
        self.concrete = [a['name'] for a in spec['assets'] if not a['isAbstract']] or [a['name'] for a in spec['assets']]
        self.live_a, self.dead_a, self.live_l, self.dead_l, self.live_t, self.dead_t = [], [], [], [], [], []
        self.na = self.nl = self.nt = 0
        self.type = {}; self.ids = {}; self.used_ids = set(); self.used_names = set()
        self.links = {}
        self.names_of = {}
        self.next = 0
        self.ops = []
    def anc(self, t):
        out = []
        while t: out.append(t); t = self.by[t]['superAsset']
        return out
    def defenses_of(self, t):
        res = {}
        for u in reversed(self.anc(t)):
            for s in self.by[u]['attackSteps']:
                if s['type'] == 'defense': res[s['name']] = s
        return sorted(res)
    def steps_of(self, t):
        return sorted({s['name'] for u in self.anc(t) for s in self.by[u]['attackSteps']})
    def gen(self, length):
        r = self.r
        kinds, wts = zip(*self.w.items())
        while len(self.ops) < length:
            k = r.choices(kinds, wts)[0]
            if k == 'add_asset':
                t = r.choice(self.concrete)
                name = r.choice(['A', 'A', 'B', 'A:2', 'B:1', None, None, f'n{self.na}', f'n{self.na}', f'{r.choice(self.concrete)}:{r.randint(0, 5)}'])
                if self.extra_names and name in ('A', 'B') and r.random() < 0.5: name = r.choice(self.extra_names)
                aid = None
                if r.random() < 0.4:
                    # ids of removed assets are re-used on purpose: a removed object and a live one then share an id
                    freed = sorted({self.ids[a] for a in self.dead_a} - {self.ids[a] for a in self.live_a})
                    aid = r.choice([0, 0, self.next + r.randint(0, 2), r.randint(-2, 6), r.choice(sorted(self.used_ids) or [1]),
                                    r.choice(freed or [1]), r.choice(freed or [2])])
                defs = []
                for d in self.defenses_of(t):
                    if r.random() < 0.4: defs.append([d, repr(r.choice([0.0, 1.0, 0.5, 0.25, -0.1, 1.0001, 1.0, 0.0] + ([float('nan'), float('inf')] if self.odd_defenses else [])))])
                ok = all(0.0 <= float(v) <= 1.0 for _, v in defs)
                extras = '{}' if r.random() < 0.8 or not self.with_extras else jtxt({'color': r.choice(['red', 'gr\u00fcn', 'bl\U0001F535']), 'n': r.randint(0, 3), 'w': r.choice([0.5, 1e-07, 1e+22, 3]), **({r.choice(['2024', '7', '007', '-1']): {'42': r.randint(0, 2)}} if r.random() < 0.3 else {})})
                allow = r.random() < 0.8
                self.ops.append({'k': 'add_asset', 'type': t, 'name': name, 'defenses': defs, 'defsOk': ok, 'extras': extras,
                                 'id': aid, 'allowDup': allow})
                eff = aid if aid is not None else self.next
                # predict acceptance (to keep handle numbering in step with both sides)
                live_ids = {self.ids[a] for a in self.live_a}
                if not ok or eff in live_ids: continue
                if name is not None and name in self.live_names() and not allow: continue
                ref = self.na; self.na += 1
                self.ids[ref] = eff; self.type[ref] = t; self.next = max(eff + 1, self.next); self.used_ids.add(eff)
                self.names_of[ref] = self.predict_name(name, t, eff)
                self.live_a.append(ref)
                self.used_names.add(self.names_of[ref])
            elif k == 'remove_asset' and (self.live_a or self.dead_a):
                pool = self.live_a if (self.live_a and r.random() < 0.85) or not self.usable_dead_assets() else self.usable_dead_assets()
                if not pool: continue
                a = r.choice(pool)
                self.ops.append({'k': 'remove_asset', 'a': a})
                if a in self.live_a:
                    self.live_a.remove(a); self.dead_a.append(a)
                    self.drop_asset_from_links(a)
            elif k == 'add_association' and self.live_a:
                assoc = r.choice(self.spec['associations'])
                cls = assoc_class_name(self.spec, assoc)
                dead = self.usable_dead_assets()
                # a removed asset whose id has been taken over by a live asset *with another name*: still an invalid
                # handle (pjs compares by value, and the names differ), but an id-based membership test accepts it
                by_id = {self.ids[b]: b for b in self.live_a}
                shadowed = [a for a in self.dead_a if self.ids[a] in by_id and self.names_of.get(a) != self.names_of.get(by_id[self.ids[a]])]
                cand = shadowed if shadowed and r.random() < 0.7 else dead
                pool = self.live_a + ([r.choice(cand)] if cand and r.random() < (0.3 if shadowed else 0.1) else [])
                def pick(decl, mx):
                    good = [a for a in pool if decl in self.anc(self.type[a])]
                    if r.random() < 0.15 or not good: good = pool         # wrong types sometimes
                    n = r.randint(1, min(len(good), 3))
                    if r.random() < 0.06: n = 0            # an empty side (accepted by the toolbox)
                    if mx is not None and r.random() < 0.15: n = min(len(good), mx + 1)
                    sel = r.sample(good, n)
                    if sel and r.random() < 0.05: sel.append(sel[0])
                    return sel
                left = pick(assoc['leftAsset'], assoc['leftMultiplicity']['max'])
                right = pick(assoc['rightAsset'], assoc['rightMultiplicity']['max'])
                same = [l for l in self.live_l if self.links[l][0] == cls]
                if same and r.random() < 0.15:
                    # the mirror image of a live link of this association (a -> b, then b -> a), where the types allow it
                    _, L0, R0 = self.links[r.choice(same)]
                    if L0 and R0 and all(assoc['leftAsset'] in self.anc(self.type[a]) for a in R0) and all(assoc['rightAsset'] in self.anc(self.type[a]) for a in L0) \
                            and all(a in self.live_a for a in L0 + R0):
                        left, right = list(R0), list(L0)
                if (not left or not right) and any(self.links[l] == (cls, list(left), list(right)) for l in self.live_l):
                    # two value-equal associations can only coexist when one side is empty (no pair to collide on);
                    # pjs compares by value, so `remove_association` then takes the first equal one: the two objects
                    # are interchangeable for the toolbox, not for the object-identity bookkeeping of this harness
                    left = left or [r.choice(self.live_a)]; right = right or [r.choice(self.live_a)]
                self.ops.append({'k': 'add_association', 'cls': cls, 'lf': assoc['leftField'], 'rf': assoc['rightField'], 'left': left, 'right': right})
                if self.predict_assoc_ok(assoc, cls, left, right):
                    l = self.nl; self.nl += 1
                    self.live_l.append(l); self.links[l] = (cls, list(left), list(right))
            elif k == 'set_assoc_extras' and self.live_l:
                self.ops.append({'k': 'set_assoc_extras', 'l': r.choice(self.live_l), 'extras': jtxt({'note': 'n' + str(r.randint(0, 9)) + r.choice(['', '', '\U0001F4CE']), 'w': [1, r.choice([2, 2.5e-08, 1e+16])]})})
            elif k == 'remove_association' and (self.live_l or self.dead_l):
                pool = self.live_l if (self.live_l and r.random() < 0.85) or not self.usable_dead_links() else self.usable_dead_links()
                if not pool: continue
                l = r.choice(pool)
                self.ops.append({'k': 'remove_association', 'l': l})
                if l in self.live_l: self.live_l.remove(l); self.dead_l.append(l)
            elif k == 'remove_asset_from_association' and self.live_l and self.live_a:
                l = r.choice(self.live_l + (self.usable_dead_links()[:1] if r.random() < 0.1 else []))
                members = self.links[l][1] + self.links[l][2] if l in self.links else []
                a = r.choice(members) if members and r.random() < 0.8 else r.choice(self.live_a + self.usable_dead_assets())
                self.ops.append({'k': 'remove_asset_from_association', 'a': a, 'l': l})
                if l in self.live_l and a in self.live_a and a in members:
                    cls, L, R = self.links[l]
                    if (a in L and len(L) == 1) or (a in R and len(R) == 1):
                        self.live_l.remove(l); self.dead_l.append(l)
                    else:
                        if a in L: L.remove(a)
                        if a in R: R.remove(a)
            elif k == 'add_attacker':
                name = r.choice([None, '', 'att', f'att{self.nt}'])
                aid = r.choice([None, None, 0, self.next + 1, r.randint(0, 9)]) if self.explicit_attacker_ids else None
                eff = aid if aid is not None else self.next
                # AttackerAttachment is a dataclass compared by value: two attackers with equal id, name and entry points are
                # indistinguishable for list.remove; keep (id, name) pairs of live attackers distinct
                self.att_keys = getattr(self, 'att_keys', {})
                shown = name if name else f'Attacker:{eff}'
                if (eff, shown) in {self.att_keys[t] for t in self.live_t}:
                    name = f'att{self.nt}x'; shown = name
                self.att_keys[self.nt] = (eff, shown)
                self.ops.append({'k': 'add_attacker', 'name': name, 'id': aid})
                self.next = max(eff + 1, self.next); self.used_ids.add(eff)
                self.live_t.append(self.nt); self.nt += 1
            elif k == 'remove_attacker' and self.live_t:
                t = r.choice(self.live_t); self.live_t.remove(t); self.dead_t.append(t)
                self.ops.append({'k': 'remove_attacker', 't': t})
            elif k in ('add_entry_point', 'remove_entry_point') and self.live_t and self.live_a:
                a = r.choice(self.live_a)
                steps = self.steps_of(self.type[a]) or ['s0']
                self.ops.append({'k': k, 't': r.choice(self.live_t), 'a': a, 'step': r.choice(steps[:3])})   # (AttackerAttachment compares by value: a removed attacker can be indistinguishable from a live twin)
            elif k == 'lookup':
                self.ops.append(self.lookup_op())
        self.ops.append(self.lookup_op())
        return self.ops
    def usable_dead_assets(self):
        # pjs compares objects by value: a removed object that looks like a live one (same id) is not an invalid handle
        live_ids = {self.ids[a] for a in self.live_a}
        return [a for a in self.dead_a if self.ids[a] not in live_ids]
    def usable_dead_links(self):
        live_ids = {self.ids[a] for a in self.live_a}
        def byval(l):
            cls, L, R = self.links[l]; return (cls, [self.ids[a] for a in L], [self.ids[a] for a in R])
        live_vals = [byval(l) for l in self.live_l]
        def ghost(l):
            cls, L, R = self.links[l]
            # (a removed association that looks like a live one - possible when one side is empty - is not an invalid
            #  handle for the toolbox: pjs compares by value)
            return byval(l) not in live_vals and (any(self.ids[a] not in live_ids for a in L + R) or not (L and R))
        return [l for l in self.dead_l if ghost(l)]
    def live_names(self):
        return {self.names_of[a] for a in self.live_a}
    def predict_name(self, name, t, eff):
        taken = self.live_names()
        n = name if name is not None else f'{t}:{eff}'
        if name is not None and n not in taken: return n
        if name is not None: n = f'{n}:{eff}'
        while n in taken: n = f'{n}:{eff}'
        return n
    def drop_asset_from_links(self, a):
        for l in list(self.live_l):
            cls, L, R = self.links[l]
            if a in L or a in R:
                if (a in L and len(L) == 1) or (a in R and len(R) == 1):
                    self.live_l.remove(l); self.dead_l.append(l)
                else:
                    if a in L: L.remove(a)
                    if a in R: R.remove(a)
    def predict_assoc_ok(self, assoc, cls, left, right):
        for sel, decl, mx in ((left, assoc['leftAsset'], assoc['leftMultiplicity']['max']), (right, assoc['rightAsset'], assoc['rightMultiplicity']['max'])):
            if any(decl not in self.anc(self.type[a]) for a in sel): return False
            if mx is not None and len(sel) > mx: return False
            if any(a not in self.live_a for a in sel): return False
            if len({self.names_of[a] for a in sel}) != len(sel): return False
        for l in self.live_l:
            c2, L, R = self.links[l]
            if c2 == cls and any(self.ids[a] in [self.ids[x] for x in L] and self.ids[b] in [self.ids[x] for x in R] for a in left for b in right):
                return False
        return True
    def lookup_op(self):
        fields = sorted({a['leftField'] for a in self.spec['associations']} | {a['rightField'] for a in self.spec['associations']})
        nb = [[a, f] for a in self.live_a for f in fields][:40]
        return {'k': 'lookup', 'ids': sorted(self.used_ids | {-7, self.next}), 'names': sorted(self.used_names | {'zz'}), 'nbrs': nb}
