"""C12 — attack-surface queries follow their definition; incremental = recomputed."""
from __future__ import annotations
import json, random
from ..common import Result, Violation, run_driver, canon_hash
from ..aghist import Impl, Gen, canon_obs, canon_out
from .. import genexec

ASSUMPTIONS = ['the graph is structurally consistent (converse child/parent lists, C09) and attackers mirror nodes (C11)',
               'the nodes passed to the incremental update are reached by the attacker and include every step reached since the surface was computed',
               'float comparison defense_status == 1.0 computed by the real code on values chosen by the harness']
TRUSTED = ['Lean 4.33 kernel', 'axioms: propext, Classical.choice, Quot.sound',
           'hand-written model Model/Query.lean + Model/AGS.lean (tied by this correspondence)',
           'harness/aghist.py, harness/props/c12.py (generators, reference definitions, comparison)']

def trav_ref(n, a):
    if not n.is_viable: return False
    if n.type == 'or': return True
    if n.type == 'and':
        return all((not p.is_necessary) or any(x is a for x in p.compromised_by) for p in n.parents)
    return False

def surface_ref(a):
    return sorted({c.id for r in a.reached_attack_steps for c in r.children if trav_ref(c, a)})

def build_history(rnd):
    """interactive construction: the incremental update gets the surface the real code returned"""
    im = Impl()
    ops = []
    def do(op):
        ops.append(op); return im.step(op)
    n = rnd.randint(3, 9)
    taken = set()
    for i in range(n):
        t = rnd.choices(['or', 'and', 'defense', 'exist'], [4, 6, 2, 1])[0]
        # step names repeat across assets (as in every generated graph: 'access' of A and 'access' of B); only the
        # full name (asset, step) is unique
        while True:
            nm, asset = rnd.choice(['s0', 's1', 's2', f's{i}']), rnd.choice(['A', 'B', 'C', None])
            if asset is None or (asset, nm) not in taken: break
        taken.add((asset, nm))
        do({'k': 'add_node', 'name': nm, 'asset': asset, 'type': t,
            'viable': rnd.random() < 0.8, 'necessary': rnd.random() < 0.7,
            # defense status: exactly 1.0 is "fully enabled"; values next to 1.0 are not
            'defOne': (d1 := (dv := rnd.choice(['1.0', '1.0', '0.5', '0.0', '0.9999999999', '0.9999999999999999'])) == '1.0'),
            'suppress': (sp := rnd.random() < 0.3), 'tags': ['suppress'] if sp else [], 'id': None, **({'defense': dv} if t == 'defense' else {})})
    dens = rnd.choice([1.0, 2.0, 3.0]) / n
    for p in range(n):
        for c in range(n):
            if rnd.random() < dens:
                do({'k': 'link', 'p': p, 'c': c})
                if rnd.random() < 0.25:        # the same edge twice (two step expressions reaching the same target)
                    do({'k': 'link', 'p': p, 'c': c})
    na = rnd.randint(1, 3)
    for a in range(na):
        reached = rnd.sample(range(n), rnd.randint(0, min(3, n)))
        do({'k': 'add_attacker', 'name': f'att{a}', 'id': None, 'entry': [], 'reached': reached})
    checks = []     # (step index, kind, attacker ref, extra)
    surf = {}
    for a in range(na):
        st = do({'k': 'surface', 'a': a}); surf[a] = st['out']; checks.append((len(ops) - 1, 'surface', a))
    do({'k': 'defense_surface'}); checks.append((len(ops) - 1, 'defense_surface', None))
    do({'k': 'enabled_defenses'}); checks.append((len(ops) - 1, 'enabled_defenses', None))
    pending = {a: [] for a in range(na)}      # compromised since the attacker's surface was last brought up to date
    for rounds in range(rnd.randint(1, 4)):
        a = rnd.randrange(na)
        batch = rnd.sample(range(n), rnd.randint(1, min(3, n)))
        for r in batch:
            do({'k': 'compromise', 'a': a, 'n': r, 'side': rnd.choice(['attacker', 'node'])}); pending[a].append(r)
        if rnd.random() < 0.3:
            other = rnd.randrange(na); r = rnd.randrange(n)
            do({'k': 'compromise', 'a': other, 'n': r, 'side': 'attacker'}); pending[other].append(r)
        id2ref = {nd.id: i for i, nd in enumerate(im.nodes)}
        cur = [id2ref[i] for i in surf[a]]
        nodes = list(pending[a]); rnd.shuffle(nodes)
        st = do({'k': 'update_surface', 'a': a, 'cur': cur, 'nodes': nodes}); pending[a] = []
        surf[a] = st['out']; checks.append((len(ops) - 1, 'update', a))
        st = do({'k': 'surface', 'a': a}); checks.append((len(ops) - 1, 'surface', a))
        for _ in range(2):
            do({'k': 'trav', 'a': rnd.randrange(na), 'n': rnd.randrange(n)}); checks.append((len(ops) - 1, 'trav', None))
    if rnd.random() < 0.35:
        # the same questions asked of a deep copy (the copies of the attackers and nodes follow the originals in the
        # harness' object tables): what a copy answers must not depend on bookkeeping that only the original went through
        do({'k': 'deepcopy'})
        for a in range(na):
            do({'k': 'surface', 'a': na + a})
            for _ in range(3): do({'k': 'trav', 'a': na + a, 'n': n + rnd.randrange(n)})
        do({'k': 'defense_surface'}); do({'k': 'enabled_defenses'})
        a = na + rnd.randrange(na); r = n + rnd.randrange(n)
        do({'k': 'compromise', 'a': a, 'n': r, 'side': 'attacker'}); do({'k': 'surface', 'a': a})
    return ops

def oracle(ops):
    """replay on the real code, checking each query against the reference definitions"""
    im = Impl()
    probs = []
    nontriv = False
    prev_obs = None
    for i, op in enumerate(ops):
        before = canon_obs(im.obs()) if op['k'] in ('surface', 'update_surface', 'trav', 'defense_surface', 'enabled_defenses') else None
        if op['k'] == 'update_surface':
            a = im.atts[op['a']]
            old_trav = {id(c) for r in a.reached_attack_steps for c in r.children if trav_ref(c, a)}
        st = im.step(op)
        k = op['k']
        if before is not None and canon_obs(st['obs']) != before:
            probs.append(f'query {k} changed the graph')
        if k == 'trav':
            if st['out'] != trav_ref(im.nodes[op['n']], im.atts[op['a']]):
                probs.append('is_node_traversable_by_attacker differs from its definition')
        elif k == 'surface':
            a = im.atts[op['a']]
            if sorted(st['out']) != surface_ref(a): probs.append('attack surface is not the set of traversable children of reached steps')
            if len(set(st['out'])) != len(st['out']): probs.append('attack surface contains duplicates')
        elif k == 'update_surface':
            a = im.atts[op['a']]
            if sorted(set(st['out'])) != surface_ref(a): probs.append('incrementally updated surface differs from the recomputed one')
            if len(set(st['out'])) != len(st['out']): probs.append('updated attack surface contains duplicates')
            for n in im.nodes:
                if n.type == 'and' and trav_ref(n, a) and any(p.is_necessary for p in n.parents) and n.id in st['out'] and n.id not in [im.nodes[r].id for r in op['cur']]:
                    nontriv = True
        elif k == 'defense_surface':
            want = sorted(n.id for n in im.g.nodes if n.type == 'defense' and 'suppress' not in n.tags and n.defense_status != 1.0)
            if sorted(st['out']) != want: probs.append('defense surface differs from its definition')
        elif k == 'enabled_defenses':
            want = sorted(n.id for n in im.g.nodes if n.type == 'defense' and 'suppress' not in n.tags and n.defense_status == 1.0)
            if sorted(st['out']) != want: probs.append('enabled defenses differ from their definition')
        if probs:
            return probs, i, nontriv
    return [], None, nontriv

# ---- second scenario family: attackers that are not (yet) registered in the graph ---------------------------
def free_case(rnd):
    """several Attacker objects, some not registered with add_attacker (their ids are all None) or registered in another
    graph (ids restart at 0 there), compromise parents of 'and' steps through the public compromise(); every query is
    answered per attacker *object*"""
    from maltoolbox.attackgraph import AttackGraph, AttackGraphNode, Attacker
    from maltoolbox.attackgraph import query
    g1, g2 = AttackGraph(), AttackGraph()
    n = rnd.randint(3, 7)
    nodes = []
    for i in range(n):
        nd = AttackGraphNode(type=rnd.choices(['or', 'and'], [2, 5])[0], name=f's{i}', ttc=None)
        nd.is_viable = rnd.random() < 0.85; nd.is_necessary = rnd.random() < 0.8
        g1.add_node(nd); nodes.append(nd)
    for p in range(n):
        for c in range(n):
            if rnd.random() < 2.0 / n:
                nodes[p].children.append(nodes[c]); nodes[c].parents.append(nodes[p])
    kinds = [rnd.choice(['free', 'free', 'here', 'other']) for _ in range(rnd.randint(2, 4))]
    atts = []
    for j, kind in enumerate(kinds):
        a = Attacker(name=rnd.choice(['att', f'att{j}']), entry_points=[], reached_attack_steps=[])
        if kind == 'here': g1.add_attacker(a)
        elif kind == 'other': g2.add_attacker(a)
        atts.append(a)
    log = []
    for _ in range(rnd.randint(2, 10)):
        a = rnd.choice(atts); nd = rnd.choice(nodes)
        a.compromise(nd); log.append(f'compromise {nd.name} by {kinds[atts.index(a)]}#{atts.index(a)}')
    def ask_all():
        for j, a in enumerate(atts):
            for nd in nodes:
                got = query.is_node_traversable_by_attacker(nd, a)
                if got != trav_ref(nd, a):
                    return f'is_node_traversable_by_attacker({nd.name}, attacker #{j} [{kinds[j]}, id {a.id}]) is {got}, its definition says {trav_ref(nd, a)}'
            got = query.get_attack_surface(a)
            if sorted(x.id for x in got) != surface_ref(a):
                return f'attack surface of attacker #{j} [{kinds[j]}, id {a.id}] is not the set of traversable children of its reached steps'
        return None
    bad = ask_all()
    # the labels are state like any other: an analysis that runs again after the first round of queries (a defense was
    # switched) relabels nodes while every parent list keeps its length; the answers must follow the labels as they
    # are *now*, and a further compromise after that as well
    for _ in range(rnd.randint(0, 2)):
        if bad: break
        for nd in rnd.sample(nodes, rnd.randint(1, len(nodes))):
            if rnd.random() < 0.7: nd.is_necessary = not nd.is_necessary; log.append(f'relabel {nd.name}.is_necessary={nd.is_necessary}')
            if rnd.random() < 0.3: nd.is_viable = not nd.is_viable; log.append(f'relabel {nd.name}.is_viable={nd.is_viable}')
        if rnd.random() < 0.5:
            a = rnd.choice(atts); nd = rnd.choice(nodes)
            a.compromise(nd); log.append(f'compromise {nd.name} by {kinds[atts.index(a)]}#{atts.index(a)}')
        bad = ask_all()
        if bad: bad += ' (after the labels were changed between two rounds of queries)'
    return bad, {'kinds': kinds, 'log': log}

# ---- third scenario family: queries on generated graphs, before and after regeneration -----------------------
def generated_case(rnd):
    """language + model -> generated graph with attached attackers; the defense queries and the attack surfaces are
    asked, the model is edited (a defense value flipped), the graph regenerated, and everything asked again: each
    answer must be the definition evaluated on the nodes that are in the graph *now*"""
    from ..langgen import LangGen, gen_model, build_lang, build_model
    from maltoolbox.attackgraph import AttackGraph, query
    from maltoolbox.attackgraph.analyzers import apriori
    spec = LangGen(rnd).gen(); inst = gen_model(rnd, spec)
    lg, fac = build_lang(spec); m, byid = build_model(fac, inst)
    g = AttackGraph(lg, m)
    steps = []
    def ask(tag):
        ds = query.get_defense_surface(g); en = query.get_enabled_defenses(g)
        inside = {id(x) for x in g.nodes}
        for nm, got, one in (('defense surface', ds, False), ('enabled defenses', en, True)):
            if any(id(x) not in inside for x in got):
                return f'{nm} ({tag}) contains a node that is not in the graph'
            want = sorted(x.id for x in g.nodes if x.type == 'defense' and 'suppress' not in x.tags and ((x.defense_status == 1.0) == one))
            if sorted(x.id for x in got) != want:
                return f'{nm} ({tag}) differs from its definition'
        for a in g.attackers:
            got = query.get_attack_surface(a)
            if sorted(x.id for x in got) != surface_ref(a) or any(id(x) not in inside for x in got):
                return f'attack surface ({tag}) is not the set of traversable children of the reached steps'
        return None
    bad = ask('after generation'); steps.append('queries')
    for round_ in range(rnd.randint(1, 2)):
        if bad: break
        # edit the model: flip a defense of some asset, then regenerate
        cands = [(a, d) for a in m.assets for d in m.get_asset_defenses(a, include_defaults=True)]
        if cands:
            a, d = rnd.choice(cands)
            setattr(a, d, 0.0 if float(getattr(a, d)) == 1.0 else 1.0); steps.append(f'flip {a.name}.{d}')
        g.regenerate_graph(); steps.append('regenerate')
        if rnd.random() < 0.5:
            apriori.calculate_viability_and_necessity(g); steps.append('analyse')
        bad = ask(f'after regeneration {round_ + 1}')
    return bad, {'spec': spec, 'inst': inst, 'steps': steps}

def run(seed, tier, lean) -> Result:
    res = _run(seed, tier, lean)
    r = random.Random(seed ^ 0xC12)
    for _ in range(300 if tier == 'quick' else 1800):
        cs = r.getrandbits(48)
        from ..common import debug_logging, log_turn
        with debug_logging(log_turn()): bad, info = free_case(random.Random(cs))
        res.evaluations += 1; res.bump('free_attacker_cases')
        if info['kinds'].count('free') >= 2: res.nontrivial.add(canon_hash(['free', cs]))
        if bad:
            res.violations.append(Violation(what='attackers not registered in the graph: ' + bad, fingerprint='C12:free:' + bad.split('(')[0][:40],
                                            replay={'free_seed': cs, **info, 'problem': bad}))
            break
    for _ in range(100 if tier == 'quick' else 600):
        cs = r.getrandbits(48)
        from ..common import guarded
        done, bi = guarded(res, generated_case, random.Random(cs))
        if not done: continue
        bad, info = bi
        res.evaluations += 1; res.bump('generated_graph_cases')
        if bad:
            res.violations.append(Violation(what=f'{bad} (graph generated from a language and model; steps: {info["steps"]})',
                                            fingerprint='C12:generated:' + bad.split(' (')[0][:40], replay={'generated_seed': cs, **info, 'problem': bad}))
            break
    return res

def _run(seed, tier, lean) -> Result:
    rnd = random.Random(seed)
    res = Result(rule='random labelled graphs (3-9 nodes, self-loops, duplicate edges), 1-3 attackers, batches of compromises '
                      'after each of which the surface is updated incrementally and recomputed; every query result is '
                      'compared with the reference definition on the real objects and with the Lean model; the graph '
                      'state is compared before/after each query; non-trivial = an and-step with a necessary parent '
                      'enters the surface through an incremental update')
    n = 500 if tier == 'quick' else 3000
    hists = [build_history(random.Random(rnd.getrandbits(48))) for _ in range(n)]
    model = gen = None
    if lean['build_ok']:
        # third column: the same histories executed with the GENERATED code (Py/Gen/Query.lean, …)
        model, gen = genexec.run_both([{'op': 'ag_hist', 'case': i, 'ops': h} for i, h in enumerate(hists)], 'gen_ag_hist', every=2)
    for hi, ops in enumerate(hists):
        res.evaluations += 1
        probs, at, nontriv = oracle(ops)
        if nontriv: res.nontrivial.add(canon_hash(ops))
        for o in ops: res.bump(o['k'])
        if probs:
            prefix = ops[:at + 1]
            res.violations.append(Violation(what=f'{probs[0]} ({len(prefix)} operations)', fingerprint='C12:' + probs[0],
                                            replay={'ops': prefix, 'problems': probs}))
            continue
        if model is not None:
            if 'error' in model[hi]:
                res.violations.append(Violation(what='driver rejected a history: ' + model[hi]['error'], fingerprint='C12:driver-error',
                                                replay={'ops': ops}, no_failing_input=True)); continue
            im = Impl()
            go_steps = None
            if gen[hi] is None: pass                  # every second history gets the third column
            elif 'error' in gen[hi]:
                res.violations.append(genexec.driver_error('C12', gen[hi]['error'], {'ops': ops}))
            else:
                go_steps = gen[hi]['model']
            for i, op in enumerate(ops):
                st = im.step(op); mo = model[hi]['model'][i]
                a = [st['err'], canon_out(op, st['out']), canon_obs(st['obs'])]
                b = [mo['err'], canon_out(op, mo['out']), canon_obs(mo['obs'])]
                if a != b:
                    res.violations.append(Violation(what=f'implementation and Lean model disagree at step {i} ({op["k"]}); reference definitions are met',
                        fingerprint=f'C12:model-divergence:{op["k"]}', replay={'ops': ops[:i + 1], 'impl': a, 'model': b}, no_failing_input=True))
                    break
                if st['out'] != mo['out']: res.drift += 1
                if go_steps is not None:
                    go = go_steps[i]
                    res.bump('generated_code_steps_compared')
                    if not genexec.ag_step_same(op, st, a, go, canon_obs, canon_out):
                        res.violations.append(genexec.divergence('C12', op['k'], f'at step {i} ({op["k"]}) of a history',
                            {'ops': ops[:i + 1], 'impl': [st['err'], st['out'], st['obs'], st['other']],
                             'generated': [go['err'], go['out'], go['obs'], go['other']], 'hand_model': b}))
                        break
        if len(res.samples) < 2: res.samples.append({'ops': ops[:14]})
    return res

def replay(path):
    r = json.load(open(path))
    if 'free_seed' in r or 'generated_seed' in r:
        bad, _ = free_case(random.Random(r['free_seed'])) if 'free_seed' in r else generated_case(random.Random(r['generated_seed']))
        print(bad); print('VIOLATION reproduced' if bad else 'not reproduced'); return 1 if bad else 0
    probs, at, _ = oracle(r['ops'])
    print('problems:', probs); print('VIOLATION reproduced' if probs else 'not reproduced')
    return 1 if probs else 0
