"""C18 — legacy model loaders agree with the native loader."""
from __future__ import annotations
import json, os, random, shutil, zipfile
from xml.sax.saxutils import quoteattr
from ..common import Result, Violation, run_driver, canon_hash, scratch
from ..langgen import LangGen, lang_payload, jtxt
from ..mhist import Impl, Gen, canon_obs
from .. import genexec

ASSUMPTIONS = [
    'the XML / zip layer: xml.etree, zipfile and the harness rendering of the abstract securiCAD document (objects with nested evidenceAttributes / evidenceDistribution / parameters, associations) are assumed and exercised through real archives',
    'json / PyYAML as in C07',
    'the legacy formats cannot express extras, attacker names (securiCAD) or n-ary links (securiCAD: emitted pairwise); equivalence is asserted on assets (id, name, type, defense values), pairwise links and attacker entry points, as the property states',
]
TRUSTED = ['Lean 4.33 kernel', 'axioms: propext, Classical.choice, Quot.sound',
           'hand-written model Model/Legacy.lean over Model/MState.lean, Serial.lean, LangGraph.lean (tied by this correspondence)',
           'harness/props/c18.py (emitters, XML rendering), harness/mhist.py']
WEIGHTS = {'add_asset': 12, 'remove_asset': 1, 'add_association': 10, 'add_attacker': 3, 'add_entry_point': 8, 'remove_entry_point': 1}

def view(m, pairwise):
    """what must agree: assets, (pairwise) links, attacker entry points"""
    links = []
    for a in m.associations:
        lf, rf = m.get_association_field_names(a)
        L, R = [int(x.id) for x in getattr(a, lf)], [int(x.id) for x in getattr(a, rf)]
        if pairwise: links += [[type(a).__name__, str(lf), x, str(rf), y] for x in L for y in R]
        else: links.append([type(a).__name__, str(lf), sorted(L), str(rf), sorted(R)])
    return {'assets': sorted([int(a.id), str(a.name), str(a.type), sorted([k, float(v)] for k, v in m.get_asset_defenses(a, include_defaults=True).items())] for a in m.assets),
            'links': sorted(links),
            'entry_points': sorted([int(t.id), sorted([int(a.id), sorted(s)] for a, s in t.entry_points)] for t in m.attackers)}

def emit_old(d, nested):
    out = {'metadata': d['metadata'], 'assets': {}, 'associations': [], 'attackers': d['attackers']}
    for k, v in d['assets'].items():
        out['assets'][k] = {'name': v['name'], 'metaconcept': v['type'], **({'defenses': v['defenses']} if 'defenses' in v else {})}
    for e in d['associations']:
        cls = [k for k in e if k != 'extras'][0]
        out['associations'].append({'metaconcept': cls, 'association': e[cls]} if nested else {'metaconcept': cls, **e[cls]})
    return out

# asset names beyond ASCII (json.dump escapes a non-BMP character as a surrogate PAIR: a reader must join it again)
NAMES = ['A', 'B', 'srv\U0001F600', 'é€', 'two words']

def emit_scad_xml(m):
    def cap(s): return s[0].upper() + s[1:]
    lines = ['<?xml version="1.0" encoding="utf-8"?>',
             '<com.foreseeti.kernalCAD:XMIObjectModel xmi:version="2.0" xmlns:xmi="http://www.omg.org/XMI" xmlns:com.foreseeti.kernalCAD="http:///com/foreseeti/ObjectModel.ecore">']
    for a in m.assets:
        lines.append(f'  <objects description="" id="{int(a.id)}" name={quoteattr(str(a.name))} metaConcept="{a.type}" template="false">')
        for k, v in m.get_asset_defenses(a).items():
            lines.append(f'    <evidenceAttributes metaConcept="{cap(k)}"><evidenceDistribution type="Bernoulli"><parameters name="probability" value="{float(v)!r}"/></evidenceDistribution></evidenceAttributes>')
        lines.append('    <evidenceAttributes metaConcept="SomethingWithoutValue"/>')
        lines.append('  </objects>')
    for t in m.attackers:
        lines.append(f'  <objects description="" id="{int(t.id)}" name={quoteattr(str(t.name))} metaConcept="Attacker" template="false"><evidenceAttributes metaConcept="EntryPoint"/></objects>')
    spell = 0
    for assoc in m.associations:
        lf, rf = m.get_association_field_names(assoc)
        for x in getattr(assoc, lf):
            for y in getattr(assoc, rf):
                # securiCAD writes a link from either end: (source y, target x, properties lf / rf) and
                # (source x, target y, properties rf / lf) are the same link
                spell += 1
                if spell % 3 != 2: lines.append(f'  <associations description="" sourceObject="{int(y.id)}" targetObject="{int(x.id)}" sourceProperty="{lf}" targetProperty="{rf}"/>')
                else: lines.append(f'  <associations description="" sourceObject="{int(x.id)}" targetObject="{int(y.id)}" sourceProperty="{rf}" targetProperty="{lf}"/>')
    flip = False
    for t in m.attackers:
        for a, steps in t.entry_points:
            for st in steps:
                flip = not flip            # securiCAD writes the attacker on either side
                if flip: lines.append(f'  <associations description="" sourceObject="{int(t.id)}" targetObject="{int(a.id)}" sourceProperty="firstSteps" targetProperty="{st}.attacker"/>')
                else: lines.append(f'  <associations description="" sourceObject="{int(a.id)}" targetObject="{int(t.id)}" sourceProperty="{st}.attacker" targetProperty="firstSteps"/>')
    lines.append('</com.foreseeti.kernalCAD:XMIObjectModel>')
    return '\n'.join(lines)

# --------------------------------------------------------------------------------------------------------------------
# the third column (notes/NOTES_genexec2_legneo.md): the GENERATED loaders (`Py/GenLegacy`, driver op `gen_legacy`) on the
# very file the real loader read - what the two layers of the file boundary return for it (`json.loads` / `yaml.safe_load`
# resp. zipfile + xml.etree), not a document recomputed from the history
def pyj(x):
    """a value of the JSON / YAML layer in the driver's tagged form (`GenXLeg.parsePyJ`); `None` inside = not expressible"""
    if x is None or isinstance(x, (bool, str)): return x
    if isinstance(x, int): return {'i': str(x)}
    if isinstance(x, float): return {'f': repr(x)}
    if isinstance(x, list): return [pyj(e) for e in x]
    if isinstance(x, dict):
        for k in x:
            if isinstance(k, bool) or not isinstance(k, (str, int)): raise TypeError('key outside str / int')
        return {'d': [[pyj(k), pyj(v)] for k, v in x.items()]}
    raise TypeError(type(x).__name__)

def read_layers(path, both=True):
    """what `json.loads(f.read())` and `yaml.safe_load(f)` return for the file (or the class of what they raise)"""
    import yaml
    txt = open(path, 'r', encoding='utf-8').read()
    out = {}
    first = 'json' if path.endswith('.json') else 'yaml'
    for k, f in (('json', json.loads), ('yaml', yaml.safe_load)):
        if not both and k != first: continue
        try: out[k] = pyj(f(txt))
        except ValueError: out[k] = {'raises': 'ValueError'}          # json.JSONDecodeError
        except Exception as e: out[k] = {'raises': type(e).__name__}
    return out

def read_eom(path):
    """the parsed `.eom` member as the abstract archive of the prelude (`Legacy.ScadDoc`): objects with `int(id)` and the
    (metaConcept, value) pairs of evidenceAttributes / evidenceDistribution / parameters[@value]; associations"""
    import xml.etree.ElementTree as ET
    with zipfile.ZipFile(path, 'r') as z:
        root = ET.fromstring(z.read(next(filter(lambda x: x[-4:] == '.eom', z.namelist()))))
    objs = []
    for ch in root.iter('objects'):
        defs = [[sub.attrib['metaConcept'], d.attrib['value']] for sub in ch.iter('evidenceAttributes')
                for dist in sub.iter('evidenceDistribution') for d in dist.iter('parameters') if 'value' in d.attrib]
        objs.append({'id': int(ch.attrib['id']), 'name': ch.attrib['name'], 'metaConcept': ch.attrib['metaConcept'], 'defenses': defs})
    return {'objects': objs,
            'associations': [{'sourceObject': int(c.attrib['sourceObject']), 'targetObject': int(c.attrib['targetObject']),
                              'sourceProperty': c.attrib['sourceProperty'], 'targetProperty': c.attrib['targetProperty']} for c in root.iter('associations')]}

ERR_NAMES = ('ValueError', 'LookupError', 'DuplicateModelAssociationError', 'ModelAssociationException', 'KeyError', 'AttributeError',
             'AssertionError', 'RecursionError', 'ValidationError', 'TypeError')
def err_class(e):
    """the class of an exception in the vocabulary of the prelude (`LErr` / `PyM.PyErr`): its own name when listed, everything
    else (IndexError - although a LookupError by inheritance -, OSError …) is `OtherError`, as `PyErr.other` in the prelude"""
    n = type(e).__name__
    return n if n in ERR_NAMES else 'OtherError'

def impl_result(got):
    """what a real loader returned, in the form of the driver's answer"""
    if got is None: return {'none': True}
    im2 = Impl.__new__(Impl); im2.m = got
    try: return {'loaded': Impl.obs(im2), 'name': got.name}
    except Exception as e: return {'unobservable': type(e).__name__}      # e.g. an entry point `(None, steps)`

def gen_same(ir, go):
    """implementation result `ir` against the answer `go` of `gen_legacy`: outcome kind, error class, the model name and the
    WHOLE canonical state (assets with defenses / extras / back-references, associations, attackers with names and entry
    points, reserved ids / names, type index sizes, next id).  Returns None when equal, else what differs."""
    kind = lambda r: 'loaded' if 'loaded' in r else 'none' if 'none' in r else 'error'
    if kind(ir) != kind(go): return f'outcome: implementation {kind(ir)} {ir.get("error", "")}, generated {kind(go)} {go.get("error", "")}'
    if 'error' in ir: return None if ir['error'] == go['error'] else f'exception class: implementation {ir["error"]}, generated {go["error"]}'
    if 'none' in ir: return None
    if ir['name'] != go['name']: return 'model name'
    x, y = canon_obs(ir['loaded']), canon_obs(go['loaded'])
    diff = [k for k in x if x[k] != y[k]]
    return ('state: ' + ','.join(diff)) if diff else None

# --------------------------------------------------------------------------------------------------------------------
# malformed / hand-edited variants of the legacy files: implementation vs GENERATED code only (the hand-written model reads
# typed documents; the property says nothing about such files).  What is exercised: the exception classes and the order of
# the checks of the translated loaders, `d.get` defaults, the shorthand asset entry, scalar members, `return None`.
OLD_MUTS = ['asset_class', 'asset_key', 'key_zero', 'dup_key', 'defense_range', 'defense_name', 'defense_int', 'member_unknown', 'member_text',
            'assoc_class', 'shorthand', 'no_attackers', 'no_metadata', 'no_assocs', 'ep_unknown', 'ep_text', 'attacker_key', 'attacker_noname',
            'attacker_emptyname', 'attacker_name_missing', 'version', 'extension', 'scalar_member', 'no_name', 'swapped_fields']
OLD_MUTS += ['name_not_str', 'name_null', 'key_spelling']
# `name_not_str` (an asset entry `"name": 7`: python_jsonschema_objects keeps it as an additional property), `key_spelling` (asset key
# "+5" / " 5" / "5\t": CPython's `int` accepts it, `String.toInt?` does not): the two findings of notes/NOTES_genexec2_legneo.md,
# REPAIRED in `PreludeLegacy` (`nsNewAsset`, `jInt` answer `unmodelled` there) - drawn again, counted as not comparable;
# `name_null` (`"name": null`: the constructor sets nothing, `add_asset` gives the default name) is compared.
SCAD_MUTS = ['obj_class', 'assoc_unknown_obj', 'ep_unknown_attacker', 'ep_unknown_asset', 'field_wrong', 'dup_obj_id', 'defense_range',
             'defense_unknown', 'empty_evidence', 'two_params', 'ends_swapped', 'attacker_first', 'dup_attacker_id']

def mutate_old(d, rnd, kind=None):
    """one edit of a 0.0.39 document (as `emit_old` made it).  Returns (kind, file extension or None, version, badFloats) or None
    when the drawn edit does not apply to this document."""
    kind = kind or rnd.choice(OLD_MUTS)
    ext, version, bad = None, '0.0.39', []
    akeys = [k for k, v in d['assets'].items() if isinstance(v, dict)]
    fields = lambda e: e['association'] if 'association' in e else e
    fnames = lambda e: [f for f in fields(e) if f != 'metaconcept']
    def rekey(dct, old, new): return {(new if k == old else k): v for k, v in dct.items()}
    if kind in ('asset_class', 'asset_key', 'key_zero', 'key_spelling', 'dup_key', 'defense_range', 'defense_name', 'defense_int', 'shorthand', 'no_name', 'name_not_str', 'name_null'):
        if not akeys: return None
        k = rnd.choice(akeys); v = d['assets'][k]
        if kind == 'asset_class': v['metaconcept'] = 'NoSuchClass'
        elif kind == 'asset_key': d['assets'] = rekey(d['assets'], k, 'x' + str(k))
        elif kind == 'key_zero':
            if str(k).startswith('-'): return None
            d['assets'] = rekey(d['assets'], k, '0' + str(k))
        elif kind == 'key_spelling':
            if str(k).startswith('-'): return None
            d['assets'] = rekey(d['assets'], k, rnd.choice(['+' + str(k), ' ' + str(k), str(k) + '\t', '\u0665' + str(k)]))
        elif kind == 'dup_key':
            if str(k).startswith('-'): return None
            d['assets']['00' + str(k)] = dict(v)
        elif kind == 'defense_range':
            if not v.get('defenses'): return None
            v['defenses'][rnd.choice(sorted(v['defenses']))] = rnd.choice([1.5, -0.25]); bad = ['1.5', '-0.25']
        elif kind == 'defense_name': v.setdefault('defenses', {})['noSuchDefense'] = 0.5
        elif kind == 'defense_int':
            if not v.get('defenses'): return None
            v['defenses'][rnd.choice(sorted(v['defenses']))] = 1
        elif kind == 'shorthand': d['assets'][k] = v['metaconcept']
        elif kind == 'no_name': del v['name']
        elif kind == 'name_not_str': v['name'] = rnd.choice([7, 2.5, True, ['a']])
        elif kind == 'name_null': v['name'] = None
    elif kind in ('member_unknown', 'member_text', 'assoc_class', 'scalar_member', 'swapped_fields'):
        if not d['associations']: return None
        e = rnd.choice(d['associations'])
        if kind == 'assoc_class': e['metaconcept'] = 'NoSuchAssociation'
        elif kind == 'member_unknown': fields(e)[rnd.choice(fnames(e))].append(987654)
        elif kind == 'member_text': fields(e)[rnd.choice(fnames(e))].append('abc')
        elif kind == 'scalar_member':
            one = [f for f in fnames(e) if len(fields(e)[f]) == 1]
            if not one: return None
            fields(e)[one[0]] = fields(e)[one[0]][0]
        elif kind == 'swapped_fields':
            fs = fields(e); items = [(f, fs[f]) for f in fnames(e)]
            for f, _ in items: del fs[f]
            for f, x in reversed(items): fs[f] = x
    elif kind in ('ep_unknown', 'ep_text', 'attacker_key', 'attacker_noname', 'attacker_emptyname', 'attacker_name_missing'):
        if not d['attackers']: return None
        k = rnd.choice(list(d['attackers'])); t = d['attackers'][k]
        if kind == 'ep_unknown': t['entry_points']['987654'] = {'attack_steps': ['x']}
        elif kind == 'ep_text': t['entry_points']['abc'] = {'attack_steps': ['x']}
        elif kind == 'attacker_key': d['attackers'] = rekey(d['attackers'], k, 'x' + str(k))
        elif kind == 'attacker_noname': t['name'] = None
        elif kind == 'attacker_emptyname': t['name'] = ''
        elif kind == 'attacker_name_missing': del t['name']
    elif kind == 'no_attackers': del d['attackers']
    elif kind == 'no_metadata': del d['metadata']
    elif kind == 'no_assocs': del d['associations']
    elif kind == 'version': version = rnd.choice(['0.0.38', '0.0.390', ''])
    elif kind == 'extension': ext = rnd.choice(['txt', 'jsn', 'JSON', 'yaml.bak'])
    return kind, ext, version, bad

def mutate_scad(xml, rnd):
    """one edit of the `.eom` document.  Returns (kind, xml text, badFloats) or None."""
    import xml.etree.ElementTree as ET
    kind = rnd.choice(SCAD_MUTS)
    root = ET.fromstring(xml); bad = []
    objs = [o for o in root.iter('objects') if o.attrib['metaConcept'] != 'Attacker']
    atts = [o for o in root.iter('objects') if o.attrib['metaConcept'] == 'Attacker']
    links = [a for a in root.iter('associations') if 'firstSteps' not in (a.attrib['sourceProperty'], a.attrib['targetProperty'])]
    eps = [a for a in root.iter('associations') if 'firstSteps' in (a.attrib['sourceProperty'], a.attrib['targetProperty'])]
    def evidence(o, name, values):
        ev = ET.SubElement(o, 'evidenceAttributes', {'metaConcept': name}); dist = ET.SubElement(ev, 'evidenceDistribution', {'type': 'Bernoulli'})
        for x in values: ET.SubElement(dist, 'parameters', {'name': 'probability', 'value': x})
    def known(o):
        names = [e.attrib['metaConcept'] for e in o.iter('evidenceAttributes') if any(True for _ in e.iter('parameters'))]
        return rnd.choice(names) if names else None
    if kind in ('obj_class', 'dup_obj_id', 'defense_range', 'defense_unknown', 'empty_evidence', 'two_params'):
        if not objs: return None
        o = rnd.choice(objs)
        if kind == 'obj_class': o.set('metaConcept', 'NoSuchClass')
        elif kind == 'dup_obj_id': root.insert(list(root).index(o) + 1, ET.fromstring(ET.tostring(o)))
        elif kind == 'defense_unknown': evidence(o, 'NoSuchDefense', ['0.5'])
        elif kind == 'empty_evidence': evidence(o, '', ['0.5'])
        else:
            n = known(o)
            if n is None: return None
            if kind == 'defense_range': evidence(o, n, [rnd.choice(['1.5', '-0.25'])]); bad = ['1.5', '-0.25']
            else: evidence(o, n, ['0.25', '0.75'])
    elif kind in ('assoc_unknown_obj', 'field_wrong', 'ends_swapped'):
        if not links: return None
        a = rnd.choice(links)
        if kind == 'assoc_unknown_obj': a.set(rnd.choice(['sourceObject', 'targetObject']), '987654')
        elif kind == 'field_wrong': a.set(rnd.choice(['sourceProperty', 'targetProperty']), 'noSuchField')
        else: s, t = a.attrib['sourceObject'], a.attrib['targetObject']; a.set('sourceObject', t); a.set('targetObject', s)
    elif kind in ('ep_unknown_attacker', 'ep_unknown_asset'):
        if not eps: return None
        a = rnd.choice(eps)
        att_side = 'sourceObject' if a.attrib['sourceProperty'] == 'firstSteps' else 'targetObject'
        other = 'targetObject' if att_side == 'sourceObject' else 'sourceObject'
        a.set(att_side if kind == 'ep_unknown_attacker' else other, '987654')
    elif kind == 'attacker_first':                 # the Attacker objects before the assets: ids / next_id in another order
        if not atts or not objs: return None
        for t in atts: root.remove(t)
        for i, t in enumerate(atts): root.insert(i, t)
    elif kind == 'dup_attacker_id':
        if not atts: return None
        root.append(ET.fromstring(ET.tostring(atts[0])))
    return kind, ET.tostring(root, encoding='unicode'), bad

def malformed_variant(which, im, m, doc, fmt, rnd, kind=None):
    """derive one malformed file from the case's model, run the REAL loader on it; returns {'kind', 'gen' (payload), 'impl'} or None"""
    from maltoolbox.translators import updater, securicad
    from maltoolbox.file_utils import save_dict_to_file
    d = scratch()
    if which == 'old':
        od = emit_old(json.loads(json.dumps(doc)), rnd.random() < 0.5)
        mu = mutate_old(od, rnd, kind)
        if mu is None: return None
        kind, ext, version, bad = mu
        wpath = os.path.join(d, 'odd.' + fmt); save_dict_to_file(wpath, od)
        path = wpath if ext is None else os.path.join(d, 'odd.' + ext)
        if path != wpath: shutil.copyfile(wpath, path)
        try: gen = {'which': 'old', 'file': path, 'version': version, 'badFloats': bad, **read_layers(wpath)}
        except TypeError: return None
        try: impl = impl_result(updater.load_model_from_older_version(path, im.fac, version))
        except Exception as e: impl = {'error': err_class(e)}
    else:
        mu = mutate_scad(emit_scad_xml(m), rnd)
        if mu is None: return None
        kind, xml, bad = mu
        path = os.path.join(d, 'odd.sCAD')
        with zipfile.ZipFile(path, 'w') as z:
            z.writestr('meta.json', '{}'); z.writestr('model.eom', xml)
        gen = {'which': 'scad', 'file': path, 'badFloats': bad, 'eom': read_eom(path)}
        try: impl = impl_result(securicad.load_model_from_scad_archive(path, im.lg, im.fac))
        except Exception as e: impl = {'error': err_class(e)}
    return {'kind': f'{which}:{kind}', 'gen': gen, 'impl': impl}

def finish_malformed(st, go, res):
    """implementation vs generated code on the malformed variant of a case"""
    mv = st['mal']
    rp = {'spec': st['spec'], 'ops': st['ops'], 'which': st['which'], 'malformed': mv['kind'], 'payload': mv['gen']}
    if 'error' in go: return genexec.driver_error('C18', go['error'], rp)
    g, ir = go['model'], mv['impl']
    out = 'loads' if 'loaded' in ir else 'None' if 'none' in ir else ir.get('error') or 'unobservable'
    if 'skip' in g or g.get('error') == 'unmodelled' or 'unobservable' in ir:
        if res: res.bump(f'malformed_not_comparable:{mv["kind"]} -> {out} / ' + (g.get('skip') or g.get('error') or 'loads'))
        return None
    if res: res.bump('generated_code_malformed_files_compared'); res.bump(f'malformed:{mv["kind"]} -> {out}')
    d = gen_same(ir, g)
    if d is not None:
        return genexec.divergence('C18', 'load_model_from_older_version' if st['which'] == 'old' else 'load_model_from_scad_archive',
                                  f'on a malformed {st["which"]} file ({mv["kind"]}; {d})', {**rp, 'impl': ir, 'generated': g})
    return None

def prepare_case(spec, ops, which, rnd, mal=False):
    """the real side of one case: history, files, the real loaders.  Returns the state `finish_case` needs; `st['gen']` is
    the payload of the generated column (without `lang`), `st['impl']` what the real legacy loader returned / raised"""
    from maltoolbox.model import Model
    from maltoolbox.translators import updater, securicad
    st = {'spec': spec, 'ops': ops, 'which': which, 'hand': True, 'gen': None, 'impl': None, 'v': None, 'note': None, 'both_layers': True, 'mal': None}
    im = Impl(spec)
    for op in ops: im.step(op)
    m = im.m
    ids = [t.id for t in m.attackers]
    if len(set(ids)) != len(ids): st['note'] = 'skipped: duplicate attacker ids (KF-C07-1)'; return st
    d = scratch()
    native_path = os.path.join(d, 'native.json'); m.save_to_file(native_path)
    ref = Model.load_from_file(native_path, im.fac)
    try:
        if which == 'old':
            fmt = rnd.choice(['json', 'yml', 'yaml'])
            path = os.path.join(d, 'old.' + fmt)
            from maltoolbox.file_utils import save_dict_to_file
            doc = json.load(open(native_path))
            if rnd.random() < 0.3:
                # ids as exported from securiCAD: 64-bit numbers that no float represents exactly.  Both files are
                # renumbered alike (0 stays 0, signs are kept).
                big = lambda i: int(i) * 9007199254740993
                doc['assets'] = {str(big(k)): v for k, v in doc['assets'].items()}
                for e in doc['associations']:
                    cls = [k for k in e if k != 'extras'][0]
                    e[cls] = {f: [big(i) for i in ids] for f, ids in e[cls].items()}
                for t in doc['attackers'].values():
                    t['entry_points'] = {str(big(k)): v for k, v in t['entry_points'].items()}
                renum = os.path.join(d, 'native_big.json'); json.dump(doc, open(renum, 'w'))
                ref = Model.load_from_file(renum, im.fac)
                st['hand'] = False
            if rnd.random() < 0.5 and len(doc['assets']) >= 2:
                # a hand-edited file: assets listed in another order, and (sometimes) two assets with the same name —
                # both loaders resolve the clash in the order of the file.  The equivalent native file is edited alike.
                items = list(doc['assets'].items()); rnd.shuffle(items)
                if rnd.random() < 0.6:
                    (k1, v1), (k2, v2) = items[0], items[1]
                    if isinstance(v1, dict) and isinstance(v2, dict): v2['name'] = v1['name']
                doc['assets'] = dict(items)
                edited = os.path.join(d, 'native_edited.' + fmt)       # same file format: PyYAML lists keys sorted, JSON as given
                save_dict_to_file(edited, doc)
                ref = Model.load_from_file(edited, im.fac)
                st['hand'] = False                 # the Lean side computes the document from the history, not from the edited file
            save_dict_to_file(path, emit_old(doc, rnd.random() < 0.5))
            try: st['gen'] = {'which': 'old', 'file': path, 'version': '0.0.39', **read_layers(path, both=st['both_layers'])}
            except TypeError as e: st['note'] = f'generated column skipped: {e}'
            got = updater.load_model_from_older_version(path, im.fac, '0.0.39')
            st['impl'] = impl_result(got)
            a, b = view(got, False), view(ref, False)
        else:
            path = os.path.join(d, 'model.sCAD')
            with zipfile.ZipFile(path, 'w') as z:
                z.writestr('model.eom', emit_scad_xml(m)); z.writestr('meta.json', '{}')
            st['gen'] = {'which': 'scad', 'file': path, 'eom': read_eom(path)}
            got = securicad.load_model_from_scad_archive(path, im.lg, im.fac)
            st['impl'] = impl_result(got)
            if got is None: raise LookupError('loader returned None')
            a, b = view(got, True), view(ref, True)
    except Exception as e:
        if st['impl'] is None: st['impl'] = {'error': err_class(e)}
        st['v'] = Violation(what=f'the {which} loader fails on a model the native loader accepts: {type(e).__name__}: {str(e)[:100]}',
                            fingerprint=f'C18:{which}-loader-raises:{type(e).__name__}', replay={'spec': spec, 'ops': ops, 'which': which})
        return st
    if a != b:
        diff = [k for k in a if a[k] != b[k]]
        st['v'] = Violation(what=f'the {which} loader and the native loader disagree on {diff}', fingerprint=f'C18:{which}:' + ','.join(diff),
                            replay={'spec': spec, 'ops': ops, 'which': which, 'legacy': {k: a[k] for k in diff}, 'native': {k: b[k] for k in diff}})
    if mal and st['v'] is None:
        # (own random stream, drawn after everything the case itself draws)
        st['mal'] = malformed_variant(which, im, m, doc if which == 'old' else None, fmt if which == 'old' else None, random.Random(rnd.getrandbits(48)))
    return st

def hand_diff(st, mo):
    """the hand-written model of the loader against the implementation (as before the third column): None when they agree"""
    which = st['which']
    if 'error' in mo or isinstance(mo.get('loaded'), str):
        return f'Lean model of the {which} loader fails: {mo.get("error") or mo.get("loaded")}', {}
    # (the observation of the loaded model was taken in `prepare_case`: the real objects are not kept - 160 class factories
    # alive at once make every `issubclass` of python_jsonschema_objects walk all their classes)
    x, y = canon_obs(st['impl']['loaded']), canon_obs(mo['loaded'])
    if which == 'scad':            # attacker names cannot be expressed
        for o in (x, y): o['attackers'] = [[t[0], t[2]] for t in o['attackers']]
    for k in ('assets', 'associations', 'attackers'):
        if x[k] != y[k]:
            return f'implementation and Lean model of the {which} loader disagree on {k}', {'impl': x[k], 'model': y[k]}
    return None

def finish_case(st, mo, go=None, res=None):
    """oracle (legacy loader = native loader), then the hand model, then the generated code.  Returns (violation, note)."""
    spec, ops, which = st['spec'], st['ops'], st['which']
    if st['note'] and st['impl'] is None and st['v'] is None: return None, st['note']
    if st['v'] is not None: return st['v'], None
    if mo is not None and st['hand']:
        d = hand_diff(st, mo)
        if d is not None:
            return Violation(what=d[0], fingerprint='C18:model-divergence',
                             replay={'spec': spec, 'ops': ops, 'which': which, **d[1]}, no_failing_input=True), None
    if go is not None:
        rp = {'spec': spec, 'ops': ops, 'which': which, 'payload': st['gen']}
        if 'error' in go: return genexec.driver_error('C18', go['error'], rp), None
        g = go['model']
        if 'skip' in g or g.get('error') == 'unmodelled':
            if res: res.bump('generated_code_not_comparable:' + (g.get('skip') or 'unmodelled'))
            return None, st['note']
        if res: res.bump('generated_code_documents_compared')
        d = gen_same(st['impl'], g)
        if d is not None:
            return genexec.divergence('C18', 'load_model_from_older_version' if which == 'old' else 'load_model_from_scad_archive',
                                      f'on the {which} file of the case ({d})', {**rp, 'impl': st['impl'], 'generated': g}), None
    return None, st['note']

def check_case(spec, ops, which, mo, rnd):
    st = prepare_case(spec, ops, which, rnd)
    return finish_case(st, mo)

def run(seed, tier, lean) -> Result:
    rnd = random.Random(seed)
    res = Result(rule='native models built by random API histories (negative / zero / gap ids, non-default defenses, sub-typed members, duplicate-named '
                      'association classes, several attackers with several entry points per asset) are translated to the 0.0.39 layout (json / yml / yaml, '
                      'flat or nested association form) and to a securiCAD archive (XML in a zip, attacker on either side of firstSteps), loaded by the real '
                      'legacy loaders and compared with the real native loader on the native file, and with the Lean models of the loaders; non-trivial = '
                      'the model has an attacker with >= 2 entry points and an association')
    n = 160 if tier == 'quick' else 960
    cases = []
    for i in range(n):
        r = random.Random(rnd.getrandbits(48))
        spec = LangGen(r, knobs={'dup_assoc_names': 0.4, 'reuse_fields': 0.5}).gen()
        ops = Gen(r, spec, WEIGHTS, explicit_attacker_ids=False, extras=False, names=NAMES).gen(r.randint(4, 30))[:-1]
        cases.append((spec, ops, 'old' if i % 2 else 'scad', r))
    # the real side first (the generated loaders read the very files the real loaders read), then ONE driver batch for the
    # hand-written model and the generated code, then the comparisons
    sts = [prepare_case(spec, ops, which, r, mal=True) for (spec, ops, which, r) in cases]
    model = gen = genm = None
    if lean['build_ok']:
        hand_p = [{'op': 'legacy', 'case': i, 'lang': lang_payload(s), 'ops': o, 'which': w} for i, (s, o, w, r) in enumerate(cases)]
        gidx = [i for i, st in enumerate(sts) if st['gen'] is not None]
        midx = [i for i, st in enumerate(sts) if st['mal'] is not None]
        out = run_driver(hand_p + [{'op': 'gen_legacy', 'case': i, 'lang': hand_p[i]['lang'], **sts[i]['gen']} for i in gidx]
                                + [{'op': 'gen_legacy', 'case': i, 'lang': hand_p[i]['lang'], **sts[i]['mal']['gen']} for i in midx])
        model, gen, genm = out[:len(cases)], dict(zip(gidx, out[len(cases):])), dict(zip(midx, out[len(cases) + len(gidx):]))
    for i, (spec, ops, which, r) in enumerate(cases):
        res.evaluations += 1
        mo = model[i].get('model') if model is not None else None
        v, note = finish_case(sts[i], mo, gen.get(i) if gen is not None else None, res)
        res.bump(which)
        if note: res.bump(note)
        ks = [o['k'] for o in ops]
        if ks.count('add_entry_point') >= 2 and 'add_association' in ks: res.nontrivial.add(canon_hash([spec, ops, which]))
        if v: res.violations.append(v)
        if genm is not None and i in genm:
            v2 = finish_malformed(sts[i], genm[i], res)
            if v2 and not v: res.violations.append(v2)
        if len(res.samples) < 2 and mo and 'doc' in mo: res.samples.append({'which': which, 'doc': mo['doc']})
    if not res.samples: res.samples.append({'ops': cases[0][1][:5]})
    return res

def replay(path):
    r = json.load(open(path))
    v, _ = check_case(r['spec'], r['ops'], r['which'], None, random.Random(0))
    print(v.what if v else 'no violation'); print('VIOLATION reproduced' if v else 'not reproduced')
    return 1 if v else 0

def genexec_measure(seed: int, n: int) -> dict:
    """tools/genexec_seeded.py: n cases of the quick check on the (possibly mutated) implementation, the hand-written model and
    the (re)generated code.  `impl_ne_hand`: the legacy loader raises / differs from the native loader (the oracle) or from the
    Lean model of the loader; the malformed variants have no hand model: they only count for `gen_ne_impl`."""
    rnd = random.Random(seed)
    stats = {'cases': 0, 'impl_ne_hand': 0, 'gen_follows_impl': 0, 'gen_ne_impl': 0, 'impl_crash': 0, 'malformed_cases': 0,
             'malformed_gen_ne_impl': 0, 'not_comparable': 0, 'examples': []}
    def note(kind, info):
        if len([e for e in stats['examples'] if e[0] == kind]) < 2: stats['examples'].append([kind, info])
    cases = []
    for i in range(n):
        r = random.Random(rnd.getrandbits(48))
        spec = LangGen(r, knobs={'dup_assoc_names': 0.4, 'reuse_fields': 0.5}).gen()
        ops = Gen(r, spec, WEIGHTS, explicit_attacker_ids=False, extras=False, names=NAMES).gen(r.randint(4, 30))[:-1]
        cases.append((spec, ops, 'old' if i % 2 else 'scad', r))
    sts = []
    for (spec, ops, which, r) in cases:
        try: sts.append(prepare_case(spec, ops, which, r, mal=True))
        except Exception as e:
            sts.append(None); stats['impl_crash'] += 1; note('impl-crash', f'{type(e).__name__}: {str(e)[:100]}')
    hand_p = [{'op': 'legacy', 'case': i, 'lang': lang_payload(s), 'ops': o, 'which': w} for i, (s, o, w, r) in enumerate(cases)]
    gidx = [i for i, st in enumerate(sts) if st and st['gen'] is not None and st['impl'] is not None]
    midx = [i for i, st in enumerate(sts) if st and st['mal'] is not None]
    out = run_driver(hand_p + [{'op': 'gen_legacy', 'case': i, 'lang': hand_p[i]['lang'], **sts[i]['gen']} for i in gidx]
                            + [{'op': 'gen_legacy', 'case': i, 'lang': hand_p[i]['lang'], **sts[i]['mal']['gen']} for i in midx])
    model, gen, genm = out[:len(cases)], dict(zip(gidx, out[len(cases):])), dict(zip(midx, out[len(cases) + len(gidx):]))
    brief = lambda r: {k: v for k, v in r.items() if k != 'loaded'} if isinstance(r, dict) else r
    for i, st in enumerate(sts):
        if st is None or i not in gen: continue
        stats['cases'] += 1
        go = gen[i]
        if 'error' in go or 'error' in model[i]:
            note('driver-error', [model[i].get('error'), go.get('error')]); continue
        g = go['model']
        hd = st['v'].fingerprint if st['v'] is not None else None
        if hd is None and st['hand']:
            d = hand_diff(st, model[i]['model'])
            hd = d[0] if d else None
        if 'skip' in g or g.get('error') == 'unmodelled' or 'unobservable' in st['impl']:
            stats['not_comparable'] += 1; gd = None; comparable = False
        else:
            gd = gen_same(st['impl'], g); comparable = True
        info = {'which': st['which'], 'case': i, 'impl_vs_hand': hd, 'impl_vs_gen': gd, 'impl': brief(st['impl']), 'gen': brief(g)}
        if comparable and gd is not None: stats['gen_ne_impl'] += 1; note('gen!=impl', info)
        if hd is not None:
            stats['impl_ne_hand'] += 1
            if comparable and gd is None: stats['gen_follows_impl'] += 1; note('gen=impl!=hand', info)
    for i in midx:
        mv, go = sts[i]['mal'], genm[i]
        if 'error' in go: note('driver-error', [mv['kind'], go['error']]); continue
        g = go['model']
        if 'skip' in g or g.get('error') == 'unmodelled' or 'unobservable' in mv['impl']: continue
        stats['malformed_cases'] += 1
        gd = gen_same(mv['impl'], g)
        if gd is not None:
            stats['malformed_gen_ne_impl'] += 1
            note('gen!=impl', {'malformed': mv['kind'], 'case': i, 'impl_vs_gen': gd, 'impl': brief(mv['impl']), 'gen': brief(g)})
    return stats

def findings(seed=5):
    """reproduce the two findings about `PreludeLegacy` that the malformed family does NOT draw (implementation vs generated code)"""
    from ..common import enter_scratch
    enter_scratch()
    r = random.Random(seed)
    spec = LangGen(r, knobs={'dup_assoc_names': 0.4, 'reuse_fields': 0.5}).gen()
    ops = Gen(r, spec, WEIGHTS, explicit_attacker_ids=False, extras=False, names=NAMES).gen(12)[:-1]
    im = Impl(spec)
    for op in ops: im.step(op)
    p = os.path.join(scratch(), 'native.json'); im.m.save_to_file(p)
    doc = json.load(open(p))
    for kind in ('name_not_str', 'key_spelling'):
        mv = malformed_variant('old', im, im.m, doc, 'json', random.Random(1), kind=kind)
        go = run_driver([{'op': 'gen_legacy', 'case': 0, 'lang': lang_payload(spec), **mv['gen']}])[0]
        short = lambda x: {k: (v if k != 'loaded' else [[a[0], a[1]] for a in v['assets']]) for k, v in x.items()}
        print(kind, '\n  file assets:', json.dumps(dict(mv['gen']['json']['d'])['assets'])[:300],
              '\n  implementation:', short(mv['impl']), '\n  generated code:', short(go.get('model', go)))

if __name__ == '__main__':
    import sys
    if sys.argv[1:] == ['findings']: findings()
