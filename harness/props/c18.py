"""C18 — legacy model loaders agree with the native loader."""
from __future__ import annotations
import json, os, random, zipfile
from xml.sax.saxutils import quoteattr
from ..common import Result, Violation, run_driver, canon_hash, scratch
from ..langgen import LangGen, lang_payload, jtxt
from ..mhist import Impl, Gen, canon_obs
from .. import genexec

ASSUMPTIONS = [
    'the XML / zip layer: xml.etree, zipfile and the harness rendering of the abstract securiCAD document (objects with nested evidenceAttributes / evidenceDistribution / parameters, associations) are assumed and exercised through real archives',
    'json / PyYAML as in C07',
    'the legacy formats cannot express extras, attacker names (securiCAD) or n-ary links (securiCAD: emitted pairwise); equivalence is asserted on assets (id, name, type, defense values), pairwise links and attacker entry points, as the property states',
]
TRUSTED = ['Lean 4.33 kernel', 'axioms: propext, Classical.choice, Quot.sound',
           'hand-written model Model/Legacy.lean over Model/MState.lean, Serial.lean, LangGraph.lean (tied by this correspondence)',
           'harness/props/c18.py (emitters, XML rendering), harness/mhist.py']
WEIGHTS = {'add_asset': 12, 'remove_asset': 1, 'add_association': 10, 'add_attacker': 3, 'add_entry_point': 8, 'remove_entry_point': 1}

def view(m, pairwise):
    """what must agree: assets, (pairwise) links, attacker entry points"""
    links = []
    for a in m.associations:
        lf, rf = m.get_association_field_names(a)
        L, R = [int(x.id) for x in getattr(a, lf)], [int(x.id) for x in getattr(a, rf)]
        if pairwise: links += [[type(a).__name__, str(lf), x, str(rf), y] for x in L for y in R]
        else: links.append([type(a).__name__, str(lf), sorted(L), str(rf), sorted(R)])
    return {'assets': sorted([int(a.id), str(a.name), str(a.type), sorted([k, float(v)] for k, v in m.get_asset_defenses(a, include_defaults=True).items())] for a in m.assets),
            'links': sorted(links),
            'entry_points': sorted([int(t.id), sorted([int(a.id), sorted(s)] for a, s in t.entry_points)] for t in m.attackers)}

def emit_old(d, nested):
    out = {'metadata': d['metadata'], 'assets': {}, 'associations': [], 'attackers': d['attackers']}
    for k, v in d['assets'].items():
        out['assets'][k] = {'name': v['name'], 'metaconcept': v['type'], **({'defenses': v['defenses']} if 'defenses' in v else {})}
    for e in d['associations']:
        cls = [k for k in e if k != 'extras'][0]
        out['associations'].append({'metaconcept': cls, 'association': e[cls]} if nested else {'metaconcept': cls, **e[cls]})
    return out

def emit_scad_xml(m):
    def cap(s): return s[0].upper() + s[1:]
    lines = ['<?xml version="1.0" encoding="utf-8"?>',
             '<com.foreseeti.kernalCAD:XMIObjectModel xmi:version="2.0" xmlns:xmi="http://www.omg.org/XMI" xmlns:com.foreseeti.kernalCAD="http:///com/foreseeti/ObjectModel.ecore">']
    for a in m.assets:
        lines.append(f'  <objects description="" id="{int(a.id)}" name={quoteattr(str(a.name))} metaConcept="{a.type}" template="false">')
        for k, v in m.get_asset_defenses(a).items():
            lines.append(f'    <evidenceAttributes metaConcept="{cap(k)}"><evidenceDistribution type="Bernoulli"><parameters name="probability" value="{float(v)!r}"/></evidenceDistribution></evidenceAttributes>')
        lines.append('    <evidenceAttributes metaConcept="SomethingWithoutValue"/>')
        lines.append('  </objects>')
    for t in m.attackers:
        lines.append(f'  <objects description="" id="{int(t.id)}" name={quoteattr(str(t.name))} metaConcept="Attacker" template="false"><evidenceAttributes metaConcept="EntryPoint"/></objects>')
    spell = 0
    for assoc in m.associations:
        lf, rf = m.get_association_field_names(assoc)
        for x in getattr(assoc, lf):
            for y in getattr(assoc, rf):
                # securiCAD writes a link from either end: (source y, target x, properties lf / rf) and
                # (source x, target y, properties rf / lf) are the same link
                spell += 1
                if spell % 3 != 2: lines.append(f'  <associations description="" sourceObject="{int(y.id)}" targetObject="{int(x.id)}" sourceProperty="{lf}" targetProperty="{rf}"/>')
                else: lines.append(f'  <associations description="" sourceObject="{int(x.id)}" targetObject="{int(y.id)}" sourceProperty="{rf}" targetProperty="{lf}"/>')
    flip = False
    for t in m.attackers:
        for a, steps in t.entry_points:
            for st in steps:
                flip = not flip            # securiCAD writes the attacker on either side
                if flip: lines.append(f'  <associations description="" sourceObject="{int(t.id)}" targetObject="{int(a.id)}" sourceProperty="firstSteps" targetProperty="{st}.attacker"/>')
                else: lines.append(f'  <associations description="" sourceObject="{int(a.id)}" targetObject="{int(t.id)}" sourceProperty="{st}.attacker" targetProperty="firstSteps"/>')
    lines.append('</com.foreseeti.kernalCAD:XMIObjectModel>')
    return '\n'.join(lines)

# --------------------------------------------------------------------------------------------------------------------
# the third column (notes/NOTES_genexec2_legneo.md): the GENERATED loaders (`Py/GenLegacy`, driver op `gen_legacy`) on the
# very file the real loader read - what the two layers of the file boundary return for it (`json.loads` / `yaml.safe_load`
# resp. zipfile + xml.etree), not a document recomputed from the history
def pyj(x):
    """a value of the JSON / YAML layer in the driver's tagged form (`GenXLeg.parsePyJ`); `None` inside = not expressible"""
    if x is None or isinstance(x, (bool, str)): return x
    if isinstance(x, int): return {'i': str(x)}
    if isinstance(x, float): return {'f': repr(x)}
    if isinstance(x, list): return [pyj(e) for e in x]
    if isinstance(x, dict):
        for k in x:
            if isinstance(k, bool) or not isinstance(k, (str, int)): raise TypeError('key outside str / int')
        return {'d': [[pyj(k), pyj(v)] for k, v in x.items()]}
    raise TypeError(type(x).__name__)

def read_layers(path, both=True):
    """what `json.loads(f.read())` and `yaml.safe_load(f)` return for the file (or the class of what they raise)"""
    import yaml
    txt = open(path, 'r', encoding='utf-8').read()
    out = {}
    first = 'json' if path.endswith('.json') else 'yaml'
    for k, f in (('json', json.loads), ('yaml', yaml.safe_load)):
        if not both and k != first: continue
        try: out[k] = pyj(f(txt))
        except ValueError: out[k] = {'raises': 'ValueError'}          # json.JSONDecodeError
        except Exception as e: out[k] = {'raises': type(e).__name__}
    return out

def read_eom(path):
    """the parsed `.eom` member as the abstract archive of the prelude (`Legacy.ScadDoc`): objects with `int(id)` and the
    (metaConcept, value) pairs of evidenceAttributes / evidenceDistribution / parameters[@value]; associations"""
    import xml.etree.ElementTree as ET
    with zipfile.ZipFile(path, 'r') as z:
        root = ET.fromstring(z.read(next(filter(lambda x: x[-4:] == '.eom', z.namelist()))))
    objs = []
    for ch in root.iter('objects'):
        defs = [[sub.attrib['metaConcept'], d.attrib['value']] for sub in ch.iter('evidenceAttributes')
                for dist in sub.iter('evidenceDistribution') for d in dist.iter('parameters') if 'value' in d.attrib]
        objs.append({'id': int(ch.attrib['id']), 'name': ch.attrib['name'], 'metaConcept': ch.attrib['metaConcept'], 'defenses': defs})
    return {'objects': objs,
            'associations': [{'sourceObject': int(c.attrib['sourceObject']), 'targetObject': int(c.attrib['targetObject']),
                              'sourceProperty': c.attrib['sourceProperty'], 'targetProperty': c.attrib['targetProperty']} for c in root.iter('associations')]}

ERR_NAMES = ('ValueError', 'LookupError', 'DuplicateModelAssociationError', 'ModelAssociationException', 'KeyError', 'AttributeError',
             'AssertionError', 'RecursionError', 'ValidationError', 'TypeError')
def err_class(e):
    """the class of an exception in the vocabulary of the prelude (`LErr` / `PyM.PyErr`): the first listed class it is an
    instance of; everything else (IndexError, OSError …) is `OtherError`"""
    for c in type(e).__mro__:
        if c.__name__ in ERR_NAMES: return c.__name__
    return 'OtherError'

def impl_result(got):
    """what a real loader returned, in the form of the driver's answer"""
    if got is None: return {'none': True}
    im2 = Impl.__new__(Impl); im2.m = got
    return {'loaded': Impl.obs(im2), 'name': got.name}

def gen_same(ir, go):
    """implementation result `ir` against the answer `go` of `gen_legacy`: outcome kind, error class, the model name and the
    WHOLE canonical state (assets with defenses / extras / back-references, associations, attackers with names and entry
    points, reserved ids / names, type index sizes, next id).  Returns None when equal, else what differs."""
    kind = lambda r: 'loaded' if 'loaded' in r else 'none' if 'none' in r else 'error'
    if kind(ir) != kind(go): return f'outcome: implementation {kind(ir)} {ir.get("error", "")}, generated {kind(go)} {go.get("error", "")}'
    if 'error' in ir: return None if ir['error'] == go['error'] else f'exception class: implementation {ir["error"]}, generated {go["error"]}'
    if 'none' in ir: return None
    if ir['name'] != go['name']: return 'model name'
    x, y = canon_obs(ir['loaded']), canon_obs(go['loaded'])
    diff = [k for k in x if x[k] != y[k]]
    return ('state: ' + ','.join(diff)) if diff else None

def prepare_case(spec, ops, which, rnd):
    """the real side of one case: history, files, the real loaders.  Returns the state `finish_case` needs; `st['gen']` is
    the payload of the generated column (without `lang`), `st['impl']` what the real legacy loader returned / raised"""
    from maltoolbox.model import Model
    from maltoolbox.translators import updater, securicad
    st = {'spec': spec, 'ops': ops, 'which': which, 'hand': True, 'gen': None, 'impl': None, 'v': None, 'note': None, 'both_layers': True}
    im = Impl(spec)
    for op in ops: im.step(op)
    m = im.m
    ids = [t.id for t in m.attackers]
    if len(set(ids)) != len(ids): st['note'] = 'skipped: duplicate attacker ids (KF-C07-1)'; return st
    d = scratch()
    native_path = os.path.join(d, 'native.json'); m.save_to_file(native_path)
    ref = Model.load_from_file(native_path, im.fac)
    try:
        if which == 'old':
            fmt = rnd.choice(['json', 'yml', 'yaml'])
            path = os.path.join(d, 'old.' + fmt)
            from maltoolbox.file_utils import save_dict_to_file
            doc = json.load(open(native_path))
            if rnd.random() < 0.3:
                # ids as exported from securiCAD: 64-bit numbers that no float represents exactly.  Both files are
                # renumbered alike (0 stays 0, signs are kept).
                big = lambda i: int(i) * 9007199254740993
                doc['assets'] = {str(big(k)): v for k, v in doc['assets'].items()}
                for e in doc['associations']:
                    cls = [k for k in e if k != 'extras'][0]
                    e[cls] = {f: [big(i) for i in ids] for f, ids in e[cls].items()}
                for t in doc['attackers'].values():
                    t['entry_points'] = {str(big(k)): v for k, v in t['entry_points'].items()}
                renum = os.path.join(d, 'native_big.json'); json.dump(doc, open(renum, 'w'))
                ref = Model.load_from_file(renum, im.fac)
                st['hand'] = False
            if rnd.random() < 0.5 and len(doc['assets']) >= 2:
                # a hand-edited file: assets listed in another order, and (sometimes) two assets with the same name —
                # both loaders resolve the clash in the order of the file.  The equivalent native file is edited alike.
                items = list(doc['assets'].items()); rnd.shuffle(items)
                if rnd.random() < 0.6:
                    (k1, v1), (k2, v2) = items[0], items[1]
                    if isinstance(v1, dict) and isinstance(v2, dict): v2['name'] = v1['name']
                doc['assets'] = dict(items)
                edited = os.path.join(d, 'native_edited.' + fmt)       # same file format: PyYAML lists keys sorted, JSON as given
                save_dict_to_file(edited, doc)
                ref = Model.load_from_file(edited, im.fac)
                st['hand'] = False                 # the Lean side computes the document from the history, not from the edited file
            save_dict_to_file(path, emit_old(doc, rnd.random() < 0.5))
            try: st['gen'] = {'which': 'old', 'file': path, 'version': '0.0.39', **read_layers(path, both=st['both_layers'])}
            except TypeError as e: st['note'] = f'generated column skipped: {e}'
            got = updater.load_model_from_older_version(path, im.fac, '0.0.39')
            st['impl'] = impl_result(got)
            a, b = view(got, False), view(ref, False)
        else:
            path = os.path.join(d, 'model.sCAD')
            with zipfile.ZipFile(path, 'w') as z:
                z.writestr('model.eom', emit_scad_xml(m)); z.writestr('meta.json', '{}')
            st['gen'] = {'which': 'scad', 'file': path, 'eom': read_eom(path)}
            got = securicad.load_model_from_scad_archive(path, im.lg, im.fac)
            st['impl'] = impl_result(got)
            if got is None: raise LookupError('loader returned None')
            a, b = view(got, True), view(ref, True)
    except Exception as e:
        if st['impl'] is None: st['impl'] = {'error': err_class(e)}
        st['v'] = Violation(what=f'the {which} loader fails on a model the native loader accepts: {type(e).__name__}: {str(e)[:100]}',
                            fingerprint=f'C18:{which}-loader-raises:{type(e).__name__}', replay={'spec': spec, 'ops': ops, 'which': which})
        return st
    if a != b:
        diff = [k for k in a if a[k] != b[k]]
        st['v'] = Violation(what=f'the {which} loader and the native loader disagree on {diff}', fingerprint=f'C18:{which}:' + ','.join(diff),
                            replay={'spec': spec, 'ops': ops, 'which': which, 'legacy': {k: a[k] for k in diff}, 'native': {k: b[k] for k in diff}})
    return st

def hand_diff(st, mo):
    """the hand-written model of the loader against the implementation (as before the third column): None when they agree"""
    which = st['which']
    if 'error' in mo or isinstance(mo.get('loaded'), str):
        return f'Lean model of the {which} loader fails: {mo.get("error") or mo.get("loaded")}', {}
    # (the observation of the loaded model was taken in `prepare_case`: the real objects are not kept - 160 class factories
    # alive at once make every `issubclass` of python_jsonschema_objects walk all their classes)
    x, y = canon_obs(st['impl']['loaded']), canon_obs(mo['loaded'])
    if which == 'scad':            # attacker names cannot be expressed
        for o in (x, y): o['attackers'] = [[t[0], t[2]] for t in o['attackers']]
    for k in ('assets', 'associations', 'attackers'):
        if x[k] != y[k]:
            return f'implementation and Lean model of the {which} loader disagree on {k}', {'impl': x[k], 'model': y[k]}
    return None

def finish_case(st, mo, go=None, res=None):
    """oracle (legacy loader = native loader), then the hand model, then the generated code.  Returns (violation, note)."""
    spec, ops, which = st['spec'], st['ops'], st['which']
    if st['note'] and st['impl'] is None and st['v'] is None: return None, st['note']
    if st['v'] is not None: return st['v'], None
    if mo is not None and st['hand']:
        d = hand_diff(st, mo)
        if d is not None:
            return Violation(what=d[0], fingerprint='C18:model-divergence',
                             replay={'spec': spec, 'ops': ops, 'which': which, **d[1]}, no_failing_input=True), None
    if go is not None:
        rp = {'spec': spec, 'ops': ops, 'which': which, 'payload': st['gen']}
        if 'error' in go: return genexec.driver_error('C18', go['error'], rp), None
        g = go['model']
        if 'skip' in g or g.get('error') == 'unmodelled':
            if res: res.bump('generated_code_not_comparable:' + (g.get('skip') or 'unmodelled'))
            return None, st['note']
        if res: res.bump('generated_code_documents_compared')
        d = gen_same(st['impl'], g)
        if d is not None:
            return genexec.divergence('C18', 'load_model_from_older_version' if which == 'old' else 'load_model_from_scad_archive',
                                      f'on the {which} file of the case ({d})', {**rp, 'impl': st['impl'], 'generated': g}), None
    return None, st['note']

def check_case(spec, ops, which, mo, rnd):
    st = prepare_case(spec, ops, which, rnd)
    return finish_case(st, mo)

def run(seed, tier, lean) -> Result:
    rnd = random.Random(seed)
    res = Result(rule='native models built by random API histories (negative / zero / gap ids, non-default defenses, sub-typed members, duplicate-named '
                      'association classes, several attackers with several entry points per asset) are translated to the 0.0.39 layout (json / yml / yaml, '
                      'flat or nested association form) and to a securiCAD archive (XML in a zip, attacker on either side of firstSteps), loaded by the real '
                      'legacy loaders and compared with the real native loader on the native file, and with the Lean models of the loaders; non-trivial = '
                      'the model has an attacker with >= 2 entry points and an association')
    n = 160 if tier == 'quick' else 960
    cases = []
    for i in range(n):
        r = random.Random(rnd.getrandbits(48))
        spec = LangGen(r, knobs={'dup_assoc_names': 0.4, 'reuse_fields': 0.5}).gen()
        ops = Gen(r, spec, WEIGHTS, explicit_attacker_ids=False, extras=False).gen(r.randint(4, 30))[:-1]
        cases.append((spec, ops, 'old' if i % 2 else 'scad', r))
    # the real side first (the generated loaders read the very files the real loaders read), then ONE driver batch for the
    # hand-written model and the generated code, then the comparisons
    sts = [prepare_case(spec, ops, which, r) for (spec, ops, which, r) in cases]
    model = gen = None
    if lean['build_ok']:
        hand_p = [{'op': 'legacy', 'case': i, 'lang': lang_payload(s), 'ops': o, 'which': w} for i, (s, o, w, r) in enumerate(cases)]
        gidx = [i for i, st in enumerate(sts) if st['gen'] is not None]
        out = run_driver(hand_p + [{'op': 'gen_legacy', 'case': i, 'lang': hand_p[i]['lang'], **sts[i]['gen']} for i in gidx])
        model, gen = out[:len(cases)], dict(zip(gidx, out[len(cases):]))
    for i, (spec, ops, which, r) in enumerate(cases):
        res.evaluations += 1
        mo = model[i].get('model') if model is not None else None
        v, note = finish_case(sts[i], mo, gen.get(i) if gen is not None else None, res)
        res.bump(which)
        if note: res.bump(note)
        ks = [o['k'] for o in ops]
        if ks.count('add_entry_point') >= 2 and 'add_association' in ks: res.nontrivial.add(canon_hash([spec, ops, which]))
        if v: res.violations.append(v)
        if len(res.samples) < 2 and mo and 'doc' in mo: res.samples.append({'which': which, 'doc': mo['doc']})
    if not res.samples: res.samples.append({'ops': cases[0][1][:5]})
    return res

def replay(path):
    r = json.load(open(path))
    v, _ = check_case(r['spec'], r['ops'], r['which'], None, random.Random(0))
    print(v.what if v else 'no violation'); print('VIOLATION reproduced' if v else 'not reproduced')
    return 1 if v else 0
