"""C19 — Neo4j export is isomorphic to what is exported, and import inverts it."""
from __future__ import annotations
import json, random
from ..common import Result, Violation, run_driver, canon_hash
from ..langgen import LangGen, lang_payload, jtxt
from ..mhist import Impl, Gen, canon_obs
from .. import aghist

ASSUMPTIONS = [
    'the database driver is replaced by a recording stand-in: it records the py2neo Subgraph handed to tx.create and answers the two fixed Cypher queries of get_model from the recorded data (all nodes with a type; all (a, r1, r2, b) with r1: a->b, r2: b->a, r1 != r2); real py2neo Node / Relationship / Subgraph objects are used',
    'attackers are not exported by ingest_model, so the import is compared on assets and links',
]
TRUSTED = ['Lean 4.33 kernel', 'axioms: propext, Classical.choice, Quot.sound',
           'hand-written model Model/Neo4j.lean (tied by this correspondence)', 'the recording stand-in for py2neo.Graph in harness/props/c19.py']
WEIGHTS = {'add_asset': 12, 'remove_asset': 1, 'add_association': 12, 'remove_association': 1, 'add_attacker': 1}

class StubGraph:
    """records what is created; answers the two queries of get_model"""
    store = None
    def __init__(self, *a, **k): pass
    def delete_all(self): StubGraph.store = None
    def begin(self): return self
    def create(self, subgraph): StubGraph.store = subgraph
    def commit(self, tx): pass
    def run(self, query):
        sg = StubGraph.store
        nodes = sorted(sg.nodes, key=lambda n: StubGraph.order.get(id(n), 0))
        rels = list(sg.relationships)
        class R:
            def __init__(s, rows): s.rows = rows
            def data(s): return s.rows
        if 'RETURN DISTINCT a, r1, r2, b' in query:
            rows = []
            for r1 in sorted(rels, key=lambda r: (StubGraph.order.get(id(r.start_node), 0), StubGraph.order.get(id(r.end_node), 0), type(r).__name__)):
                for r2 in rels:
                    if r2 is not r1 and r2.start_node is r1.end_node and r2.end_node is r1.start_node and 'type' in dict(r1.start_node):
                        rows.append({'a': r1.start_node, 'r1': r1, 'r2': r2, 'b': r1.end_node})
            return R(rows)
        return R([{'a': n} for n in nodes if 'type' in dict(n)])
    order = {}

def with_stub(fn):
    import maltoolbox.ingestors.neo4j as nj
    real = nj.Graph
    nj.Graph = StubGraph
    real_node = nj.Node
    StubGraph.order = {}
    def node(*a, **k):
        n = real_node(*a, **k); StubGraph.order[id(n)] = len(StubGraph.order); return n
    nj.Node = node
    try: return fn(nj)
    finally: nj.Graph = real; nj.Node = real_node

def links_view(m):
    out = set()
    for a in m.associations:
        lf, rf = m.get_association_field_names(a)
        for x in getattr(a, lf):
            for y in getattr(a, rf): out.add((type(a).__name__, str(lf), int(x.id), str(rf), int(y.id)))
    return sorted(out)

def check_model(spec, ops, mo):
    im = Impl(spec)
    for op in ops: im.step(op)
    m = im.m
    def go(nj):
        nj.ingest_model(m, 'uri', 'u', 'p', 'db', delete=True)
        sg = StubGraph.store
        nodes = sorted(sg.nodes, key=lambda n: StubGraph.order[id(n)])
        idx = {id(n): i for i, n in enumerate(nodes)}
        sub = {'nodes': [[list(n.labels)[0], n['name'], n['asset_id'], n['type']] for n in nodes],
               'rels': sorted([idx[id(r.start_node)], type(r).__name__, idx[id(r.end_node)]] for r in sg.relationships)}
        back = nj.get_model('uri', 'u', 'p', 'db', im.lg, im.fac)
        return sub, back
    try:
        sub, back = with_stub(go)
    except Exception as e:
        return Violation(what=f'ingest / import raises {type(e).__name__}: {str(e)[:100]}', fingerprint='C19:raises:' + type(e).__name__, replay={'spec': spec, 'ops': ops})
    # isomorphism of the export
    want_nodes = [[str(a.type), str(a.name), str(int(a.id)), str(a.type)] for a in m.assets]
    pos = {int(a.id): i for i, a in enumerate(m.assets)}
    want_rels = set()
    for (cls, lf, x, rf, y) in links_view(m):
        want_rels.add((pos[x], lf, pos[y])); want_rels.add((pos[y], rf, pos[x]))
    probs = []
    if sub['nodes'] != want_nodes: probs.append('exported nodes are not one per asset with id, name and type')
    if sorted(map(tuple, sub['rels'])) != sorted(want_rels): probs.append('exported relationships are not one per direction and linked pair, labelled with the field names')
    if back is None: probs.append('import of the exported model returns None')
    else:
        a = sorted([int(x.id), str(x.name), str(x.type)] for x in back.assets); b = sorted([int(x.id), str(x.name), str(x.type)] for x in m.assets)
        if a != b: probs.append('imported assets differ from the exported ones')
        elif links_view(back) != links_view(m): probs.append('imported links differ from the exported ones')
    if probs:
        return Violation(what=probs[0], fingerprint='C19:' + probs[0][:60], replay={'spec': spec, 'ops': ops, 'problems': probs})
    if mo is not None:
        if sorted(map(tuple, mo['sub']['rels'])) != sorted(map(tuple, sub['rels'])) or mo['sub']['nodes'] != sub['nodes']:
            return Violation(what='implementation and Lean model disagree on the exported subgraph', fingerprint='C19:model-divergence',
                             replay={'spec': spec, 'ops': ops, 'impl': sub, 'model': mo['sub']}, no_failing_input=True)
        if isinstance(mo.get('back'), str) or 'error' in mo:
            return Violation(what='Lean model of get_model fails: ' + str(mo.get('back') or mo.get('error')), fingerprint='C19:model-divergence',
                             replay={'spec': spec, 'ops': ops}, no_failing_input=True)
        im2 = Impl.__new__(Impl); im2.m = back
        x, y = canon_obs(Impl.obs(im2)), canon_obs(mo['back'])
        def pw(o): return sorted((a[0], a[1], l, a[3], r) for a in o['associations'] for l in a[2] for r in a[4])
        if [a[:3] for a in x['assets']] != [a[:3] for a in y['assets']] or pw(x) != pw(y):
            return Violation(what='implementation and Lean model disagree on the imported model', fingerprint='C19:model-divergence',
                             replay={'spec': spec, 'ops': ops, 'impl': x['associations'], 'model': y['associations']}, no_failing_input=True)
    return None

def check_graph(ops, mo):
    im = aghist.Impl()
    for op in ops: im.step(op)
    g = im.g
    def go(nj):
        nj.ingest_attack_graph(g, 'uri', 'u', 'p', 'db', delete=True)
        sg = StubGraph.store
        nodes = sorted(sg.nodes, key=lambda n: StubGraph.order[id(n)])
        idx = {id(n): i for i, n in enumerate(nodes)}
        return {'nodes': [[str(list(n.labels)[0]), n['name'], n['full_name'], n['type'], n['ttc'], n['is_necessary'], n['is_viable'], n['compromised_by'], n['defense_status']] for n in nodes],
                'rels': sorted([idx[id(r.start_node)], idx[id(r.end_node)]] for r in sg.relationships)}
    try: sub = with_stub(go)
    except Exception as e:
        return Violation(what=f'ingest_attack_graph raises {type(e).__name__}: {str(e)[:100]}', fingerprint='C19:graph-raises', replay={'ops': ops})
    want = [[str(n.asset.name) if n.asset else str(n.id), n.name, n.full_name, n.type, str(n.ttc), str(n.is_necessary), str(n.is_viable),
             str([a.name for a in n.compromised_by]), 'N/A' if n.defense_status is None else str(n.defense_status)] for n in g.nodes]
    pos = {id(n): i for i, n in enumerate(g.nodes)}
    wrels = sorted({(pos[id(n)], pos[id(c)]) for n in g.nodes for c in n.children})
    probs = []
    if sub['nodes'] != want: probs.append('exported step nodes are not one per attack step with its attributes')
    if sorted(map(tuple, sub['rels'])) != wrels: probs.append('exported relationships are not one per edge')
    if probs: return Violation(what=probs[0], fingerprint='C19:' + probs[0][:60], replay={'ops': ops, 'problems': probs})
    if mo is not None:
        mn = [[n[0], n[1], n[2], n[3], str(json.loads(n[4])) if n[4] != 'null' else 'None', str(n[5]), str(n[6]), str(n[7]), 'N/A' if n[8] is None else str(float(n[8]))] for n in mo['nodes']]
        if mn != sub['nodes'] or sorted(map(tuple, mo['rels'])) != sorted(map(tuple, sub['rels'])):
            return Violation(what='implementation and Lean model disagree on the exported attack graph', fingerprint='C19:model-divergence-graph',
                             replay={'ops': ops, 'impl': sub, 'model': {'nodes': mn, 'rels': mo['rels']}}, no_failing_input=True)
    return None

GW = {'add_node': 8, 'link': 12, 'add_attacker': 3, 'compromise': 4, 'set_labels': 2, 'remove_node': 1}

def run(seed, tier, lean) -> Result:
    rnd = random.Random(seed)
    res = Result(rule='models from random languages and API histories (several associations between one pair, self-links, sub-typed members of duplicate-named '
                      'associations) and attack graphs from random histories (duplicate edges, self-loops, attackers, labels) are ingested through a recording '
                      'stand-in for the database driver; the recorded subgraph is compared with the reference (one node per asset / step, one relationship per '
                      'direction / edge) and the Lean model; the model is read back with get_model and compared; non-trivial = two assets linked by >= 2 associations or a self-link')
    n = 150 if tier == 'quick' else 900
    mcases, gcases = [], []
    for i in range(n):
        r = random.Random(rnd.getrandbits(48))
        spec = LangGen(r, knobs={'dup_assoc_names': 0.4, 'reuse_fields': 0.6}).gen()
        mcases.append((spec, Gen(r, spec, WEIGHTS, explicit_attacker_ids=False, extras=False).gen(r.randint(4, 30))[:-1]))
        gcases.append(aghist.Gen(r, GW, nmax=r.choice([4, 7]), rich=True).gen(r.randint(5, 25))[:-1])
    mm = run_driver([{'op': 'neo4j_model', 'case': i, 'lang': lang_payload(s), 'ops': o} for i, (s, o) in enumerate(mcases)]) if lean['build_ok'] else None
    gm = run_driver([{'op': 'neo4j_graph', 'case': i, 'ops': o} for i, o in enumerate(gcases)]) if lean['build_ok'] else None
    for i, (spec, ops) in enumerate(mcases):
        res.evaluations += 1
        v = check_model(spec, ops, mm[i].get('model') if mm else None)
        pairs = {}
        for o in ops:
            if o['k'] == 'add_association':
                for x in o['left']:
                    for y in o['right']: pairs[(min(x, y), max(x, y))] = pairs.get((min(x, y), max(x, y)), 0) + 1
        if any(c >= 2 for c in pairs.values()) or any(a == b for a, b in pairs): res.nontrivial.add(canon_hash([spec, ops]))
        if v: res.violations.append(v)
    for i, ops in enumerate(gcases):
        res.evaluations += 1
        v = check_graph(ops, gm[i].get('model') if gm else None)
        if v: res.violations.append(v)
    if mm: res.samples.append({'exported': mm[0].get('model', {}).get('sub')})
    else: res.samples.append({'ops': mcases[0][1][:5]})
    return res

def replay(path):
    r = json.load(open(path))
    v = check_model(r['spec'], r['ops'], None) if 'spec' in r else check_graph(r['ops'], None)
    print(v.what if v else 'no violation'); print('VIOLATION reproduced' if v else 'not reproduced')
    return 1 if v else 0
