"""C19 — Neo4j export is isomorphic to what is exported, and import inverts it."""
from __future__ import annotations
import json, random
from ..common import Result, Violation, run_driver, canon_hash
from ..langgen import LangGen, lang_payload, jtxt
from ..mhist import Impl, Gen, canon_obs
from .. import aghist, genexec

ASSUMPTIONS = [
    'the database driver is replaced by a recording stand-in: it records the py2neo Subgraph handed to tx.create and answers the two fixed Cypher queries of get_model from the recorded data (all nodes with a type; all (a, r1, r2, b) with r1: a->b, r2: b->a, r1 != r2); real py2neo Node / Relationship / Subgraph objects are used',
    'attackers are not exported by ingest_model, so the import is compared on assets and links',
]
TRUSTED = ['Lean 4.33 kernel', 'axioms: propext, Classical.choice, Quot.sound',
           'hand-written model Model/Neo4j.lean (tied by this correspondence)', 'the recording stand-in for py2neo.Graph in harness/props/c19.py']
WEIGHTS = {'add_asset': 12, 'remove_asset': 1, 'add_association': 12, 'remove_association': 1, 'add_attacker': 1}

class StubGraph:
    """records what is created; answers the two queries of get_model"""
    store = None
    def __init__(self, *a, **k): pass
    def delete_all(self): StubGraph.store = None
    def begin(self): return self
    def create(self, subgraph): StubGraph.store = subgraph
    def commit(self, tx): pass
    def run(self, query):
        sg = StubGraph.store
        nodes = sorted(sg.nodes, key=lambda n: StubGraph.order.get(id(n), 0))
        rels = list(sg.relationships)
        class R:
            def __init__(s, rows): s.rows = rows
            def data(s): return s.rows
        if 'RETURN DISTINCT a, r1, r2, b' in query:
            rows = []
            for r1 in sorted(rels, key=lambda r: (StubGraph.order.get(id(r.start_node), 0), StubGraph.order.get(id(r.end_node), 0), type(r).__name__)):
                for r2 in rels:
                    if r2 is not r1 and r2.start_node is r1.end_node and r2.end_node is r1.start_node and 'type' in dict(r1.start_node):
                        rows.append({'a': r1.start_node, 'r1': r1, 'r2': r2, 'b': r1.end_node})
            return R(rows)
        return R([{'a': n} for n in nodes if 'type' in dict(n)])
    order = {}

def with_stub(fn):
    import maltoolbox.ingestors.neo4j as nj
    real = nj.Graph
    nj.Graph = StubGraph
    real_node = nj.Node
    StubGraph.order = {}
    def node(*a, **k):
        n = real_node(*a, **k); StubGraph.order[id(n)] = len(StubGraph.order); return n
    nj.Node = node
    try: return fn(nj)
    finally: nj.Graph = real; nj.Node = real_node

def links_view(m):
    out = set()
    for a in m.associations:
        lf, rf = m.get_association_field_names(a)
        for x in getattr(a, lf):
            for y in getattr(a, rf): out.add((type(a).__name__, str(lf), int(x.id), str(rf), int(y.id)))
    return sorted(out)

# --------------------------------------------------------------------------------------------------------------------
# the third column (notes/NOTES_genexec2_legneo.md): the GENERATED ingestor (`Py/GenNeo4j`, driver ops `gen_neo4j_model` /
# `gen_neo4j_graph`) on the recording database of the prelude, against what the real ingestor hands to the recording stand-in
import re
def full_sub(sg):
    """the recorded Subgraph in the form of `GenXNeo.dbToJson`: every node (in creation order) with ALL labels and ALL
    properties (in the order py2neo keeps them), every relationship as [position of start, type name, position of end]"""
    nodes = sorted(sg.nodes, key=lambda n: StubGraph.order[id(n)])
    idx = {id(n): i for i, n in enumerate(nodes)}
    return {'nodes': [{'labels': [str(l) for l in n.labels], 'props': [[k, v] for k, v in dict(n).items()]} for n in nodes],
            'rels': [[idx[id(r.start_node)], type(r).__name__, idx[id(r.end_node)]] for r in sg.relationships]}

def _opaque(t):
    t = re.sub(r"""['" ]""", '', t).replace('null', 'None').replace('true', 'True').replace('false', 'False')
    # numbers by value: Python writes 1e-05 where the JSON text of the prelude says 0.00001
    return re.sub(r'(?<![\w.])-?\d+\.?\d*(?:[eE][-+]?\d+)?(?![\w.])', lambda m: repr(float(m.group(0))), t)
def _same_text(k, x, y):
    """`str(container)`: the prelude stores a FIXED rendering (`pyStrAtom`: strings between single quotes without escapes, a
    `ttc` dictionary with its values as JSON text) - the implementation's text must denote the same value"""
    import ast
    if k == 'compromised_by':
        try: l = ast.literal_eval(x)
        except Exception: return False
        return isinstance(l, list) and all(isinstance(t, str) for t in l) and '[' + ', '.join("'" + t + "'" for t in l) + ']' == y
    return _opaque(x) == _opaque(y)

def sub_diff(impl, gen, res, opaque=()):
    """recorded subgraph of the implementation against the database the generated code stored.  Nodes: the list must be equal
    (order = creation order) with labels as sets and properties as dictionaries - the properties named in `opaque` up to
    quoting / blanks (`str(dict)`: the prelude renders it as an opaque text, convention 6 of NOTES_neo4j); the ORDER of the
    properties is counted as drift.  Relationships: a py2neo Subgraph holds a frozenset, the implementation has no order to
    compare: equal as sorted lists (= as sets; a relationship stored twice by the generated code would show)."""
    a, b = impl['nodes'], gen['nodes']
    if len(a) != len(b): return f'number of nodes: implementation {len(a)}, generated {len(b)}'
    for i, (x, y) in enumerate(zip(a, b)):
        if sorted(x['labels']) != sorted(y['labels']): return f'labels of node {i}'
        dx, dy = dict(map(tuple, x['props'])), dict(map(tuple, y['props']))
        if len(dx) != len(x['props']) or len(dy) != len(y['props']) or set(dx) != set(dy): return f'property names of node {i}'
        for k in dx:
            if dx[k] != dy[k] and not (k in opaque and isinstance(dx[k], str) and _same_text(k, dx[k], dy[k])): return f'property {k} of node {i}'
        if [p[0] for p in x['props']] != [p[0] for p in y['props']] and res: res.bump('generated_code_order_drift:properties')
    if sorted(map(tuple, impl['rels'])) != sorted(map(tuple, gen['rels'])): return 'relationships'
    return None

def back_result(back):
    if back is None: return {'none': True}
    im2 = Impl.__new__(Impl); im2.m = back
    return {'loaded': Impl.obs(im2), 'name': back.name}

def back_diff(ir, g, res):
    """what the real `get_model` returned against the generated one: outcome, model name, the whole canonical state; the order
    of the association list (it follows the order of the rows the database answers with) is drift"""
    kind = lambda r: 'loaded' if 'loaded' in r else 'none' if 'none' in r else 'error'
    if kind(ir) != kind(g): return f'outcome of get_model: implementation {kind(ir)} {ir.get("error", "")}, generated {kind(g)} {g.get("error", "")}'
    if 'error' in ir: return None if ir['error'] == g['error'] else f'exception class of get_model: {ir["error"]} / {g["error"]}'
    if 'none' in ir: return None
    if ir['name'] != g['name']: return 'name of the imported model'
    x, y = canon_obs(ir['loaded']), canon_obs(g['loaded'])
    diff = [k for k in x if x[k] != y[k]]
    if diff: return 'imported model: ' + ','.join(diff)
    if res and [a[:5] for a in ir['loaded']['associations']] != [a[:5] for a in g['loaded']['associations']]: res.bump('generated_code_order_drift:imported_associations')
    if res and [a[:3] for a in ir['loaded']['assets']] != [a[:3] for a in g['loaded']['assets']]: res.bump('generated_code_order_drift:imported_assets')
    return None

def gen_model_check(rec, go, res, replay):
    """third column of a model case; `rec` = what `check_model` recorded of the implementation"""
    if 'error' in go: return genexec.driver_error('C19', go['error'], replay)
    g = go['model']
    if 'skip' in g:
        if res: res.bump('generated_code_not_comparable:' + g['skip'])
        return None
    if res: res.bump('generated_code_subgraphs_compared')
    d = 'ingest_model raises ' + g['error'] if 'error' in g else sub_diff(rec['full'], g['sub'], res)
    if d is not None:
        return genexec.divergence('C19', 'ingest_model', f'on the recorded subgraph ({d})', {**replay, 'impl': rec['full'], 'generated': g.get('sub', g)})
    if 'skip' in g['back']: return None
    if res: res.bump('generated_code_imports_compared')
    d = back_diff(rec['back'], g['back'], res)
    if d is not None:
        return genexec.divergence('C19', 'get_model', f'on the model read back ({d})', {**replay, 'impl': rec['back'], 'generated': g['back']})
    return None

def gen_graph_check(rec, go, res, replay):
    if 'error' in go: return genexec.driver_error('C19', go['error'], replay)
    g = go['model']
    if res: res.bump('generated_code_graphs_compared')
    d = 'ingest_attack_graph raises ' + g['error'] if 'error' in g else sub_diff(rec['full'], g['sub'], res, opaque=('ttc', 'compromised_by'))
    if d is not None:
        return genexec.divergence('C19', 'ingest_attack_graph', f'on the recorded subgraph ({d})', {**replay, 'impl': rec['full'], 'generated': g.get('sub', g)})
    return None

def check_model(spec, ops, mo, gen=None, res=None, rec=None):
    rec = {} if rec is None else rec
    im = Impl(spec)
    for op in ops: im.step(op)
    m = im.m
    def go(nj):
        nj.ingest_model(m, 'uri', 'u', 'p', 'db', delete=True)
        sg = StubGraph.store
        nodes = sorted(sg.nodes, key=lambda n: StubGraph.order[id(n)])
        idx = {id(n): i for i, n in enumerate(nodes)}
        sub = {'nodes': [[list(n.labels)[0], n['name'], n['asset_id'], n['type']] for n in nodes],
               'rels': sorted([idx[id(r.start_node)], type(r).__name__, idx[id(r.end_node)]] for r in sg.relationships)}
        rec['full'] = full_sub(sg)
        back = nj.get_model('uri', 'u', 'p', 'db', im.lg, im.fac)
        rec['back'] = back_result(back)
        return sub, back
    try:
        sub, back = with_stub(go)
    except Exception as e:
        rec['raised'] = type(e).__name__
        return Violation(what=f'ingest / import raises {type(e).__name__}: {str(e)[:100]}', fingerprint='C19:raises:' + type(e).__name__, replay={'spec': spec, 'ops': ops})
    # isomorphism of the export
    want_nodes = [[str(a.type), str(a.name), str(int(a.id)), str(a.type)] for a in m.assets]
    pos = {int(a.id): i for i, a in enumerate(m.assets)}
    want_rels = set()
    for (cls, lf, x, rf, y) in links_view(m):
        want_rels.add((pos[x], lf, pos[y])); want_rels.add((pos[y], rf, pos[x]))
    probs = []
    if sub['nodes'] != want_nodes: probs.append('exported nodes are not one per asset with id, name and type')
    if sorted(map(tuple, sub['rels'])) != sorted(want_rels): probs.append('exported relationships are not one per direction and linked pair, labelled with the field names')
    if back is None: probs.append('import of the exported model returns None')
    else:
        a = sorted([int(x.id), str(x.name), str(x.type)] for x in back.assets); b = sorted([int(x.id), str(x.name), str(x.type)] for x in m.assets)
        if a != b: probs.append('imported assets differ from the exported ones')
        elif links_view(back) != links_view(m): probs.append('imported links differ from the exported ones')
    if probs:
        return Violation(what=probs[0], fingerprint='C19:' + probs[0][:60], replay={'spec': spec, 'ops': ops, 'problems': probs})
    if mo is not None:
        if sorted(map(tuple, mo['sub']['rels'])) != sorted(map(tuple, sub['rels'])) or mo['sub']['nodes'] != sub['nodes']:
            return Violation(what='implementation and Lean model disagree on the exported subgraph', fingerprint='C19:model-divergence',
                             replay={'spec': spec, 'ops': ops, 'impl': sub, 'model': mo['sub']}, no_failing_input=True)
        if isinstance(mo.get('back'), str) or 'error' in mo:
            return Violation(what='Lean model of get_model fails: ' + str(mo.get('back') or mo.get('error')), fingerprint='C19:model-divergence',
                             replay={'spec': spec, 'ops': ops}, no_failing_input=True)
        im2 = Impl.__new__(Impl); im2.m = back
        x, y = canon_obs(Impl.obs(im2)), canon_obs(mo['back'])
        def pw(o): return sorted((a[0], a[1], l, a[3], r) for a in o['associations'] for l in a[2] for r in a[4])
        if [a[:3] for a in x['assets']] != [a[:3] for a in y['assets']] or pw(x) != pw(y):
            return Violation(what='implementation and Lean model disagree on the imported model', fingerprint='C19:model-divergence',
                             replay={'spec': spec, 'ops': ops, 'impl': x['associations'], 'model': y['associations']}, no_failing_input=True)
    if gen is not None: return gen_model_check(rec, gen, res, {'spec': spec, 'ops': ops})
    return None

def check_graph(ops, mo, gen=None, res=None, rec=None):
    rec = {} if rec is None else rec
    im = aghist.Impl()
    for op in ops: im.step(op)
    g = im.g
    def go(nj):
        nj.ingest_attack_graph(g, 'uri', 'u', 'p', 'db', delete=True)
        sg = StubGraph.store
        nodes = sorted(sg.nodes, key=lambda n: StubGraph.order[id(n)])
        idx = {id(n): i for i, n in enumerate(nodes)}
        rec['full'] = full_sub(sg)
        return {'nodes': [[str(list(n.labels)[0]), n['name'], n['full_name'], n['type'], n['ttc'], n['is_necessary'], n['is_viable'], n['compromised_by'], n['defense_status']] for n in nodes],
                'rels': sorted([idx[id(r.start_node)], idx[id(r.end_node)]] for r in sg.relationships)}
    try: sub = with_stub(go)
    except Exception as e:
        rec['raised'] = type(e).__name__
        return Violation(what=f'ingest_attack_graph raises {type(e).__name__}: {str(e)[:100]}', fingerprint='C19:graph-raises', replay={'ops': ops})
    want = [[str(n.asset.name) if n.asset else str(n.id), n.name, n.full_name, n.type, str(n.ttc), str(n.is_necessary), str(n.is_viable),
             str([a.name for a in n.compromised_by]), 'N/A' if n.defense_status is None else str(n.defense_status)] for n in g.nodes]
    pos = {id(n): i for i, n in enumerate(g.nodes)}
    wrels = sorted({(pos[id(n)], pos[id(c)]) for n in g.nodes for c in n.children})
    probs = []
    if sub['nodes'] != want: probs.append('exported step nodes are not one per attack step with its attributes')
    if sorted(map(tuple, sub['rels'])) != wrels: probs.append('exported relationships are not one per edge')
    if probs: return Violation(what=probs[0], fingerprint='C19:' + probs[0][:60], replay={'ops': ops, 'problems': probs})
    if mo is not None:
        mn = [[n[0], n[1], n[2], n[3], str(json.loads(n[4])) if n[4] != 'null' else 'None', str(n[5]), str(n[6]), str(n[7]), 'N/A' if n[8] is None else str(float(n[8]))] for n in mo['nodes']]
        if mn != sub['nodes'] or sorted(map(tuple, mo['rels'])) != sorted(map(tuple, sub['rels'])):
            return Violation(what='implementation and Lean model disagree on the exported attack graph', fingerprint='C19:model-divergence-graph',
                             replay={'ops': ops, 'impl': sub, 'model': {'nodes': mn, 'rels': mo['rels']}}, no_failing_input=True)
    if gen is not None: return gen_graph_check(rec, gen, res, {'ops': ops})
    return None

GW = {'add_node': 8, 'link': 12, 'add_attacker': 3, 'compromise': 4, 'set_labels': 2, 'remove_node': 1}

def run(seed, tier, lean) -> Result:
    rnd = random.Random(seed)
    res = Result(rule='models from random languages and API histories (several associations between one pair, self-links, sub-typed members of duplicate-named '
                      'associations) and attack graphs from random histories (duplicate edges, self-loops, attackers, labels) are ingested through a recording '
                      'stand-in for the database driver; the recorded subgraph is compared with the reference (one node per asset / step, one relationship per '
                      'direction / edge) and the Lean model; the model is read back with get_model and compared; non-trivial = two assets linked by >= 2 associations or a self-link')
    n = 150 if tier == 'quick' else 900
    mcases, gcases = [], []
    for i in range(n):
        r = random.Random(rnd.getrandbits(48))
        spec = LangGen(r, knobs={'dup_assoc_names': 0.4, 'reuse_fields': 0.6}).gen()
        mcases.append((spec, Gen(r, spec, WEIGHTS, explicit_attacker_ids=False, extras=False).gen(r.randint(4, 30))[:-1]))
        gcases.append(aghist.Gen(r, GW, nmax=r.choice([4, 7]), rich=True).gen(r.randint(5, 25))[:-1])
    mm = gm = gmm = ggm = None
    if lean['build_ok']:
        # ONE driver batch: the hand-written model and the generated code, models and attack graphs
        mp = [{'op': 'neo4j_model', 'case': i, 'lang': lang_payload(s), 'ops': o} for i, (s, o) in enumerate(mcases)]
        gp = [{'op': 'neo4j_graph', 'case': i, 'ops': o} for i, o in enumerate(gcases)]
        out = run_driver(mp + gp + [dict(p, op='gen_neo4j_model') for p in mp] + [dict(p, op='gen_neo4j_graph') for p in gp])
        mm, gm, gmm, ggm = out[:n], out[n:2 * n], out[2 * n:3 * n], out[3 * n:]
    for i, (spec, ops) in enumerate(mcases):
        res.evaluations += 1
        v = check_model(spec, ops, mm[i].get('model') if mm else None, gmm[i] if gmm else None, res)
        pairs = {}
        for o in ops:
            if o['k'] == 'add_association':
                for x in o['left']:
                    for y in o['right']: pairs[(min(x, y), max(x, y))] = pairs.get((min(x, y), max(x, y)), 0) + 1
        if any(c >= 2 for c in pairs.values()) or any(a == b for a, b in pairs): res.nontrivial.add(canon_hash([spec, ops]))
        if v: res.violations.append(v)
    for i, ops in enumerate(gcases):
        res.evaluations += 1
        v = check_graph(ops, gm[i].get('model') if gm else None, ggm[i] if ggm else None, res)
        if v: res.violations.append(v)
    if mm: res.samples.append({'exported': mm[0].get('model', {}).get('sub')})
    else: res.samples.append({'ops': mcases[0][1][:5]})
    return res

def genexec_measure(seed: int, n: int) -> dict:
    """tools/genexec_seeded.py: n model cases and n attack-graph cases of the quick check on the (possibly mutated)
    implementation, the hand-written model and the (re)generated code.  `impl_ne_hand`: the check of the case reports anything
    without the third column (the oracle - isomorphism / inversion - or the Lean model)."""
    rnd = random.Random(seed)
    stats = {'cases': 0, 'impl_ne_hand': 0, 'gen_follows_impl': 0, 'gen_ne_impl': 0, 'impl_crash': 0, 'examples': []}
    def note(kind, info):
        if len([e for e in stats['examples'] if e[0] == kind]) < 2: stats['examples'].append([kind, info])
    mcases, gcases = [], []
    for i in range(n):
        r = random.Random(rnd.getrandbits(48))
        spec = LangGen(r, knobs={'dup_assoc_names': 0.4, 'reuse_fields': 0.6}).gen()
        mcases.append((spec, Gen(r, spec, WEIGHTS, explicit_attacker_ids=False, extras=False).gen(r.randint(4, 30))[:-1]))
        gcases.append(aghist.Gen(r, GW, nmax=r.choice([4, 7]), rich=True).gen(r.randint(5, 25))[:-1])
    mp = [{'op': 'neo4j_model', 'case': i, 'lang': lang_payload(s), 'ops': o} for i, (s, o) in enumerate(mcases)]
    gp = [{'op': 'neo4j_graph', 'case': i, 'ops': o} for i, o in enumerate(gcases)]
    out = run_driver(mp + gp + [dict(p, op='gen_neo4j_model') for p in mp] + [dict(p, op='gen_neo4j_graph') for p in gp])
    mm, gm, gmm, ggm = out[:n], out[n:2 * n], out[2 * n:3 * n], out[3 * n:]
    def one(what, check, args, mo, go, gcheck, replay):
        stats['cases'] += 1
        if 'error' in mo or 'error' in go: note('driver-error', [what, mo.get('error'), go.get('error')]); return
        rec = {}
        try: v = check(*args, mo['model'], None, None, rec)
        except Exception as e:
            stats['impl_crash'] += 1; note('impl-crash', f'{what}: {type(e).__name__}: {str(e)[:100]}'); return
        names = ('ValueError', 'LookupError', 'DuplicateModelAssociationError', 'ModelAssociationException', 'KeyError', 'AttributeError',
                 'AssertionError', 'RecursionError')
        cls = rec.get('raised') if rec.get('raised') in names else 'OtherError'
        if 'full' not in rec:                              # the implementation raised before anything was recorded
            g = go['model']
            gv = None if g.get('error') == cls else f'disagree: the implementation raises {rec.get("raised")}, the generated code ' + (g.get('error') or 'stores a subgraph')
        else:
            if 'back' not in rec and what == 'model': rec['back'] = {'error': cls}
            gv = gcheck(rec, go, None, replay)
            gv = gv.what[:300] if gv else None
            gv = gv and gv[gv.find('disagree'):]
        if gv is not None: stats['gen_ne_impl'] += 1; note('gen!=impl', {'kind': what, 'gen_vs_impl': gv[:200], 'impl_vs_hand': v.fingerprint if v else None})
        if v is not None:
            stats['impl_ne_hand'] += 1
            if gv is None: stats['gen_follows_impl'] += 1; note('gen=impl!=hand', {'kind': what, 'impl_vs_hand': v.fingerprint})
    for i, (spec, ops) in enumerate(mcases): one('model', check_model, (spec, ops), mm[i], gmm[i], gen_model_check, {})
    for i, ops in enumerate(gcases): one('graph', check_graph, (ops,), gm[i], ggm[i], gen_graph_check, {})
    return stats

def replay(path):
    r = json.load(open(path))
    v = check_model(r['spec'], r['ops'], None) if 'spec' in r else check_graph(r['ops'], None)
    print(v.what if v else 'no violation'); print('VIOLATION reproduced' if v else 'not reproduced')
    return 1 if v else 0
