"""C14 — a deep copy of an attack graph is equal and fully independent."""
from __future__ import annotations
import json, random
from ..common import Result, Violation, run_driver, canon_hash
from ..aghist import Gen, Impl, canon_obs, canon_out, consistent, rejected_clean

ASSUMPTIONS = [
    'object identity is a runtime notion: the real sharing pattern is observed with id() on nodes, attackers and every mutable per-node container; in Lean identity is modelled by store references',
    'the copied graph is structurally consistent (C09)',
]
PARTIAL = 'partial: "shares no object" is proved for the store model (fresh references); for CPython objects it is observed, not proved'
TRUSTED = ['Lean 4.33 kernel', 'axioms: propext, Classical.choice, Quot.sound',
           'hand-written model AGS.deepcopy / viewIn in Model/AGSerial.lean (tied by this correspondence)',
           'harness/aghist.py, harness/props/c14.py']
BUILD = {'add_node': 8, 'link': 10, 'add_attacker': 4, 'compromise': 6, 'set_labels': 2, 'attach': 1, 'remove_node': 1, 'touch': 1}
MUTATE = {'add_node': 4, 'link': 4, 'remove_node': 3, 'add_attacker': 2, 'remove_attacker': 2, 'compromise': 5, 'undo': 3,
          'set_labels': 3, 'prune': 1, 'touch': 5, 'lookup': 1, 'switch': 1,
          # rejected calls on the copy / the original: they must change neither graph
          'add_attacker_bad': 1, 'add_attacker_used_id': 1, 'add_attacker_again': 1, 'add_node_again': 1}

def footprint(g):
    """ids of every object that must not be shared"""
    ids = {}
    def add(o, what):
        if o is not None and isinstance(o, (list, dict)) or what in ('node', 'attacker'):
            ids[id(o)] = what
            if what in ('tags', 'extras', 'ttc'):           # nested mutable values must not be shared either
                stack = list(o.values()) if isinstance(o, dict) else list(o)
                while stack:
                    x = stack.pop()
                    if isinstance(x, (list, dict)):
                        ids[id(x)] = 'a value nested in ' + what
                        stack += list(x.values()) if isinstance(x, dict) else list(x)
    for n in g.nodes:
        add(n, 'node'); add(n.children, 'children list'); add(n.parents, 'parents list'); add(n.tags, 'tags'); add(n.extras, 'extras')
        add(n.ttc, 'ttc'); add(n.compromised_by, 'compromised_by list')
    for a in g.attackers:
        add(a, 'attacker'); add(a.entry_points, 'entry_points list'); add(a.reached_attack_steps, 'reached list')
    for d, w in ((g._id_to_node, 'id index'), (g._full_name_to_node, 'name index'), (g._id_to_attacker, 'attacker index')):
        ids[id(d)] = w
    ids[id(g.nodes)] = 'nodes list'; ids[id(g.attackers)] = 'attackers list'
    return ids

def closed(g):
    own_n = {id(n) for n in g.nodes}; own_a = {id(a) for a in g.attackers}
    probs = []
    for n in g.nodes:
        if any(id(x) not in own_n for x in list(n.children) + list(n.parents)): probs.append('a copied node references a node outside the copy')
        if any(id(x) not in own_a for x in n.compromised_by): probs.append('a copied node references an attacker outside the copy')
    for a in g.attackers:
        if any(id(x) not in own_n for x in list(a.entry_points) + list(a.reached_attack_steps)): probs.append('a copied attacker references a node outside the copy')
    if any(id(v) not in own_n for v in g._id_to_node.values()) or any(id(v) not in own_n for v in g._full_name_to_node.values()):
        probs.append('a lookup index of the copy points outside the copy')
    if any(id(v) not in own_a for v in g._id_to_attacker.values()): probs.append('the attacker index of the copy points outside the copy')
    return probs

def run_one(ops, mo_steps, res, tap=None):
    """`tap(phase, i, op, im, st)` (third column, `GenDocs`): called before / after every step and at the end"""
    im = Impl()
    frozen = None
    for i, op in enumerate(ops):
        if tap: tap('before', i, op, im, None)
        st = im.step(op)
        res.bump(op['k'])
        if tap: tap('after', i, op, im, st)
        if 'case' in op: res.bump(op['case'] + (' -> ' + st['err'] if st['err'] else ' -> accepted'))
        probs = rejected_clean(st)
        if op['k'] == 'deepcopy':
            a, b = canon_obs(st['obs']), canon_obs(st['other'])
            if a != b: probs.append('the copy differs from the original in ' + ', '.join(k for k in a if a[k] != b[k]))
            elif im.g._to_dict() != im.other._to_dict(): probs.append('the serialized content of the copy differs from the original (order inside a node or attacker entry)')
            elif (im.g.next_node_id, im.g.next_attacker_id) != (im.other.next_node_id, im.other.next_attacker_id): probs.append('counters of the copy differ')
            shared = set(footprint(im.g)) & set(footprint(im.other))
            if shared: probs.append('copy and original share ' + ', '.join(sorted({footprint(im.g)[x] for x in shared})))
            if im.g.model is not im.other.model or im.g.lang_graph is not im.other.lang_graph: probs.append('model / language not shared')
            probs += closed(im.g)
            frozen = b
        elif op['k'] == 'switch':
            frozen = canon_obs(st['other'])
        elif frozen is not None:
            if canon_obs(st['other']) != frozen:
                probs.append(f'a change to one graph ({op["k"]}' + (f' {op["field"]}' if op['k'] == 'touch' else '') + ') is visible in the other')
        if probs: return ('oracle', i, probs)
        if mo_steps is not None:
            mo = mo_steps[i]
            a = [st['err'], canon_out(op, st['out']), canon_obs(st['obs']), canon_obs(st['other']) if st['other'] else None]
            b = [mo['err'], canon_out(op, mo['out']), canon_obs(mo['obs']), canon_obs(mo['other']) if mo['other'] else None]
            if a != b:
                return ('diverge', i, {'impl': a, 'model': b})
    if tap: tap('end', len(ops), None, im, None)
    return None

# ---- third column (genexec2): the DOCUMENTS of the generated `_to_dict` for the copy and the original ----------------
def doc_positions(ops):
    """where the documents are compared: right after the deep copy (= before the next step) and at the end of the history
    (after the mutations of the copy / the original); both times for the current graph AND the other side of the copy"""
    return [i + 1 for i, o in enumerate(ops) if o['k'] == 'deepcopy'] + [len(ops)]

class GenDocs:
    """for ONE history: the dictionaries of the real `AttackGraph._to_dict()` of both graphs against the documents the
    generated `graph__to_dict` returned for the heap replayed with the generated `graph___deepcopy__` (op `gen_ag_todict`)"""
    def __init__(self, gen_docs, res, count=True):
        self.gen = {d['pos']: d for d in gen_docs}; self.res = res; self.count = count
        self.bad = []; self.ttc_touched = False
    def __call__(self, phase, i, op, im, st):
        from .. import genexec
        if phase == 'after':
            if op['k'] == 'touch' and op['field'] == 'ttc': self.ttc_touched = True
            return
        g = self.gen.get(i)
        if g is None: return
        for side, graph, gdoc in (('current graph', im.g, g['doc']), ('other side of the copy', im.other, g['other'])):
            if (graph is None) != (gdoc is None):
                self.bad.append((i, side, 'one side has no second graph', None, gdoc)); continue
            if graph is None: continue
            real = graph._to_dict()
            d = genexec.ag_doc_compare(real, gdoc, self.res if self.count else None, self.ttc_touched)
            if self.count: self.res.bump('generated_code_documents_compared')
            if d: self.bad.append((i, side, d, real, gdoc))

# ---- second scenario family (real objects only): states that the operation histories above do not reach ----------
def gen_extra(rnd):
    return {'kind': rnd.choice(['stale_index', 'renamed_asset', 'failed_add_attacker']), 'n': rnd.randint(2, 6), 'seed': rnd.getrandbits(32)}

def run_extra(sc):
    """(a) the original's name index is out of step with the current full names (a node whose full name was already in
    use was added and removed again, or a model asset was renamed after generation): the copy must answer every
    lookup as the original does; (b) an `add_attacker` that failed half-way left nodes compromised by an attacker that
    is not registered: the copy must not reach that object, nor through it the original's nodes."""
    import copy, types
    from maltoolbox.attackgraph import AttackGraph, AttackGraphNode, Attacker
    from maltoolbox.exceptions import AttackGraphException
    r = random.Random(sc['seed'])
    g = AttackGraph()
    assets = [types.SimpleNamespace(name=nm) for nm in ('A', 'B', 'A:1')]
    nodes = []
    for i in range(sc['n']):
        n = AttackGraphNode(type=r.choice(['or', 'and', 'defense']), name=r.choice(['s0', 's1', f's{i}']), ttc=None, asset=r.choice(assets + [None]))
        if n.asset is not None and any(m.asset is n.asset and m.name == n.name for m in nodes): n.name = f'u{i}'
        g.add_node(n); nodes.append(n)
    for p in nodes:
        for c in nodes:
            if r.random() < 0.3: p.children.append(c); c.parents.append(p)
    reg = Attacker(name='reg', entry_points=[], reached_attack_steps=[])
    g.add_attacker(reg, entry_points=[nodes[0].id], reached_attack_steps=[nodes[0].id])
    names = [n.full_name for n in nodes]
    if sc['kind'] == 'stale_index':
        v = r.choice([n for n in nodes if n.asset is not None] or nodes)
        dup = AttackGraphNode(type='or', name=v.name, ttc=None, asset=v.asset)
        g.add_node(dup); g.remove_node(dup)
    elif sc['kind'] == 'renamed_asset':
        a = r.choice(assets); a.name = a.name + '_renamed'
        names += [n.full_name for n in nodes]
    else:
        bad = Attacker(name='half', entry_points=[], reached_attack_steps=[])
        try:
            g.add_attacker(bad, entry_points=[nodes[0].id, 987654], reached_attack_steps=[n.id for n in r.sample(nodes, r.randint(1, len(nodes)))])
            return 'add_attacker with an unknown entry point id did not raise'
        except AttackGraphException:
            pass
        # since fix b507c7f a rejected add_attacker leaves nothing behind; the state "a node is compromised by an
        # attacker object that is not registered in the graph" is still reachable through the public Attacker.compromise
        for n in r.sample(nodes, r.randint(1, len(nodes))):
            bad.compromise(n)
    cp = copy.deepcopy(g)
    f = lambda o: None if o is None else o.id
    for nm in names:
        if f(g.get_node_by_full_name(nm)) != f(cp.get_node_by_full_name(nm)):
            return f'lookup by full name answers differently in the copy ({sc["kind"]}): original {f(g.get_node_by_full_name(nm))}, copy {f(cp.get_node_by_full_name(nm))}'
    for i in range(-1, len(nodes) + 2):
        if f(g.get_node_by_id(i)) != f(cp.get_node_by_id(i)): return 'lookup by id answers differently in the copy'
    if g._to_dict() != cp._to_dict(): return f'the serialized content of the copy differs from the original ({sc["kind"]})'
    orig_objs = {id(n) for n in g.nodes} | {id(a) for a in g.attackers} | {id(a) for n in g.nodes for a in n.compromised_by}
    own_n = {id(n) for n in cp.nodes}
    for n in cp.nodes:
        for a in n.compromised_by:
            if id(a) in orig_objs: return f'a copied node is compromised by an attacker object of the original ({sc["kind"]})'
            if any(id(x) not in own_n for x in list(a.reached_attack_steps) + list(a.entry_points)):
                return f'an attacker referenced by the copy references a node outside the copy ({sc["kind"]})'
        if any(id(x) not in own_n for x in list(n.children) + list(n.parents)): return 'a copied node references a node outside the copy'
    # independence: undoing in the copy must not touch the original
    before = g._to_dict()
    for n in cp.nodes:
        for a in list(n.compromised_by):
            try: a.undo_compromise(n)
            except Exception: pass
    if g._to_dict() != before: return f'a change to the copy is visible in the original ({sc["kind"]})'
    return None

def gen_history(rnd):
    g = Gen(rnd, BUILD, nmax=rnd.choice([4, 6, 9]), rich=True, bare_defenses=True)
    g.gen(rnd.randint(6, 25)); g.ops.pop()
    n0 = len(g.ops)
    g.w = {'deepcopy': 1}; g.gen(n0 + 1); g.ops.pop()
    g.w = MUTATE
    g.gen(len(g.ops) + rnd.randint(4, 25))
    return g.ops

def run(seed, tier, lean) -> Result:
    rnd = random.Random(seed)
    res = Result(rule='graphs with attackers, labels, tags, extras and TTCs built by random histories, deep-copied, then mutated on the copy and '
                      '(after a switch) on the original; at the copy: equal canonical state, no shared node / attacker / mutable container (id()), '
                      'all references closed inside the copy; after every later operation the other graph is unchanged; both views compared with the '
                      'Lean store model; non-trivial = the graph has an attacker with a reached step and a node with non-empty tags/extras/ttc when copied')
    n = 300 if tier == 'quick' else 1800
    hists = [gen_history(random.Random(rnd.getrandbits(48))) for _ in range(n)]
    from .. import genexec
    model = gen = None
    if lean['build_ok']:
        model, gen = genexec.run_both([{'op': 'ag_hist', 'case': i, 'ops': h} for i, h in enumerate(hists)], 'gen_ag_todict',
                                      rewrite=lambda q: dict(q, pos=doc_positions(q['ops'])))
    for hi, ops in enumerate(hists):
        res.evaluations += 1
        mo = None
        if model is not None:
            if 'error' in model[hi]:
                res.violations.append(Violation(what='driver rejected a history: ' + model[hi]['error'], fingerprint='C14:driver-error',
                                                replay={'ops': ops}, no_failing_input=True)); continue
            mo = model[hi]['model']
        tap = None
        if gen is not None and gen[hi] is not None:
            if 'error' in gen[hi]: res.violations.append(genexec.driver_error('C14', gen[hi]['error'], {'ops': ops}))
            else: tap = GenDocs(gen[hi]['model'], res)
        bad = run_one(ops, mo, res, tap)
        if tap is not None and not bad:
            # third column: hand model = implementation and the oracle passes on this history
            for pos, side, what, real, gdoc in tap.bad[:1]:
                res.violations.append(genexec.divergence('C14', '_to_dict', f'on the document of the {side} before step {pos} ({what})',
                    {'ops': ops[:pos], 'impl_doc': genexec.ag_doc_encode(real) if real is not None else None, 'generated_doc': gdoc}))
        k = next(i for i, o in enumerate(ops) if o['k'] == 'deepcopy')
        if any(o['k'] == 'add_attacker' and o['reached'] for o in ops[:k]) and any(o['k'] == 'add_node' and (o.get('tags') or o.get('extras')) for o in ops[:k]):
            res.nontrivial.add(canon_hash(ops))
        if bad:
            kind, at, info = bad
            if kind == 'oracle':
                res.violations.append(Violation(what=f'{info[0]} ({at + 1} operations)', fingerprint='C14:' + info[0].split(' (')[0][:70],
                                                replay={'ops': ops[:at + 1], 'problems': info}))
            else:
                res.violations.append(Violation(what=f'implementation and Lean model disagree after step {at} ({ops[at]["k"]})',
                                                fingerprint='C14:model-divergence:' + ops[at]['k'], replay={'ops': ops[:at + 1], **info}, no_failing_input=True))
        if len(res.samples) < 2: res.samples.append({'ops': ops[:8] + ['...'] + ops[k:k + 4]})
    rnd2 = random.Random(seed ^ 0x14C14)
    for _ in range(300 if tier == 'quick' else 1800):
        sc = gen_extra(rnd2)
        res.evaluations += 1; res.bump('extra:' + sc['kind'])
        bad = run_extra(sc)
        if bad:
            res.violations.append(Violation(what=bad, fingerprint='C14:extra:' + bad.split(' (')[0][:60], replay={'extra_scenario': sc, 'problem': bad}))
            break
    return res

def genexec_measure(seed: int, n: int) -> dict:
    """seeded experiment (tools/genexec_seeded.py), DOCUMENT family only (the history family is measured by the tool
    itself): n histories of the quick check on the (mutated) implementation, the hand model (`ag_hist`, step by step up to
    the first disagreement) and the (regenerated) code: the documents of `_to_dict` of the copy and the original right
    after the deep copy and at the end.  A case = one history."""
    from .. import genexec
    rnd = random.Random(seed)
    st = {'cases': 0, 'impl_ne_hand': 0, 'gen_follows_impl': 0, 'gen_ne_impl': 0, 'impl_crash': 0, 'examples': []}
    def note(kind, info):
        if len([e for e in st['examples'] if e[0] == kind]) < 2: st['examples'].append([kind, info])
    hists = [gen_history(random.Random(rnd.getrandbits(48))) for _ in range(n)]
    hand, gen = genexec.run_both([{'op': 'ag_hist', 'case': i, 'ops': h} for i, h in enumerate(hists)], 'gen_ag_todict',
                                 rewrite=lambda q: dict(q, pos=doc_positions(q['ops'])))
    res = Result(); differ_docs = 0
    for hi, ops in enumerate(hists):
        st['cases'] += 1
        if 'error' in hand[hi] or 'error' in gen[hi]:
            note('driver-error', [hand[hi].get('error'), gen[hi].get('error')]); continue
        tap = GenDocs(gen[hi]['model'], res)
        im = Impl(); first = None
        for i, op in enumerate(ops):
            tap('before', i, op, im, None)
            try: s_ = im.step(op)
            except Exception as e:
                st['impl_crash'] += 1; note('impl-crash', f'{type(e).__name__} at step {i} ({op["k"]}): {str(e)[:80]}'); first = -1; break
            mo = hand[hi]['model'][i]
            tap('after', i, op, im, s_)
            a = [s_['err'], canon_out(op, s_['out']), canon_obs(s_['obs']), canon_obs(s_['other']) if s_['other'] else None]
            b = [mo['err'], canon_out(op, mo['out']), canon_obs(mo['obs']), canon_obs(mo['other']) if mo['other'] else None]
            if a != b:
                first = i
                if op['k'] == 'deepcopy': tap('before', i + 1, None, im, None)     # the documents of the copy that differs
                break
        else:
            tap('end', len(ops), None, im, None)
        differ_docs += len(tap.bad)
        if first is not None and first >= 0:
            st['impl_ne_hand'] += 1
            if not tap.bad:
                st['gen_follows_impl'] += 1; note('gen=impl!=hand', {'history': hi, 'step': first, 'op': ops[first]})
        if tap.bad:
            st['gen_ne_impl'] += 1; note('gen!=impl', {'ops': ops[:tap.bad[0][0]], 'side': tap.bad[0][1], 'what': tap.bad[0][2]})
    st['document_family'] = dict({k: st[k] for k in ('cases', 'impl_ne_hand', 'gen_follows_impl', 'gen_ne_impl', 'impl_crash')},
                                 documents_compared=res.distribution.get('generated_code_documents_compared', 0), documents_differ=differ_docs)
    return st

def replay(path):
    r = json.load(open(path))
    if 'extra_scenario' in r:
        bad = run_extra(r['extra_scenario']); print(bad); print('VIOLATION reproduced' if bad else 'not reproduced'); return 1 if bad else 0
    bad = run_one(r['ops'], None, Result())
    print(bad); print('VIOLATION reproduced' if bad else 'not reproduced')
    return 1 if bad else 0
