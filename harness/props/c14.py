"""C14 — a deep copy of an attack graph is equal and fully independent."""
from __future__ import annotations
import json, random
from ..common import Result, Violation, run_driver, canon_hash
from ..aghist import Gen, Impl, canon_obs, canon_out, consistent

ASSUMPTIONS = [
    'object identity is a runtime notion: the real sharing pattern is observed with id() on nodes, attackers and every mutable per-node container; in Lean identity is modelled by store references',
    'the copied graph is structurally consistent (C09)',
]
PARTIAL = 'partial: "shares no object" is proved for the store model (fresh references); for CPython objects it is observed, not proved'
TRUSTED = ['Lean 4.33 kernel', 'axioms: propext, Classical.choice, Quot.sound',
           'hand-written model AGS.deepcopy / viewIn in Model/AGSerial.lean (tied by this correspondence)',
           'harness/aghist.py, harness/props/c14.py']
BUILD = {'add_node': 8, 'link': 10, 'add_attacker': 4, 'compromise': 6, 'set_labels': 2, 'attach': 1, 'remove_node': 1, 'touch': 1}
MUTATE = {'add_node': 4, 'link': 4, 'remove_node': 3, 'add_attacker': 2, 'remove_attacker': 2, 'compromise': 5, 'undo': 3,
          'set_labels': 3, 'prune': 1, 'touch': 5, 'lookup': 1, 'switch': 1}

def footprint(g):
    """ids of every object that must not be shared"""
    ids = {}
    def add(o, what):
        if o is not None and isinstance(o, (list, dict)) or what in ('node', 'attacker'):
            ids[id(o)] = what
            if what in ('tags', 'extras', 'ttc'):           # nested mutable values must not be shared either
                stack = list(o.values()) if isinstance(o, dict) else list(o)
                while stack:
                    x = stack.pop()
                    if isinstance(x, (list, dict)):
                        ids[id(x)] = 'a value nested in ' + what
                        stack += list(x.values()) if isinstance(x, dict) else list(x)
    for n in g.nodes:
        add(n, 'node'); add(n.children, 'children list'); add(n.parents, 'parents list'); add(n.tags, 'tags'); add(n.extras, 'extras')
        add(n.ttc, 'ttc'); add(n.compromised_by, 'compromised_by list')
    for a in g.attackers:
        add(a, 'attacker'); add(a.entry_points, 'entry_points list'); add(a.reached_attack_steps, 'reached list')
    for d, w in ((g._id_to_node, 'id index'), (g._full_name_to_node, 'name index'), (g._id_to_attacker, 'attacker index')):
        ids[id(d)] = w
    ids[id(g.nodes)] = 'nodes list'; ids[id(g.attackers)] = 'attackers list'
    return ids

def closed(g):
    own_n = {id(n) for n in g.nodes}; own_a = {id(a) for a in g.attackers}
    probs = []
    for n in g.nodes:
        if any(id(x) not in own_n for x in list(n.children) + list(n.parents)): probs.append('a copied node references a node outside the copy')
        if any(id(x) not in own_a for x in n.compromised_by): probs.append('a copied node references an attacker outside the copy')
    for a in g.attackers:
        if any(id(x) not in own_n for x in list(a.entry_points) + list(a.reached_attack_steps)): probs.append('a copied attacker references a node outside the copy')
    if any(id(v) not in own_n for v in g._id_to_node.values()) or any(id(v) not in own_n for v in g._full_name_to_node.values()):
        probs.append('a lookup index of the copy points outside the copy')
    if any(id(v) not in own_a for v in g._id_to_attacker.values()): probs.append('the attacker index of the copy points outside the copy')
    return probs

def run_one(ops, mo_steps, res):
    im = Impl()
    frozen = None
    for i, op in enumerate(ops):
        st = im.step(op)
        res.bump(op['k'])
        probs = []
        if op['k'] == 'deepcopy':
            a, b = canon_obs(st['obs']), canon_obs(st['other'])
            if a != b: probs.append('the copy differs from the original in ' + ', '.join(k for k in a if a[k] != b[k]))
            elif im.g._to_dict() != im.other._to_dict(): probs.append('the serialized content of the copy differs from the original (order inside a node or attacker entry)')
            elif (im.g.next_node_id, im.g.next_attacker_id) != (im.other.next_node_id, im.other.next_attacker_id): probs.append('counters of the copy differ')
            shared = set(footprint(im.g)) & set(footprint(im.other))
            if shared: probs.append('copy and original share ' + ', '.join(sorted({footprint(im.g)[x] for x in shared})))
            if im.g.model is not im.other.model or im.g.lang_graph is not im.other.lang_graph: probs.append('model / language not shared')
            probs += closed(im.g)
            frozen = b
        elif op['k'] == 'switch':
            frozen = canon_obs(st['other'])
        elif frozen is not None:
            if canon_obs(st['other']) != frozen:
                probs.append(f'a change to one graph ({op["k"]}' + (f' {op["field"]}' if op['k'] == 'touch' else '') + ') is visible in the other')
        if probs: return ('oracle', i, probs)
        if mo_steps is not None:
            mo = mo_steps[i]
            a = [st['err'], canon_out(op, st['out']), canon_obs(st['obs']), canon_obs(st['other']) if st['other'] else None]
            b = [mo['err'], canon_out(op, mo['out']), canon_obs(mo['obs']), canon_obs(mo['other']) if mo['other'] else None]
            if a != b:
                return ('diverge', i, {'impl': a, 'model': b})
    return None

def gen_history(rnd):
    g = Gen(rnd, BUILD, nmax=rnd.choice([4, 6, 9]), rich=True)
    g.gen(rnd.randint(6, 25)); g.ops.pop()
    n0 = len(g.ops)
    g.w = {'deepcopy': 1}; g.gen(n0 + 1); g.ops.pop()
    g.w = MUTATE
    g.gen(len(g.ops) + rnd.randint(4, 25))
    return g.ops

def run(seed, tier, lean) -> Result:
    rnd = random.Random(seed)
    res = Result(rule='graphs with attackers, labels, tags, extras and TTCs built by random histories, deep-copied, then mutated on the copy and '
                      '(after a switch) on the original; at the copy: equal canonical state, no shared node / attacker / mutable container (id()), '
                      'all references closed inside the copy; after every later operation the other graph is unchanged; both views compared with the '
                      'Lean store model; non-trivial = the graph has an attacker with a reached step and a node with non-empty tags/extras/ttc when copied')
    n = 300 if tier == 'quick' else 12000
    hists = [gen_history(random.Random(rnd.getrandbits(48))) for _ in range(n)]
    model = run_driver([{'op': 'ag_hist', 'case': i, 'ops': h} for i, h in enumerate(hists)]) if lean['build_ok'] else None
    for hi, ops in enumerate(hists):
        res.evaluations += 1
        mo = None
        if model is not None:
            if 'error' in model[hi]:
                res.violations.append(Violation(what='driver rejected a history: ' + model[hi]['error'], fingerprint='C14:driver-error',
                                                replay={'ops': ops}, no_failing_input=True)); continue
            mo = model[hi]['model']
        bad = run_one(ops, mo, res)
        k = next(i for i, o in enumerate(ops) if o['k'] == 'deepcopy')
        if any(o['k'] == 'add_attacker' and o['reached'] for o in ops[:k]) and any(o['k'] == 'add_node' and (o.get('tags') or o.get('extras')) for o in ops[:k]):
            res.nontrivial.add(canon_hash(ops))
        if bad:
            kind, at, info = bad
            if kind == 'oracle':
                res.violations.append(Violation(what=f'{info[0]} ({at + 1} operations)', fingerprint='C14:' + info[0].split(' (')[0][:70],
                                                replay={'ops': ops[:at + 1], 'problems': info}))
            else:
                res.violations.append(Violation(what=f'implementation and Lean model disagree after step {at} ({ops[at]["k"]})',
                                                fingerprint='C14:model-divergence:' + ops[at]['k'], replay={'ops': ops[:at + 1], **info}, no_failing_input=True))
        if len(res.samples) < 2: res.samples.append({'ops': ops[:8] + ['...'] + ops[k:k + 4]})
    return res

def replay(path):
    r = json.load(open(path))
    bad = run_one(r['ops'], None, Result())
    print(bad); print('VIOLATION reproduced' if bad else 'not reproduced')
    return 1 if bad else 0
