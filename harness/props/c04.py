"""C04 — the MAL compiler's output is the language the source text denotes."""
from __future__ import annotations
import copy, json, os, random, zipfile
from ..common import Result, Violation, run_driver, canon_hash, scratch, REPO
from ..langgen import LangGen
from .. import malsrc

ASSUMPTIONS = [
    'antlr4 runtime 4.13.2 and the generated mal_lexer.py / mal_parser.py implement the maximal-munch lexer and the LL parser of mal.g4; tied by running the same texts through them and the Lean recursive-descent model',
    'numbers are compared after float(); the model keeps lexemes',
    'MalCompiler.compile accepts a file iff the start rule parses and consumes the whole token stream (EOF check of e0054c2); the printed texts are consumed completely (theorem parse_print_consumed; comments and blanks after the last declaration are not input)',
    'specifications are printable: names are lexable identifiers that are not reserved tokens (E C I A and keywords), strings contain no double quote, reaches expressions end in their attack step, let / requires expressions contain no attack step',
]
TRUSTED = ['Lean 4.33 kernel', 'axioms: propext, Classical.choice, Quot.sound',
           'hand-written model Model/Compiler/{Token,Syntax,Parser}.lean (tied by this correspondence)',
           'harness/malsrc.py (pretty printer, re-formatter, file splitting), harness/langgen.py']

def gen_spec(r):
    spec = LangGen(r, knobs={'sibling_sets': True}).gen()
    cats = ['Cat', 'System'][:r.randint(1, 2)]
    spec['categories'] = [{'name': c, 'meta': {} if r.random() < 0.7 else {'user': 'category info'}} for c in cats]
    for a in spec['assets']: a['category'] = r.choice(cats)
    # assets are listed category by category in the compiled result
    spec['assets'] = [a for c in cats for a in spec['assets'] if a['category'] == c]
    spec['categories'] = [c for c in spec['categories'] if any(a['category'] == c['name'] for a in spec['assets'])] or spec['categories'][:1]
    if r.random() < 0.5: spec['defines']['extra'] = 'value with spaces'
    # strings are raw in MAL (everything between two quotes): line breaks of every kind, tabs, non-ASCII text
    odd = ['line one\r\nline two', 'carriage\rreturn', 'two\nlines', 'tab\there', 'caf\u00e9 \u4e2d\u6587', '  padded  ', '']
    for holder in [spec['categories'][0]] + spec['assets'] + spec['associations'] + [st for a in spec['assets'] for st in a['attackSteps']]:
        if r.random() < 0.12: holder['meta'] = dict(holder.get('meta') or {}, user=r.choice(odd))
    if r.random() < 0.2: spec['defines']['note'] = r.choice(odd)
    if spec['associations'] and r.random() < 0.35:
        # the same association name between the same two asset types once more, with other fields / multiplicities
        # (legal MAL; the compiler must keep both declarations)
        import copy as _c
        d = _c.deepcopy(r.choice(spec['associations']))
        d['leftField'] += 'b'; d['rightField'] += 'b'; d['rightMultiplicity'] = {'min': 1, 'max': 1}
        spec['associations'].append(d)
    for a in spec['assets']:
        for s in a['attackSteps']:
            if s['ttc'] is not None and r.random() < 0.4 and s['type'] != 'defense':
                s['ttc'] = gen_ttc(r, 3)
    return spec

def gen_ttc(r, depth):
    if depth == 0 or r.random() < 0.3:
        return r.choice([{'type': 'function', 'name': 'Exponential', 'arguments': [0.1]}, {'type': 'number', 'value': 3.0},
                         {'type': 'function', 'name': 'Gamma', 'arguments': [1.5, 15.0]}, {'type': 'function', 'name': 'Zero', 'arguments': []}])
    k = r.choice(['addition', 'subtraction', 'multiplication', 'division', 'multiplication', 'exponentiation'])
    return {'type': k, 'lhs': gen_ttc(r, depth - 1), 'rhs': gen_ttc(r, depth - 1)}

def compile_real(files, root, tag):
    from maltoolbox.language.compiler import MalCompiler
    d = os.path.join(scratch(), 'c04-' + tag)
    malsrc.write_files(d, files)
    return MalCompiler().compile(os.path.join(d, root))

def check_case(spec, rnd, mo_plain, res):
    want = malsrc.canon_spec(spec)
    blks = malsrc.blocks(spec)
    plain = '\n'.join(blks) + '\n'
    variants = [('single file', {'m.mal': plain}, 'm.mal', True)]
    noisy = '\n'.join(malsrc.blocks(spec, noise=rnd, rnd=rnd)) + '\n'
    variants.append(('re-formatted (comments, spacing, redundant parentheses, alternative multiplicity forms)', {'m.mal': malsrc.reformat(noisy, rnd)}, 'm.mal', True))
    # since e0054c2 the compiler requires EOF after the last declaration: comments and blanks are not input
    tail = rnd.choice([' // the end', '\n/* the end */', '   ', '\n\n\t', ' // c\r\n /* d " */ ', '\n// }', ''])
    variants.append(('text ending in a comment / blanks without final newline', {'m.mal': plain.rstrip('\n') + tail}, 'm.mal', True))
    f1, root1 = malsrc.split_files(blks, rnd, True)
    variants.append(('split over included files (order preserved, repeated include)', f1, root1, True))
    f2, root2 = malsrc.split_files(blks, rnd, False)
    variants.append(('split over included files (arbitrary distribution)', f2, root2, False))
    # visitMal de-duplicates with Python's `==`: dictionaries ignore key ORDER, numbers are floats.  Every declaration
    # block once more at the end, its meta entries (category, assets, steps, associations) in reversed order and its
    # first float literal spelled with a trailing zero: the compiler (and the model: `dedupBy assetEqv`) merges them
    import copy, re as _re
    spec2 = copy.deepcopy(spec)
    for part in (spec2['categories'], spec2['assets'], spec2['associations']):
        for x in part:
            x['meta'] = dict(reversed(list(x['meta'].items())))
    for a in spec2['assets']:
        for st in a['attackSteps']:
            st['meta'] = dict(reversed(list(st['meta'].items())))
    dup = [_re.sub(r'(\[[^\]\["]*?)(?<![\w.])(\d+\.\d+)(?![\w.])', r'\g<1>\g<2>0', b, count=1) for b in malsrc.blocks(spec2) if not b.startswith('#')]
    variants.append(('every declaration twice, the copy with its meta entries in reversed order and a number re-spelled (merged by ==)',
                     {'m.mal': plain + '\n'.join(dup) + '\n'}, 'm.mal', True))
    payloads = []
    for i, (what, files, root, exact) in enumerate(variants):
        try:
            got = malsrc.canon_spec(compile_real(files, root, str(i)))
        except Exception as e:
            return Violation(what=f'compiling a valid specification fails ({what}): {type(e).__name__}: {str(e)[:100]}', fingerprint='C04:compile-raises',
                             replay={'spec': spec, 'files': files, 'root': root}), payloads
        a, b = (got, want) if exact else (sort_spec(got), sort_spec(want))
        if a != b:
            diff = [k for k in b if a.get(k) != b[k]]
            return Violation(what=f'compiled specification differs from the source in {diff} ({what})', fingerprint='C04:' + what.split(' (')[0] + ':' + ','.join(diff),
                             replay={'spec': spec, 'files': files, 'root': root, 'got': {k: got.get(k) for k in diff}, 'want': {k: want[k] for k in diff}}), payloads
        payloads.append(({'op': 'compile', 'files': [[k, v] for k, v in files.items()], 'root': root}, got, what))
    return None, payloads

# ---- recompile: the compiler's answer is a function of what the files say NOW ------------------------------------
def edit_in_place(spec):
    """what a caller may do with the dictionary it was handed: deep, in-place edits (no top-level key is re-assigned)"""
    spec['associations'].clear()
    spec['defines']['id'] = 'edited.in.place'; spec['defines']['injected'] = 'by the caller'
    for c in spec['categories']: c['name'] += 'Edited'; c['meta']['edited'] = 'x'
    for a in spec['assets']:
        a['name'] += 'Renamed'; a['variables'].clear(); a['superAsset'] = None
        for st in a['attackSteps']:
            st['reaches'] = None; st['requires'] = None; st['ttc'] = None; st['tags'].append('edited'); st['meta']['edited'] = 'x'
        del a['attackSteps'][1:]
    del spec['assets'][1:]

def rewrite_include(files, root, rnd):
    """the same files with ONE included file (the root file, if nothing is included) given other declarations and another
    length; every other file byte-identical"""
    incs = sorted(n for n in files if n != root) or [root]
    nm = rnd.choice(incs)
    import re
    blks = [b for b in files[nm].split('\n') if re.fullmatch(r'#\w+: "[^"]*"', b)] if rnd.random() < 0.3 else [files[nm].rstrip('\n')]
    k = rnd.randint(1, 3)
    extra = [f'#recompiled{k}: "round {k}"', f'category Rc{k} {{\n  asset RcAsset{k} {{\n    | rcStep{k}\n  }}\n}}'][:rnd.randint(1, 2)]
    new = '\n'.join([b for b in blks if b] + extra) + '\n'
    if len(new) == len(files[nm]): new += '\n'
    return dict(files, **{nm: new}), nm

def recompile_scenario(files, root, files2, changed, want):
    """compile; edit the result in place; compile the same path again (same and fresh compiler object); rewrite one
    included file; compile again.  Returns (violation | None, [(files, root, got, what)] for the model)"""
    from maltoolbox.language.compiler import MalCompiler
    d = os.path.join(scratch(), 'c04-recompile'); os.makedirs(d, exist_ok=True)
    for nm in os.listdir(d):
        if nm not in files: os.remove(os.path.join(d, nm))
    malsrc.write_files(d, files)
    path = os.path.join(d, root)
    rep = {'scenario': {'files': files, 'root': root, 'files2': files2, 'changed': changed}, 'want': want}
    def bad(what, fp, **kw): return Violation(what=what, fingerprint=fp, replay=dict(rep, **kw)), []
    try:
        same = MalCompiler()
        r1 = same.compile(path)
        if malsrc.canon_spec(copy.deepcopy(r1)) != want:
            return bad('compiled specification differs from the source (first compilation of the recompile scenario)', 'C04:recompile-first')
        edit_in_place(r1)
        for who, comp in (('the same compiler object', same), ('a fresh compiler object', MalCompiler())):
            r = comp.compile(path)
            got = malsrc.canon_spec(copy.deepcopy(r))
            if got != want:
                diff = [k for k in want if got.get(k) != want[k]]
                return bad(f'the unchanged file compiled again by {who}, after the caller edited the previously returned specification in place, gives the '
                           f'edited specification, not what the file says (differs in {diff})', 'C04:recompile-after-edit', got={k: got.get(k) for k in diff})
            edit_in_place(r)
        # one included file rewritten; the main file is not touched (same bytes, same mtime)
        with open(os.path.join(d, changed), 'w', encoding='utf-8') as fh: fh.write(files2[changed])
        dref = os.path.join(scratch(), 'c04-recompile-ref')
        if os.path.isdir(dref):
            for nm in os.listdir(dref): os.remove(os.path.join(dref, nm))
        malsrc.write_files(dref, files2)
        ref = malsrc.canon_spec(MalCompiler().compile(os.path.join(dref, root)))
        out = []
        for who, comp in (('the same compiler object', same), ('a fresh compiler object', MalCompiler())):
            got = malsrc.canon_spec(copy.deepcopy(comp.compile(path)))
            if got != ref:
                diff = [k for k in ref if got.get(k) != ref[k]]
                stale = 'the result for the OLD contents' if got == want else 'something else'
                return bad(f'after {changed} was rewritten ({"an included file; the main file is unchanged" if changed != root else "the file itself"}) compiling {root} again with {who} '
                           f'gives {stale}, not what the files say now (differs in {diff})', 'C04:recompile-stale', got={k: got.get(k) for k in diff}, ref={k: ref[k] for k in diff})
            out.append((files2, root, got, 'recompiled after a file was rewritten (' + who + ')'))
        return None, out[:1]
    except Exception as e:
        return bad(f'recompile scenario raises {type(e).__name__}: {str(e)[:100]}', 'C04:recompile-raises')

def sort_spec(s):
    s = dict(s)
    for k in ('categories', 'assets', 'associations'): s[k] = sorted(s[k], key=lambda x: json.dumps(x, sort_keys=True))
    return s

def corelang_check():
    """the shipped coreLang: compile(print(langspec.json of the .mar)) must give the .mar's specification back"""
    mar = os.path.join(REPO, 'tests', 'testdata', 'org.mal-lang.coreLang-1.0.0.mar')
    with zipfile.ZipFile(mar) as z: spec = json.loads(z.read('langspec.json'))
    txt = malsrc.pr(spec)
    got = compile_real({'core.mal': txt}, 'core.mal', 'core')
    want = malsrc.canon_spec({k: spec[k] for k in ('formatVersion', 'defines', 'categories', 'assets', 'associations')})
    return malsrc.canon_spec(got), want, txt

def run(seed, tier, lean) -> Result:
    rnd = random.Random(seed)
    res = Result(rule='random printable specifications (every step type, nested set / collect / transitive / subtype / variable expressions, TTC arithmetic '
                      'with 2-4 operators, all multiplicity forms, metas, several categories) printed with minimal parentheses and compiled by the real '
                      'compiler: as one file, re-formatted (comments, odd spacing, redundant parentheses), ending in a comment / blanks without final newline, split over included files in order, and '
                      'arbitrarily (compared as sets); recompile scenarios (the result edited in place by the caller, the same path compiled again by the same and a fresh compiler object; then one included file rewritten with the main file untouched and compiled again: always what the files say now); coreLang from the shipped .mar; each compiled text also through the Lean model; token streams of '
                      'the real lexer vs the model; non-trivial = the specification has a nested set/collect expression and a TTC with >= 2 operators')
    n = 120 if tier == 'quick' else 720
    pending = []
    for i in range(n):
        r = random.Random(rnd.getrandbits(48))
        spec = gen_spec(r)
        res.evaluations += 1
        v, payloads = check_case(spec, r, None, res)
        txt = json.dumps(spec)
        if ('"union"' in txt or '"intersection"' in txt) and ('"addition"' in txt or '"multiplication"' in txt): res.nontrivial.add(canon_hash(spec))
        if v: res.violations.append(v); continue
        pending += [(spec, p, got, what) for p, got, what in payloads]
        if i % 3 == 0:
            blks = malsrc.blocks(spec)
            files, root = malsrc.split_files(blks, r, True) if i % 6 == 0 else ({'m.mal': '\n'.join(blks) + '\n'}, 'm.mal')
            files2, changed = rewrite_include(files, root, r)
            v, outs = recompile_scenario(files, root, files2, changed, malsrc.canon_spec(spec))
            res.bump('recompile scenarios' + (' (included file rewritten)' if changed != root else ' (single file)'))
            if v: res.violations.append(v); continue
            pending += [(None, {'op': 'compile', 'files': [[k, t] for k, t in f.items()], 'root': rt}, got, what) for f, rt, got, what in outs]
    # coreLang
    try:
        got, want, txt = corelang_check()
        res.evaluations += 1
        if got != want:
            diff = [k for k in want if got.get(k) != want[k]]
            res.violations.append(Violation(what=f'compile(print(coreLang)) differs from the specification shipped in the .mar in {diff}', fingerprint='C04:corelang',
                                            replay={'diff': diff}))
        else:
            pending.append((None, {'op': 'compile', 'files': [['core.mal', txt]], 'root': 'core.mal'}, got, 'coreLang')); res.bump('coreLang ok')
    except Exception as e:
        res.violations.append(Violation(what=f'compiling printed coreLang fails: {type(e).__name__}: {str(e)[:100]}', fingerprint='C04:corelang-raises', replay={}))
    if lean['build_ok'] and pending:
        outs = run_driver([dict(p, case=i) for i, (_, p, _, _) in enumerate(pending)])
        lex_in = []
        for (spec, p, got, what), o in zip(pending, outs):
            res.bump('model-compared:' + what.split(' (')[0])
            mo = o.get('model', {})
            if 'spec' not in mo or malsrc.canon_spec(mo['spec']) != got:
                res.violations.append(Violation(what=f'implementation and Lean model disagree on the compiled specification ({what})', fingerprint='C04:model-divergence',
                                                replay={'files': p['files'], 'root': p['root'], 'model': str(mo)[:2000]}, no_failing_input=True))
            lex_in += [t for _, t in p['files']][:1]
        # lexer level
        d = os.path.join(scratch(), 'c04-lex'); os.makedirs(d, exist_ok=True)
        lex_in = lex_in[:200]
        mout = run_driver([{'op': 'lex', 'case': i, 'src': t} for i, t in enumerate(lex_in)])
        for t, o in zip(lex_in, mout):
            pth = os.path.join(d, 'x.mal'); open(pth, 'w', encoding='utf-8').write(t)
            toks, nerr = malsrc.real_tokens(pth)
            mt = o.get('model', {}).get('tokens')
            res.bump('token streams compared')
            if nerr or mt != toks:
                res.violations.append(Violation(what='real lexer and Lean lexer disagree on a valid text', fingerprint='C04:lexer-divergence',
                                                replay={'src': t, 'real': toks[:50], 'model': (mt or [])[:50]}, no_failing_input=True)); break
    if lean['build_ok'] and pending: visitor_checks(pending, res)      # translated visitor + tree builder (visitor domain)
    res.samples.append({'source': pending[0][1]['files'][0][1][:600]} if pending else {'note': 'no case compiled'})
    return res

def replay(path):
    r = json.load(open(path))
    if 'scenario' in r:
        sc = r['scenario']
        v, _ = recompile_scenario(sc['files'], sc['root'], sc['files2'], sc['changed'], r['want'])
        print(v.what if v else 'no violation'); print('VIOLATION reproduced' if v else 'not reproduced'); return 1 if v else 0
    if 'spec' in r:
        v, _ = check_case(r['spec'], random.Random(0), None, Result())
        print(v.what if v else 'no violation'); print('VIOLATION reproduced' if v else 'not reproduced'); return 1 if v else 0
    got, want, _ = corelang_check()
    print('VIOLATION reproduced' if got != want else 'not reproduced'); return 1 if got != want else 0


# ---------------------------------------------------------------------------------------------------------------
# visitor domain: the hand-written tree builder (Model/Compiler/Tree.lean) against ANTLR's parse tree, and the
# *translated* visitor (Py/GenVisitor/Visitor.lean) executed on the model's trees against the real compiler

def real_tree(path):
    """the ANTLR parse tree as nested lists: [rule, child…] / [TOKENTYPE, text, tokenIndex]; None on a syntax error"""
    from antlr4 import FileStream, CommonTokenStream
    from antlr4.tree.Tree import TerminalNode
    from antlr4.error.ErrorListener import ErrorListener
    from maltoolbox.language.compiler.mal_lexer import malLexer
    from maltoolbox.language.compiler.mal_parser import malParser
    class Count(ErrorListener):
        def __init__(self): super().__init__(); self.n = 0
        def syntaxError(self, *a): self.n += 1
    c = Count()
    lx = malLexer(FileStream(path, encoding='utf-8')); lx.removeErrorListeners(); lx.addErrorListener(c)
    stream = CommonTokenStream(lx)
    ps = malParser(stream); ps.removeErrorListeners(); ps.addErrorListener(c)
    tree = ps.mal()
    if c.n or stream.LA(1) != -1: return None
    def walk(n):
        if isinstance(n, TerminalNode):
            t = n.symbol
            return ['EOF' if t.type == -1 else malParser.symbolicNames[t.type], t.text, t.tokenIndex]
        return [malParser.ruleNames[n.getRuleIndex()]] + [walk(ch) for ch in n.getChildren()]
    return walk(tree)

def visitor_checks(pending, res):
    # (1) translated visitor on the model's trees = the real compiler's result, for every compiled variant
    outs = run_driver([dict(p, op='visit', case=i) for i, (_, p, _, _) in enumerate(pending)])
    for (spec, p, got, what), o in zip(pending, outs):
        res.bump('translated-visitor-compared:' + what.split(' (')[0])
        mo = o.get('model', {})
        if 'spec' not in mo or malsrc.canon_spec(mo['spec']) != got:
            res.violations.append(Violation(what=f'implementation and translated visitor (on the model tree) disagree on the compiled specification ({what})',
                                            fingerprint='C04:translated-visitor-divergence',
                                            replay={'files': p['files'], 'root': p['root'], 'model': str(mo)[:2000]}, no_failing_input=True))
            break
    # (2) the tree builder = ANTLR's parse tree (rule names, child order, token types, texts, token indices)
    texts = []
    for _, p, _, _ in pending:
        for _, t in p['files']:
            if t not in texts: texts.append(t)
    texts = texts[:300] + ['']                 # the empty file: `mal: EOF`
    mout = run_driver([{'op': 'tree', 'case': i, 'src': t} for i, t in enumerate(texts)])
    d = os.path.join(scratch(), 'c04-tree'); os.makedirs(d, exist_ok=True)
    for t, o in zip(texts, mout):
        pth = os.path.join(d, 'x.mal'); open(pth, 'w', encoding='utf-8').write(t)
        rt = real_tree(pth)
        mt = o.get('model', {}).get('tree')
        res.bump('parse trees compared')
        if rt is None or mt != rt:
            res.violations.append(Violation(what='ANTLR parse tree and the tree of the Lean tree builder differ on a valid text', fingerprint='C04:tree-divergence',
                                            replay={'src': t, 'real': str(rt)[:1500], 'model': str(mt)[:1500]}, no_failing_input=True)); break
