"""C02 — one node per asset x step, with attributes faithful to model and language."""
from __future__ import annotations
import json, random
from ..common import Result, Violation, run_driver, canon_hash
from ..langgen import LangGen, gen_model, lang_payload, inst_payload, jtxt
from ..genrun import impl_generate, Ref, model_nodes_canon
from .. import genexec

ASSUMPTIONS = [
    'languages well-formed; models valid, asset ids and names pairwise distinct (C05 invariant); step names are identifiers (no colon)',
    'defense values are compared after float(); default defense values come from the generated classes (C06)',
]
TRUSTED = ['Lean 4.33 kernel', 'axioms: propext, Classical.choice, Quot.sound',
           'hand-written model Model/Gen.lean + Inherit + Eval (tied by this correspondence)',
           'harness/langgen.py, harness/genrun.py (generators, construction of real objects, reference fold and semantics)']

def expected_nodes(spec, inst):
    """independent reference: the node list the property describes"""
    ref = Ref(spec, inst)
    out = []
    for a in inst['assets']:
        for sn, s in ref.fold_steps(a['type']).items():
            d = None
            if s['type'] == 'defense':
                ttc = s.get('ttc')
                d = float(a.get('defenses', {}).get(sn, 1.0 if (ttc and ttc.get('name') == 'Enabled') else 0.0))
            e = e_hi = None
            if s['type'] in ('exist', 'notExist'):
                # `x*`: the toolbox computes closure+, MAL says closure*; the reference gives the two bounds (flipped under
                # the right operand of a difference) and any answer between them is accepted - as for the edges in C01
                try:
                    e = bool(ref.den(s['requires']['stepExpressions'][0], frozenset([a['id']]), False))
                    e_hi = bool(ref.den(s['requires']['stepExpressions'][0], frozenset([a['id']]), True))
                except LookupError:
                    # closure* starts from an asset that lacks a variable the operand uses: no bound on this side
                    e = False if e is None else e; e_hi = not e
            out.append({'id': len(out), 'full_name': f"{a['name']}:{sn}", 'asset': a['name'], 'name': sn, 'type': s['type'],
                        'ttc': jtxt(s.get('ttc')), 'tags': list(s.get('tags') or []), 'mitre': (s.get('meta') or {}).get('mitre'),
                        'defense': d, 'exist': e, 'exist_hi': e_hi})
    return out

def check_case(spec, inst, mo, churn_seed=None, keep=None):
    """`keep`: a dict with lookup keys `ids` / `names`; receives the observation of the real graph (`im`) and the answers of
    its lookups (`_lookups`) for the third column"""
    im = impl_generate(spec, inst, keep=True, churn=None if churn_seed is None else random.Random(churn_seed), member_p=0.8)
    if 'error' in im:
        return Violation(what='generation fails: ' + im['error'], fingerprint='C02:gen-error', replay={'spec': spec, 'inst': inst})
    lg, fac, m, g = im.pop('_objs')
    if keep is not None:
        nid = lambda x: None if x is None else x.id
        keep['im'] = im
        keep['_lookups'] = {'ids': [nid(g.get_node_by_id(k)) for k in keep['ids']], 'names': [nid(g.get_node_by_full_name(k)) for k in keep['names']]}
    want = expected_nodes(spec, inst)
    probs = []
    for n, w in zip(im['nodes'], want):
        # between the bounds: take the implementation's answer as the expected one
        if (n['asset'], n['name']) == (w['asset'], w['name']) and w['exist'] != w['exist_hi'] and n['exist'] in (w['exist'], w['exist_hi']): w['exist'] = n['exist']
    for w in want: w.pop('exist_hi', None)
    if im['nodes'] != want:
        gi = [(n['asset'], n['name']) for n in im['nodes']]; wi = [(n['asset'], n['name']) for n in want]
        if sorted(gi) != sorted(wi): probs.append(f'node set differs: missing {sorted(set(wi) - set(gi))[:3]} extra {sorted(set(gi) - set(wi))[:3]} (or duplicated)')
        else:
            wd = {(n['asset'], n['name']): n for n in want}
            for n in im['nodes']:
                w = wd[(n['asset'], n['name'])]
                for k in ('type', 'ttc', 'tags', 'mitre', 'defense', 'exist', 'full_name'):
                    if n[k] != w[k]: probs.append(f'attribute {k} of {n["full_name"]} is {n[k]!r}, expected {w[k]!r}'); break
                if probs: break
    ids = [n.id for n in g.nodes]; names = [n.full_name for n in g.nodes]
    if len(set(ids)) != len(ids): probs.append('node ids not unique')
    if len(set(names)) != len(names): probs.append('full names not unique')
    for n in g.nodes:
        if g.get_node_by_id(n.id) is not n: probs.append(f'lookup by id {n.id} does not return the node'); break
        if g.get_node_by_full_name(n.full_name) is not n: probs.append(f'lookup by name {n.full_name} does not return the node'); break
    for k in (-1, len(ids), len(ids) + 1):
        if g.get_node_by_id(k) is not None: probs.append(f'lookup by absent id {k} returns a node')
    for nm in ['nosuch:step'] + [x + 'x' for x in names[:2]]:
        if nm not in names and g.get_node_by_full_name(nm) is not None: probs.append(f'lookup by absent name returns a node')
    if not probs and g.nodes:
        # every node carries its own tags / TTC: editing one node's in place must show neither in another node (two
        # assets of one type, an inherited step) nor in a graph generated afterwards from the same language graph
        from ..genrun import graph_obs
        from maltoolbox.attackgraph import AttackGraph
        by_kind = {}
        for n in g.nodes: by_kind.setdefault((str(n.asset.type), n.name), []).append(n)
        shared = [ns for ns in by_kind.values() if len(ns) > 1]
        x = (random.Random(len(g.nodes)).choice(shared)[0]) if shared else g.nodes[0]
        x.tags.append('probe-tag')
        if isinstance(x.ttc, dict):
            x.ttc['probe'] = 1
            if isinstance(x.ttc.get('arguments'), list): x.ttc['arguments'].append(0.125)
        wd = {n['full_name']: n for n in want}
        def faithful(graph, skip, what):
            for n in graph_obs(graph)['nodes']:
                if n['full_name'] == skip: continue
                w = wd[n['full_name']]
                for k in ('tags', 'ttc'):
                    if n[k] != w[k]:
                        return f'attribute {k} of {n["full_name"]} is {n[k]!r}, expected {w[k]!r} {what}'
            return None
        p = faithful(g, x.full_name, f'after {x.full_name} was edited in place (nodes share mutable data)')
        g2 = AttackGraph(lg, m)
        p = p or faithful(g2, None, f'in a graph generated after a node of an earlier graph ({x.full_name}) was edited in place')
        if p: probs.append(p)
        # the lookups of the first graph still answer from the first graph (two live graphs of one model have the
        # same full names: an index shared between graph objects shows here)
        if not probs:
            for n in g.nodes:
                if g.get_node_by_full_name(n.full_name) is not n or g.get_node_by_id(n.id) is not n:
                    probs.append(f'lookup of {n.full_name} in a graph returns a node of another graph generated later from the same model'); break
            for n in g2.nodes:
                if g2.get_node_by_full_name(n.full_name) is not n or g2.get_node_by_id(n.id) is not n:
                    probs.append(f'lookup of {n.full_name} in the later graph does not return its own node'); break
    if probs:
        return Violation(what=probs[0], fingerprint='C02:' + probs[0].split(' of ')[0].split(':')[0][:40],
                         replay={'spec': spec, 'inst': inst, 'problems': probs})
    if mo is not None:
        if 'error' in mo:
            return Violation(what='Lean model fails: ' + mo['error'], fingerprint='C02:model-divergence', replay={'spec': spec, 'inst': inst}, no_failing_input=True)
        mn = model_nodes_canon(mo['nodes'])
        if sorted(mn, key=lambda n: n['id']) != im['nodes']:
            return Violation(what='implementation and Lean model disagree on the node list', fingerprint='C02:model-divergence',
                             replay={'spec': spec, 'inst': inst, 'impl': im['nodes'], 'model': mn}, no_failing_input=True)
    return None

def run(seed, tier, lean) -> Result:
    rnd = random.Random(seed)
    res = Result(rule='random well-typed languages (multi-level inheritance with ->/+>/absent redefinitions, defenses Enabled/Disabled/none, '
                      'exist/notExist with a requirement) x valid models (non-default defenses, names containing ":", gaps and negative ids); '
                      'node list compared with an independent reference and with the Lean model, lookups for present and absent keys; '
                      'non-trivial = >= 2 assets of different types one of which inherits a step')
    n = 300 if tier == 'quick' else 1800
    cases = []
    renamed = set()      # cases whose asset names were replaced by colliding / missing / generated-looking ones
    for i in range(n):
        r = random.Random(rnd.getrandbits(48))
        spec = LangGen(r, knobs={'exist_w': 3}).gen()
        inst = gen_model(r, spec, colon_names=(i % 3 == 0))
        if i % 3 == 1:
            # names that collide after automatic renaming, unnamed assets, names that look like generated ones
            pool = ['A', 'A', 'A:2', None, None]
            for a in inst['assets']:
                other = r.choice(inst['assets'])
                a['name'] = r.choice(pool + [f"{other['type']}:{other['id']}", f"A:{other['id']}"])
            renamed.add(id(inst))
        cases.append((spec, inst))
    # the real model decides the final names (renaming); read them back before asking the Lean model
    from ..langgen import build_lang, build_model
    names0 = {}          # third column: the names the asset objects were constructed with (the generated `add_asset` renames itself)
    for spec, inst in cases:
        if id(inst) in renamed or any(a['name'] is None or a['name'].startswith(('A', 'T')) for a in inst['assets']):
            try:
                orig = [a['name'] for a in inst['assets']]
                _, fac = build_lang(spec); _, byid = build_model(fac, inst)
                for a in inst['assets']: a['name'] = str(byid[a['id']].name)
                names0[id(inst)] = orig
            except Exception:
                for a in inst['assets']:
                    if a['name'] is None: a['name'] = f"{a['type']}:{a['id']}"
    model = None
    if lean['build_ok']:
        model = run_driver([{'op': 'gen', 'case': i, 'lang': lang_payload(s), 'inst': inst_payload(m)} for i, (s, m) in enumerate(cases)], case_limit=30)
    third = []          # the cases for the third column (the GENERATED code), run after the real code
    for i, (spec, inst) in enumerate(cases):
        res.evaluations += 1
        mo = model[i].get('model') if model is not None else None
        if model is not None and mo is None and 'skipped' not in model[i]:
            res.violations.append(Violation(what='driver rejected a case', fingerprint='C02:driver-error', replay={'spec': spec, 'inst': inst}, no_failing_input=True)); continue
        # a third of the cases: model built larger, one generation, extras removed through the API, then the generation
        # that is checked (what an earlier generation cached must not survive the removals)
        from ..common import guarded
        # lookup keys for the third column: the full names a graph of this model can have, absent ones, ids around the range
        names = [f"{a['name']}:{st['name']}" for a in inst['assets'] for t in spec['assets'] for st in t['attackSteps']][:60]
        keep = {'ids': list(range(-1, 14)) + [10 ** 6], 'names': names + ['nosuch:step'] + [x + 'x' for x in names[:2]]}
        done, v = guarded(res, check_case, spec, inst, mo, churn_seed=(seed * 1000003 + i) if i % 3 != 1 else None, keep=keep)
        if not done: continue
        if v is None and model is not None and 'im' in keep:
            if id(inst) in names0: keep['names0'] = names0[id(inst)]; res.bump('generated_code_models_named_by_add_asset')
            third.append((spec, inst, keep.pop('im'), dict(keep, _replay={'churn_seed': (seed * 1000003 + i) if i % 3 != 1 else None})))
        if v is not None and i % 3 != 1: v.replay['churn_seed'] = seed * 1000003 + i
        types = {a['type'] for a in inst['assets']}
        parents = {a['name']: a['superAsset'] for a in spec['assets']}
        if len(types) >= 2 and any(parents[t] for t in types): res.nontrivial.add(canon_hash([spec, inst]))
        for a in inst['assets']:
            if ':' in a['name']: res.bump('colon_in_asset_name')
            if a.get('defenses'): res.bump('nondefault_defense')
        if mo and 'nodes' in mo:
            res.bump('nodes', len(mo['nodes']))
            for nd in mo['nodes']:
                if nd['exist'] is not None: res.bump('exist_nodes')
        if v: res.violations.append(v)
        if len(res.samples) < 2 and mo and 'nodes' in mo and len(mo['nodes']) > 4:
            res.samples.append({'inst': inst, 'nodes': mo['nodes'][:6]})
    if not res.samples: res.samples.append({'inst': cases[0][1]})
    # third column: generated `lg__generate_graph`, `model_add_*`, `AttackGraph(lang_graph, model)`, `get_node_by_*` on the same
    # inputs - EXACT: node list (order, ids, every attribute), children / parents lists (order and multiplicity), lookups
    res.violations.extend(genexec.generate_column('C02', res, third, edges='exact', lookups=True))
    return res

def genexec_measure(seed: int, n: int) -> dict:
    """tools/genexec_seeded.py: the cases of the quick check on (mutated) implementation / hand model / regenerated code"""
    rnd = random.Random(seed); cases = []
    for i in range(n):
        r = random.Random(rnd.getrandbits(48))
        spec = LangGen(r, knobs={'exist_w': 3}).gen()
        inst = gen_model(r, spec, colon_names=(i % 3 == 0))
        if i % 3 == 1:
            pool = ['A', 'A', 'A:2', None, None]
            for a in inst['assets']:
                other = r.choice(inst['assets'])
                a['name'] = r.choice(pool + [f"{other['type']}:{other['id']}", f"A:{other['id']}"])
        cases.append((spec, inst, (seed * 1000003 + i) if i % 3 != 1 else None, 0.8))
    return genexec.generate_measure(cases, edges='exact')

def replay(path):
    r = json.load(open(path))
    v = check_case(r['spec'], r['inst'], None, churn_seed=r.get('churn_seed'))
    print(v.what if v else 'no violation'); print('VIOLATION reproduced' if v else 'not reproduced')
    return 1 if v else 0
