"""C16 — graph generation is deterministic and does not disturb its inputs."""
from __future__ import annotations
import copy, json, os, random, subprocess, sys, zipfile
from ..common import Result, Violation, run_driver, canon_hash, scratch, REPO, VERIF
from ..langgen import LangGen, chain_language, gen_model, lang_payload, inst_payload, build_lang, build_model, jtxt
from ..genrun import graph_obs, model_nodes_canon
from .. import malsrc

ASSUMPTIONS = [
    'hash randomisation, fresh interpreters and the file-based wrapper are runtime behaviour that a pure model cannot exhibit: they are exercised by the harness (several PYTHONHASHSEED values, separate processes, .mar and .mal inputs) and every serialisation must equal the single answer of the Lean model',
    'the Lean side contributes: generation is a function of the ordered inputs (Model/Gen.lean), the step lookup never writes the specification (C03 resolve_frame / resolve_history_loaded), ids are positions (C02)',
]
PARTIAL = 'partial: determinism across processes / hash seeds and the wrapper are established by execution, not by a theorem'
TRUSTED = ['Lean 4.33 kernel', 'axioms: propext, Classical.choice, Quot.sound',
           'hand-written model Model/Gen.lean (tied by the correspondence of C01/C02 and by this check)',
           'harness/props/c16.py (subprocess driver), harness/malsrc.py (MAL printer), harness/langgen.py']

CHILD = r'''
import json, os, sys
sys.dont_write_bytecode = True
os.chdir(sys.argv[1]); sys.path.insert(0, sys.argv[2]); sys.path.insert(0, sys.argv[3])
from harness.langgen import build_lang, build_model
from harness.genrun import graph_obs
from maltoolbox.attackgraph import AttackGraph
from maltoolbox.attackgraph.analyzers.apriori import calculate_viability_and_necessity
out = []
for case in json.load(open(sys.argv[4])):
    lg, fac = build_lang(case['spec']); m, _ = build_model(fac, case['inst'])
    g = AttackGraph(lg, m); calculate_viability_and_necessity(g)
    o = graph_obs(g); o['labels'] = [[n.is_viable, n.is_necessary] for n in g.nodes]
    out.append(o)
json.dump(out, open(sys.argv[5], 'w'))
'''

def serial(g):
    from maltoolbox.attackgraph.analyzers.apriori import calculate_viability_and_necessity
    o = graph_obs(g)
    return o

def check_case(spec, inst, res, keep=None):
    """`keep`: a dict that receives what the third column (the GENERATED code) is compared with: the graph of every wrapper
    call, the attacker that was attached and the graph it was attached to"""
    from maltoolbox.attackgraph import AttackGraph
    from maltoolbox.attackgraph.analyzers.apriori import calculate_viability_and_necessity
    from maltoolbox.wrappers import create_attack_graph
    lg, fac = build_lang(spec); m, _ = build_model(fac, inst)
    spec_snap = copy.deepcopy(lg._lang_spec); model_snap = json.dumps(m._to_dict(), sort_keys=True, default=str)
    g1 = AttackGraph(lg, m); o1 = graph_obs(g1)
    g2 = AttackGraph(lg, m); o2 = graph_obs(g2)
    probs = []
    if o1 != o2: probs.append('two generations from the same language and model in one process differ')
    if {id(n) for n in g1.nodes} & {id(n) for n in g2.nodes}: probs.append('two graphs built from the same model share a node')
    calculate_viability_and_necessity(g1)
    if lg._lang_spec != spec_snap: probs.append('generation / analysis modified the language specification')
    if json.dumps(m._to_dict(), sort_keys=True, default=str) != model_snap: probs.append('generation / analysis modified the serialized model')
    g3 = AttackGraph(lg, m)
    if graph_obs(g3) != o1: probs.append('a generation after an analysis differs from the first one')
    # the same model reached through a history of edits (built larger, a graph generated, the extras removed through the
    # API) must give the same graph as the model built directly
    from ..genrun import impl_generate
    oc = impl_generate(copy.deepcopy(spec), copy.deepcopy(inst), churn=random.Random(len(inst['assets']) * 7919 + len(inst['links'])))
    if 'error' in oc: probs.append('generation after removals through the API fails: ' + oc['error'])
    elif oc != o1: probs.append('a model reached by adding and removing members / links / assets gives a different graph than the same model built directly')
    # attackers: attaching to the first graph after a second one was generated from the same model
    from maltoolbox.model import AttackerAttachment
    att = AttackerAttachment(name='att')
    for a in m.assets[:3]:
        steps = sorted([n.name for n in g1.nodes if n.asset is a][:3], reverse=True)      # not in alphabetical order
        for st in steps: att.add_entry_point(a, st)
    m.add_attacker(att)
    with_att = json.dumps(m._to_dict(), sort_keys=True, default=str)
    ga = AttackGraph(lg, m); gb = AttackGraph(lg, m)
    ga.attach_attackers()
    if json.dumps(m._to_dict(), sort_keys=True, default=str) != with_att: probs.append('generation / attaching the attackers modified the serialized model')
    if keep is not None:
        keep['att'] = [att.id, att.name, [[int(a.id), list(sts)] for a, sts in att.entry_points]]
        keep['attached'] = dict(graph_obs(ga), attackers=[{'id': a.id, 'name': a.name, 'entry_points': [n.id for n in a.entry_points],
                                                           'reached': [n.id for n in a.reached_attack_steps]} for a in ga.attackers],
                                compromised_by=[[a.id for a in n.compromised_by] for n in ga.nodes])
    own = {id(n) for n in ga.nodes}
    if any(id(n) not in own for a in ga.attackers for n in list(a.reached_attack_steps) + list(a.entry_points)):
        probs.append('attaching attackers to one graph reached nodes of another graph built from the same model')
    if any(n.compromised_by for n in gb.nodes): probs.append('attaching attackers to one graph compromised nodes of another graph built from the same model')
    want = sorted(f'{a.name}:{st}' for a, sts in att.entry_points for st in sts)
    if ga.attackers and sorted(n.full_name for n in ga.attackers[0].reached_attack_steps) != want:
        probs.append('attached attacker does not reach exactly the entry points of the model')
    m.remove_attacker(att)
    # file based wrapper: .mar (zip with langspec.json) and .mal (printed source), model file json / yml
    d = os.path.join(scratch(), 'c16'); os.makedirs(d, exist_ok=True)
    mar = os.path.join(d, 'lang.mar')
    with zipfile.ZipFile(mar, 'w') as z: z.writestr('langspec.json', json.dumps(spec))
    mal = os.path.join(d, 'lang.mal'); open(mal, 'w', encoding='utf-8').write(malsrc.pr(spec))
    for ext in ('json', 'yml'):
        mf = os.path.join(d, 'model.' + ext); m.save_to_file(mf)
        for lf in (mar, mal):
            try:
                gw = create_attack_graph(lf, mf, attach_attackers=False, calc_viability_and_necessity=False)
            except BaseException as e:
                probs.append(f'create_attack_graph({os.path.basename(lf)}, model.{ext}) raises {type(e).__name__}'); continue
            ow = graph_obs(gw)
            if keep is not None: keep.setdefault('wrapper', {})[(os.path.basename(lf), 'model.' + ext)] = ow
            # a yml model file lists the assets sorted by id: node ids follow the model order; compare per full name
            key = lambda o: sorted((n['full_name'], n['type'], n['ttc'], n['tags'], n['mitre'], n['defense'], n['exist']) for n in o['nodes'])
            names = lambda o: {n['id']: n['full_name'] for n in o['nodes']}
            edges = lambda o: sorted((names(o)[a], names(o)[b]) for a, b in o['edges'])
            if key(ow) != key(o1) or edges(ow) != edges(o1):
                probs.append(f'the wrapper from {os.path.basename(lf)} + model.{ext} gives a different graph than the direct API')
            elif ext == 'json' and ow != o1:
                probs.append(f'the wrapper from {os.path.basename(lf)} + model.json gives different node ids / order than the direct API')
    return probs, o1, [[n.is_viable, n.is_necessary] for n in g1.nodes]

def generated_column(res, third):
    """Third column: the GENERATED code on the inputs of the cases the check found nothing wrong with.  Per case seven runs of the
    driver op `gen_generate`: (1) language graph + model through the API + `AttackGraph(lang_graph, model)` + analysis against
    the first real graph and its labels; (1b) three generations in one node store, the third graph (ids restart at 0, the
    references do not) against the real third graph; (2) the same with the attacker of the check attached (`attach_attackers`) against the
    real attached graph; (3-6) the generated `create_attack_graph` on (lang.mar | lang.mal) x (model.json | model.yml) against
    the graph the real wrapper returned for these files (a yml file lists the assets sorted by id).  Everything exact."""
    from .. import genexec
    pl, meta = [], []
    for ci, (spec, inst, o1, labels, keep) in enumerate(third):
        lp, ip = lang_payload(spec), inst_payload(inst)
        def add(kind, want, **kw):
            pl.append(genexec.generate_payload(len(pl), lp, kw.pop('inst', ip), **kw)); meta.append((ci, kind, want))
        add('AttackGraph + calculate_viability_and_necessity', dict(o1, labels=labels), calc=True)
        add('AttackGraph x 3 in one process', o1, again=2)
        if 'attached' in keep:
            add('AttackGraph + attach_attackers', keep['attached'], attackers=[keep['att']], attach=True)
        ysorted = dict(ip, assets=sorted(ip['assets'], key=lambda a: a['id']))
        for (lf, mf), ow in keep.get('wrapper', {}).items():
            add(f'create_attack_graph({lf}, {mf})', ow, mode='wrapper', lang_file=lf, model_file=mf, inst=ysorted if mf.endswith('yml') else ip)
    out = run_driver(pl, case_limit=60)
    vs = []
    for (ci, kind, want), o in zip(meta, out):
        spec, inst = third[ci][0], third[ci][1]
        if 'skipped' in o:
            res.bump('generated_code_skipped:no answer within the per-case limit'); continue
        if 'error' in o:
            vs.append(genexec.driver_error('C16', o['error'], {'spec': spec, 'inst': inst, 'run': kind})); continue
        g = o['model']
        prob, _ = genexec.generate_cmp(g, want, edges='exact')
        res.bump('generated_code_graphs_compared'); res.bump('generated_code_runs:' + kind.split('(')[0])
        if not prob and 'labels' in want and [[n['viable'], n['necessary']] for n in g['graph']['nodes']] != want['labels']:
            prob = 'on the viability / necessity labels after the analysis'
        if not prob and 'attackers' in want:
            if g['graph']['attackers'] != want['attackers']: prob = f'on the attached attackers: generated {g["graph"]["attackers"]}, implementation {want["attackers"]}'
            elif [n['compromised_by'] for n in g['graph']['nodes']] != want['compromised_by']: prob = 'on compromised_by after attach_attackers'
        if prob:
            vs.append(genexec.divergence('C16', kind.split('(')[0].split(' ')[0], f'{prob} [{kind}]',
                                         {'spec': spec, 'inst': inst, 'run': kind, 'impl': want, 'generated': g}))
    return vs

def run(seed, tier, lean) -> Result:
    rnd = random.Random(seed)
    res = Result(rule='random (language, model) pairs: generated twice in one process, after an analysis, through create_attack_graph from a .mar and from '
                      'printed .mal source with json and yml model files, and in fresh interpreters with PYTHONHASHSEED in {0, 1, 4242, random}; all '
                      'serialisations must be identical to each other and to the Lean model; model serialisation and language specification compared '
                      'before/after; node objects of two graphs disjoint; non-trivial = the graph has >= 8 nodes and >= 4 edges')
    n = 40 if tier == 'quick' else 240
    cases = []
    for i in range(n):
        r = random.Random(rnd.getrandbits(48))
        spec = chain_language(r) if i % 3 == 2 else LangGen(r).gen()
        spec['categories'] = [{'name': 'Cat', 'meta': {}}]
        for a in spec['assets']: a['category'] = 'Cat'
        cases.append((spec, gen_model(r, spec)))
    model = run_driver([{'op': 'gen', 'case': i, 'lang': lang_payload(s), 'inst': inst_payload(m)} for i, (s, m) in enumerate(cases)], case_limit=30) if lean['build_ok'] else None
    firsts = []
    third = []          # the cases for the third column (the GENERATED code), run after the real code
    for i, (spec, inst) in enumerate(cases):
        res.evaluations += 1
        try:
            from ..common import time_limit, CaseTimeout
            with time_limit(45):
                keep = {}
                probs, o1, labels = check_case(spec, inst, res, keep=keep)
        except CaseTimeout:
            res.bump('skipped: the real code ran for more than 45 s on this case'); firsts.append(None); continue
        except Exception as e:
            res.notes.append(f'case skipped: {type(e).__name__}: {str(e)[:60]}'); firsts.append(None); continue
        firsts.append((o1, labels))
        if len(o1['nodes']) >= 8 and len(o1['edges']) >= 4: res.nontrivial.add(canon_hash([spec, inst]))
        if probs:
            res.violations.append(Violation(what=probs[0], fingerprint='C16:' + probs[0].split(' (')[0][:60], replay={'spec': spec, 'inst': inst, 'problems': probs})); continue
        if model is not None and 'skipped' not in model[i]:
            mo = model[i].get('model', {})
            if 'error' in mo or model_nodes_canon(mo['nodes']) != o1['nodes'] or set(map(tuple, mo['edges'])) != set(map(tuple, o1['edges'])):
                res.violations.append(Violation(what='the serialized graph differs from the single answer of the Lean model', fingerprint='C16:model-divergence',
                                                replay={'spec': spec, 'inst': inst}, no_failing_input=True))
            elif mo['edges'] != o1['edges']: res.drift += 1       # order / multiplicity of edges: not constrained by the property
            third.append((spec, inst, o1, labels, keep))
    res.violations.extend(generated_column(res, third))
    # fresh interpreters, different hash seeds
    d = os.path.join(scratch(), 'c16p'); os.makedirs(d, exist_ok=True)
    good = [(c, f) for c, f in zip(cases, firsts) if f]
    inp = os.path.join(d, 'cases.json'); json.dump([{'spec': s, 'inst': m} for (s, m), _ in good], open(inp, 'w'))
    script = os.path.join(d, 'child.py'); open(script, 'w').write(CHILD)
    seeds = ['0', '1', '4242', 'random'] if tier == 'quick' else ['0', '1', '2', '4242', '99999', 'random', 'random']
    for hs in seeds:
        outp = os.path.join(d, f'out-{hs}.json')
        env = dict(os.environ, PYTHONHASHSEED=hs, PYTHONDONTWRITEBYTECODE='1')
        p = subprocess.run([sys.executable, script, d, REPO, VERIF, inp, outp], env=env, capture_output=True, text=True, timeout=3600)
        res.bump('fresh process, PYTHONHASHSEED=' + hs)
        if p.returncode != 0:
            res.violations.append(Violation(what='generation in a fresh interpreter fails: ' + p.stderr[-200:], fingerprint='C16:fresh-process-fails', replay={'hashseed': hs})); break
        outs = json.load(open(outp))
        for ((spec, inst), (o1, labels)), o in zip(good, outs):
            res.evaluations += 1
            lab = o.pop('labels')
            if o != o1 or lab != labels:
                res.violations.append(Violation(what=f'a fresh interpreter with PYTHONHASHSEED={hs} generates a different graph / labelling than the first run',
                                                fingerprint='C16:process-or-hashseed-dependent', replay={'spec': spec, 'inst': inst, 'hashseed': hs})); break
    if good: res.samples.append({'nodes': good[0][1][0]['nodes'][:3], 'edges': good[0][1][0]['edges'][:5]})
    else: res.samples.append({'note': 'no case generated'})
    return res

def genexec_measure(seed: int, n: int) -> dict:
    """tools/genexec_seeded.py: the cases of the quick check (`n` // 8 of them: every case is six runs of the generated code and
    a dozen of the real one) on (mutated) implementation / hand model / regenerated code.  impl != hand: the check reports a
    problem or the graph differs from the hand model's; gen != impl: one of the six generated runs differs from its real twin."""
    rnd = random.Random(seed); cases = []
    for i in range(max(n // 8, 10)):
        r = random.Random(rnd.getrandbits(48))
        spec = chain_language(r) if i % 3 == 2 else LangGen(r).gen()
        spec['categories'] = [{'name': 'Cat', 'meta': {}}]
        for a in spec['assets']: a['category'] = 'Cat'
        cases.append((spec, gen_model(r, spec)))
    st = {'cases': 0, 'impl_ne_hand': 0, 'gen_follows_impl': 0, 'gen_ne_impl': 0, 'impl_crash': 0, 'examples': []}
    hand = run_driver([{'op': 'gen', 'case': i, 'lang': lang_payload(s), 'inst': inst_payload(m)} for i, (s, m) in enumerate(cases)])
    for i, (spec, inst) in enumerate(cases):
        st['cases'] += 1
        keep = {}
        try:
            probs, o1, labels = check_case(spec, inst, Result(), keep=keep)
        except BaseException as e:
            st['impl_crash'] += 1; st['examples'].append(['impl-crash', type(e).__name__ + ': ' + str(e)[:80]]); continue
        mo = hand[i].get('model', {})
        hsame = not probs and 'error' not in mo and model_nodes_canon(mo['nodes']) == o1['nodes'] and set(map(tuple, mo['edges'])) == set(map(tuple, o1['edges']))
        r2 = Result()
        vs = generated_column(r2, [(spec, inst, o1, labels, keep)])
        if vs: st['gen_ne_impl'] += 1; st['examples'].append(['gen!=impl', {'spec': spec, 'inst': inst, 'what': vs[0].what[:300]}])
        if not hsame:
            st['impl_ne_hand'] += 1
            if not vs: st['gen_follows_impl'] += 1; st['examples'].append(['gen=impl!=hand', {'problems': probs[:2]}])
    return st

def replay(path):
    r = json.load(open(path))
    probs, _, _ = check_case(r['spec'], r['inst'], Result())
    print(probs); print('VIOLATION reproduced' if probs else 'not reproduced (process / hash-seed dependence needs the full check)')
    return 1 if probs else 0
