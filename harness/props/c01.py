"""C01 — attack-graph edges are exactly the MAL meaning of the step expressions."""
from __future__ import annotations
import copy, json, random
from ..common import Result, Violation, run_driver, canon_hash
from ..langgen import LangGen, chain_language, gen_model, lang_payload, inst_payload
from ..genrun import impl_generate, Ref
from .. import genexec

ASSUMPTIONS = [
    'languages are well-formed (single inheritance, well-typed step expressions, no variable shadowing, target steps exist); models valid for the language with unique asset ids and names',
    'the operand of a transitive step distributes over unions of sources (fields, collects, unions, subtype filters, variables, nested transitive steps) — everything malc accepts under *',
    'for * only closure+ <= result <= closure* is asserted; the model (like the repaired code) computes closure+',
    'pjs asset equality (as_dict) coincides with identity of assets inside one model (distinct ids)',
]
TRUSTED = ['Lean 4.33 kernel', 'axioms: propext, Classical.choice, Quot.sound',
           'hand-written model Model/Lang, Inherit, Eval, Gen (tied by this correspondence)',
           'harness/langgen.py (typed generators, construction of real pjs objects), harness/genrun.py (observables, reference set semantics)']

def expr_ops(e, acc):
    t = e['type']; acc.add(t)
    for k in ('lhs', 'rhs', 'stepExpression'):
        if k in e: expr_ops(e[k], acc)
    return acc

def all_exprs(spec):
    for a in spec['assets']:
        for s in a['attackSteps']:
            for e in (s.get('reaches') or {}).get('stepExpressions', []): yield e
        for v in a['variables']: yield v['stepExpression']

def edge_sets(obs):
    byid = {n['id']: n['full_name'] for n in obs['nodes']}
    ch = {(byid[a], byid[b]) for a, b in obs['edges']}
    pa = {(byid[a], byid[b]) for a, b in obs['parent_edges']} if 'parent_edges' in obs else ch
    return ch, pa

def nonterminating(spec, inst, res, limit=60):
    """a case the real generator did not finish in time.  Slow is not wrong: the evaluator keeps duplicates, so a chain of
    n field hops over assets that each have two neighbours yields 2^n entries (measured: a 2-asset model, both assets on
    both sides of one link, 262 161 edge entries, 6 s).  But the property promises termination on every finite model,
    cyclic ones included, so a timed-out case is re-run on sub-models on which the unchanged evaluator cannot blow up:
    at most 3 assets, and links thinned until every (asset, field) has at most ONE neighbour - every hop then maps one
    asset to at most one asset (only unions still double, bounded by the size of the expression), while self-links and
    cycles of length 2 and 3 stay.  A generator that twice in a row does not finish such a sub-model within `limit`
    seconds is reported."""
    from ..common import time_limit, CaseTimeout
    for k in (1, 2, 3):
        for start in range(0, max(1, len(inst['assets']) - k + 1)):
            keep = {a['id'] for a in inst['assets'][start:start + k]}
            used, links = set(), []
            for l in inst['links']:
                for x in l['left']:
                    for y in l['right']:
                        if x in keep and y in keep and (x, l['rf']) not in used and (y, l['lf']) not in used:
                            used |= {(x, l['rf']), (y, l['lf'])}
                            links.append(dict(l, left=[x], right=[y]))
            small = {'assets': [a for a in inst['assets'] if a['id'] in keep], 'links': links}
            res.bump('termination re-checked on a thinned sub-model of at most 3 assets')
            late = 0
            for attempt in range(2):
                try:
                    with time_limit(limit):
                        impl_generate(spec, copy.deepcopy(small))
                    break
                except CaseTimeout:
                    late += 1
            if late == 2:
                return Violation(what=f'attack-graph generation does not finish within {limit} s (tried twice) on a model of {len(small["assets"])} assets and {len(small["links"])} one-to-one links',
                                 fingerprint='C01:no-termination', replay={'spec': spec, 'inst': small, 'churn_seed': None})
    return None

def check_case(spec, inst, mo, res: Result, churn_seed=None, keep=None):
    """returns a Violation or None (`keep`: a dict that receives the observation of the real graph under `im`)"""
    im = impl_generate(spec, inst, churn=None if churn_seed is None else random.Random(churn_seed))
    if keep is not None: keep['im'] = im
    ref = Ref(spec, inst)
    if 'error' in im:
        if mo is not None and 'error' in mo and mo['error'] == im['error']:
            res.bump('both_error:' + im['error']); return None
        return Violation(what=f'generation fails with {im["error"]} on a well-formed language and valid model',
                         fingerprint='C01:gen-error:' + im['error'].split(':')[0], replay={'spec': spec, 'inst': inst, 'churn_seed': churn_seed, 'impl': im, 'model': mo})
    ch, pa = edge_sets(im)
    if ch == pa and sorted(map(tuple, im['edges'])) != sorted(map(tuple, im.get('parent_edges', im['edges']))):
        return Violation(what='parent and child references mirror each other as sets but not with multiplicity (an edge listed twice on one side only)',
                         fingerprint='C01:mirror-multiplicity', replay={'spec': spec, 'inst': inst, 'churn_seed': churn_seed})
    if ch != pa:
        return Violation(what='parent relation is not the converse of the child relation', fingerprint='C01:not-converse',
                         replay={'spec': spec, 'inst': inst, 'churn_seed': churn_seed, 'children_only': sorted(ch - pa), 'parents_only': sorted(pa - ch)})
    try:
        lo, hi = ref.edges()
    except Exception as e:
        res.notes.append(f'reference semantics failed: {type(e).__name__}'); lo = hi = None
    if lo is not None and not (lo <= ch <= hi):
        return Violation(what=f'edges differ from the meaning of the step expressions: missing {sorted(lo - ch)[:3]}, extra {sorted(ch - hi)[:3]}',
                         fingerprint='C01:edges-not-denotation',
                         replay={'spec': spec, 'inst': inst, 'churn_seed': churn_seed, 'missing': sorted(lo - ch), 'extra': sorted(ch - hi)})
    if mo is not None:
        if 'error' in mo:
            return Violation(what=f'Lean model fails ({mo["error"]}) where the implementation succeeds', fingerprint='C01:model-divergence',
                             replay={'spec': spec, 'inst': inst, 'model': mo}, no_failing_input=True)
        mch, _ = edge_sets(mo)
        if mch != ch:
            if lo is not None and lo <= ch <= hi:
                res.notes.append('implementation within [closure+, closure*] but different from the model'); res.drift += 1
            else:
                return Violation(what='implementation and Lean model disagree on the edge set', fingerprint='C01:model-divergence',
                                 replay={'spec': spec, 'inst': inst, 'impl_only': sorted(ch - mch), 'model_only': sorted(mch - ch)}, no_failing_input=True)
        elif sorted(map(tuple, mo['edges'])) != sorted(map(tuple, im['edges'])) or mo['edges'] != im['edges']:
            res.drift += 1
    return None

def shrink(spec, inst, failing):
    changed = True
    while changed:
        changed = False
        for i in range(len(inst['links'])):
            c = dict(inst, links=inst['links'][:i] + inst['links'][i + 1:])
            if failing(spec, c): inst = c; changed = True; break
        if changed: continue
        for i in range(len(inst['assets'])):
            aid = inst['assets'][i]['id']
            if any(aid in l['left'] or aid in l['right'] for l in inst['links']): continue
            c = dict(inst, assets=inst['assets'][:i] + inst['assets'][i + 1:])
            if c['assets'] and failing(spec, c): inst = c; changed = True; break
    return spec, inst

def run(seed, tier, lean) -> Result:
    rnd = random.Random(seed)
    res = Result(rule='random well-typed languages (2-6 asset types, inheritance, variables, all operators) x random valid models '
                      '(1-8 assets, shared / cyclic / self links); the child sets of every node are compared with the reference set '
                      'semantics (bounds closure+ .. closure*) and with the Lean model; non-trivial = a set operator or transitive '
                      'step occurs and the graph has an edge between different assets')
    n = 300 if tier == 'quick' else 1800
    cases = []
    for i in range(n):
        r = random.Random(rnd.getrandbits(48))
        # every fourth language is a single inheritance chain with every mix of absent / -> / +> redefinitions
        # (the shape in which a resolver that aliases the specification leaks expressions between levels)
        spec = chain_language(r) if i % 4 == 3 else LangGen(r).gen()
        res.bump('chain_language' if i % 4 == 3 else 'random_language')
        for _ in range(2):
            cases.append((spec, gen_model(r, spec)))
    model = None
    if lean['build_ok']:
        lp = {}
        model = run_driver([{'op': 'gen', 'case': i, 'lang': lp.setdefault(id(s), lang_payload(s)), 'inst': inst_payload(m)}
                            for i, (s, m) in enumerate(cases)], case_limit=30)
    third = []          # the cases for the third column (the GENERATED code), run after the real code
    for i, (spec, inst) in enumerate(cases):
        res.evaluations += 1
        mo = None
        if model is not None:
            if 'skipped' in model[i]: pass
            elif 'error' in model[i]:
                res.violations.append(Violation(what='driver rejected a case: ' + model[i]['error'], fingerprint='C01:driver-error',
                                                replay={'spec': spec, 'inst': inst}, no_failing_input=True)); continue
            mo = model[i].get('model')
        # a third of the cases: the model is first built larger, a graph is generated, the extras are removed through
        # the API (remove_asset_from_association / remove_association / remove_asset) and only then the graph is built
        cs = (seed * 1000003 + i) if i % 3 == 2 else None
        if cs is not None: res.bump('churned_models')
        from ..common import guarded
        keep = {}
        done, v = guarded(res, check_case, spec, inst, mo, res, churn_seed=cs, keep=keep)
        if not done:
            v = nonterminating(spec, inst, res, limit=20)
            if v:
                # Time cannot tell "does not terminate" from "terminates after 2^(2^n) steps", and the unchanged evaluator
                # has such cases even on ONE asset (a self-linked asset lists its association twice, so every hop doubles
                # the targets, and a subtype filter re-evaluates its operand once per target).  Termination on every finite
                # model is a THEOREM about the translated evaluator (eval_terminates / closure_correct through the tie);
                # while that tie checks against the current source a slow case is only counted.  If the evaluator was
                # changed so that the theorem no longer checks AND a case does not finish, termination is shown by neither
                # side any more: reported, with the input, as no-failing-input-found.
                tie = (lean.get('tie') or {}).get('status')
                if tie in ('broken', 'untranslatable'):
                    v.no_failing_input = True
                    v.what += f'; the termination theorem of the translated evaluator no longer checks against the current source (tie {tie})'
                    res.violations.append(v); break
                res.bump('timed-out case that is also slow on a thinned sub-model (duplicates doubling per hop: slow, not wrong)')
            continue
        if v is None and model is not None and 'im' in keep: third.append((spec, inst, keep['im'], {'_replay': {'churn_seed': cs}}))
        ops = set()
        for e in all_exprs(spec): expr_ops(e, ops)
        for o in ops: res.bump('op:' + o)
        if mo and 'edges' in mo:
            cross = any(mo['nodes'][a]['asset'] != mo['nodes'][b]['asset'] for a, b in mo['edges'])
            if cross and ops & {'union', 'intersection', 'difference', 'transitive'}:
                res.nontrivial.add(canon_hash([spec, inst]))
            res.bump('edges', len(mo['edges']))
        if v:
            if not v.no_failing_input:
                def failing(s, m):
                    r2 = Result(); x = check_case(s, m, None, r2, churn_seed=cs); return x is not None and x.fingerprint == v.fingerprint
                try:
                    s2, m2 = shrink(spec, inst, failing)
                    v2 = check_case(s2, m2, None, Result(), churn_seed=cs)
                    if v2: v = v2
                except Exception:
                    pass
            res.violations.append(v)
        if len(res.samples) < 2 and mo and 'edges' in mo and len(mo['edges']) > 3:
            res.samples.append({'lang_assets': [a['name'] for a in spec['assets']], 'inst': inst, 'edges': mo['edges'][:10]})
    if not res.samples: res.samples.append({'inst': cases[0][1]})
    # third column: generated `lg__generate_graph`, `model_add_*`, `AttackGraph(lang_graph, model)` on the same inputs; node list
    # exact, edges as SETS (the property) with order / multiplicity differences of the children / parents lists counted as drift
    res.violations.extend(genexec.generate_column('C01', res, third, edges='set'))
    return res

def genexec_measure(seed: int, n: int) -> dict:
    """tools/genexec_seeded.py: the cases of the quick check on (mutated) implementation / hand model / regenerated code"""
    rnd = random.Random(seed); cases = []
    for i in range(n):
        r = random.Random(rnd.getrandbits(48))
        spec = chain_language(r) if i % 4 == 3 else LangGen(r).gen()
        cases.append((spec, gen_model(r, spec), (seed * 1000003 + i) if i % 3 == 2 else None, 0.4))
    return genexec.generate_measure(cases, edges='set')

def replay(path):
    r = json.load(open(path))
    from ..common import time_limit, CaseTimeout
    try:
        with time_limit(240):
            v = check_case(r['spec'], r['inst'], None, Result(), churn_seed=r.get('churn_seed'))
    except CaseTimeout:
        print('generation did not finish within 240 s'); print('VIOLATION reproduced'); return 1
    print(v.what if v else 'no violation'); print('VIOLATION reproduced' if v else 'not reproduced')
    return 1 if v else 0
