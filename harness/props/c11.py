"""C11 — attackers and nodes always agree on what is compromised."""
from __future__ import annotations
import json, random
from ..common import Result, Violation, canon_hash
from ..aghist import canon_obs, mirror, rejected_clean
from .c09 import run_histories, failing_oracle

ASSUMPTIONS = ['attackers and nodes passed to remove_attacker / attach belong to the graph; compromise / undo are also exercised with Attacker objects that are not registered (id None) or registered elsewhere (second scenario family, checked per object identity on the real code only)',
               'dataclass == on nodes/attackers coincides with identity inside one graph (distinct ids)']
TRUSTED = ['Lean 4.33 kernel', 'axioms: propext, Classical.choice, Quot.sound',
           'hand-written model Model/AGS.lean (tied by this correspondence)',
           'harness/aghist.py (history generator, real-code executor, canonicalisation, mirror checker)']
WEIGHTS = {'add_node': 4, 'link': 2, 'remove_node': 1, 'add_attacker': 4, 'remove_attacker': 3,
           'compromise': 10, 'undo': 6, 'attach': 3, 'lookup': 1,
           # rejected add_attacker calls (unknown node id after valid ones, id in use with reached steps, an attacker
           # object that is already part of the graph): nobody may have been compromised by them
           'add_attacker_bad': 2, 'add_attacker_used_id': 1, 'add_attacker_again': 1,
           # the relation must also hold for (and after) copies and reloaded graphs: caches that a hand-written
           # __deepcopy__ / loader does not carry over show only when the copy is operated on
           'deepcopy': 1, 'switch': 1, 'save_load': 1}

def step_oracle(im, ops, i, st):
    op = ops[i]
    probs = mirror(im.g) + rejected_clean(st)
    if st['err'] and op['k'] in ('add_attacker', 'add_attacker_again'):
        # the rejected attacker must not be left on any node: every attacker a node lists is an attacker of the graph
        known = {id(a) for a in im.g.attackers}
        for n in im.g.nodes:
            if any(id(a) not in known for a in n.compromised_by):
                probs.append(f'node {n.id} lists an attacker that is not part of the graph after a rejected {op["k"]}'); break
    prev = getattr(im, '_prev', None)
    cur = canon_obs(st['obs'])
    if prev is not None and op['k'] in ('compromise', 'undo'):
        a, n = im.atts[op['a']], im.nodes[op['n']]
        was = getattr(im, '_prev_comp', set())
        key = (op['a'], op['n'])
        if op['k'] == 'compromise' and key in was and cur != prev:
            probs.append('compromising an already compromised node changed the state')
        if op['k'] == 'undo' and key not in was and cur != prev:
            probs.append('undoing a compromise that did not exist changed the state')
    if op['k'] == 'remove_attacker':
        a = im.atts[op['a']]
        for n in im.nodes:
            if any(x is a for x in n.compromised_by):
                probs.append(f'node {n.id} still compromised by removed attacker'); break
        if any(x is a for x in im.g.attackers): probs.append('removed attacker still in graph')
    if op['k'] == 'attach' and not st['err']:
        new = im.g.attackers[-len(op['atts']):]
        if [a.name for a in new] != [nm for nm, _ in op['atts']]:
            probs.append('attach did not create one attacker per model attacker in order')
        else:
            for a, (nm, eps) in zip(new, op['atts']):
                want = {id(im.g._full_name_to_node[e]) for e in eps if e in im.g._full_name_to_node}
                want = {id(n) for n in im.g.nodes if n.full_name in eps}
                if {id(n) for n in a.entry_points} != want or {id(n) for n in a.reached_attack_steps} != want:
                    probs.append('attached attacker entry points / reached steps differ from the existing nodes named by the model')
    im._prev = cur
    im._prev_comp = {(ai, ni) for ai, a in enumerate(im.atts) for ni, n in enumerate(im.nodes)
                     if any(x is a for x in n.compromised_by)}
    return probs

# ---- second scenario family: attackers that are not (yet) registered in the graph ---------------------------
def gen_free(rnd):
    """Attacker objects act on the nodes of a graph before / without `add_attacker` (their id is None), or while being
    registered in another graph (ids restart at 0 there): the two sides of the relation must still agree, per object."""
    return {'nodes': rnd.randint(2, 5), 'twins': rnd.random() < 0.4,
            'atts': [rnd.choice(['free', 'free', 'here', 'other']) for _ in range(rnd.randint(2, 4))],
            'ops': [[rnd.choice(['compromise', 'compromise', 'undo']), None, None, rnd.choice(['attacker', 'node'])]
                    for _ in range(rnd.randint(3, 14))], 'seed': rnd.getrandbits(32)}

def run_free(sc):
    from maltoolbox.attackgraph import AttackGraph, AttackGraphNode, Attacker
    r = random.Random(sc['seed'])
    g1, g2 = AttackGraph(), AttackGraph()
    nodes = []
    for i in range(sc['nodes']):
        if sc.get('twins'):
            # nodes that are not (yet) part of a graph and equal field by field (same step name on two assets of a
            # hand-built graph): only their identity tells them apart
            n = AttackGraphNode(type='or', name='s', ttc=None)
        else:
            n = AttackGraphNode(type='or', name=f's{i}', ttc=None); g1.add_node(n)
        nodes.append(n)
    atts = []
    for j, kind in enumerate(sc['atts']):
        a = Attacker(name=f'att{j}', entry_points=[], reached_attack_steps=[])
        if kind == 'here': g1.add_attacker(a)
        elif kind == 'other': g2.add_attacker(a)
        atts.append(a)
    ref = set()
    for step, (k, ai, ni, side) in enumerate(sc['ops']):
        ai = r.randrange(len(atts)) if ai is None else ai
        ni = r.randrange(len(nodes)) if ni is None else ni
        a, n = atts[ai], nodes[ni]
        try:
            if side == 'node': (n.compromise if k == 'compromise' else n.undo_compromise)(a)
            else: (a.compromise if k == 'compromise' else a.undo_compromise)(n)
        except Exception as e:
            return f'{k} by an attacker with id {a.id} raised {type(e).__name__} (step {step})'
        (ref.add if k == 'compromise' else ref.discard)((ai, ni))
        for x, b in enumerate(atts):
            for y, m in enumerate(nodes):
                inr = sum(1 for z in b.reached_attack_steps if z is m)
                inc = sum(1 for z in m.compromised_by if z is b)
                want = 1 if (x, y) in ref else 0
                if inr != want or inc != want:
                    return (f'after {k} of node {y} by attacker {x} (id {a.id}, {sc["atts"][ai]}): attacker {x2s(x, sc)} lists node {y} '
                            f'{inr}x, node lists the attacker {inc}x, expected {want}x (step {step})')
                if m.is_compromised_by(b) != bool(want):
                    return f'is_compromised_by answers {m.is_compromised_by(b)} for an attacker that has {"" if want else "not "}compromised the node (step {step})'
    return None

def x2s(x, sc): return f'{x} ({sc["atts"][x]})'

def run(seed, tier, lean) -> Result:
    res = _run(seed, tier, lean)
    rnd = random.Random(seed ^ 0x11C11)
    nfree = 300 if tier == 'quick' else 1800
    for _ in range(nfree):
        sc = gen_free(rnd)
        res.evaluations += 1; res.bump('free_attacker_scenarios')
        if sc['atts'].count('free') >= 2: res.nontrivial.add(canon_hash(sc))
        bad = run_free(sc)
        if bad:
            res.violations.append(Violation(what='attackers not registered in the graph: ' + bad, fingerprint='C11:free:' + bad.split(' (step')[0][:50],
                                            replay={'free_scenario': sc, 'problem': bad}))
            break
    return res

def _run(seed, tier, lean) -> Result:
    res = run_histories('C11', seed, tier, lean, WEIGHTS, step_oracle,
                        lambda kinds, ops: any(o['k'] in ('remove_attacker', 'undo') for o in ops) and
                                           any(o['k'] == 'add_attacker' and len(o['reached']) >= 2 for o in ops),
                        quick_n=400, thorough_n=2400, gen_every=2)    # (deep copies + reloads: every second history gets the generated-code column)
    res.rule = ('random histories of compromise/undo (from either side), attach, add/remove attacker over several '
                'attackers; after every step the mirror relation, idempotence of compromise, no-op undo, clean '
                'removal and exact attachment are checked on the real objects and the state is compared with the '
                'Lean state machine; non-trivial = an attacker with >= 2 reached steps exists and something is '
                'undone or removed')
    return res

def replay(path):
    r = json.load(open(path))
    if 'free_scenario' in r:
        bad = run_free(r['free_scenario']); print(bad); print('VIOLATION reproduced' if bad else 'not reproduced'); return 1 if bad else 0
    probs = failing_oracle(r['ops'], step_oracle)
    print('problems:', probs); print('VIOLATION reproduced' if probs else 'not reproduced')
    return 1 if probs else 0
