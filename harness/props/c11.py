"""C11 — attackers and nodes always agree on what is compromised."""
from __future__ import annotations
import json
from ..common import Result
from ..aghist import canon_obs, mirror
from .c09 import run_histories, failing_oracle

ASSUMPTIONS = ['attackers and nodes passed to compromise / undo / remove_attacker belong to the graph',
               'dataclass == on nodes/attackers coincides with identity inside one graph (distinct ids)']
TRUSTED = ['Lean 4.33 kernel', 'axioms: propext, Classical.choice, Quot.sound',
           'hand-written model Model/AGS.lean (tied by this correspondence)',
           'harness/aghist.py (history generator, real-code executor, canonicalisation, mirror checker)']
WEIGHTS = {'add_node': 4, 'link': 2, 'remove_node': 1, 'add_attacker': 4, 'remove_attacker': 3,
           'compromise': 10, 'undo': 6, 'attach': 3, 'lookup': 1}

def step_oracle(im, ops, i, st):
    op = ops[i]
    probs = mirror(im.g)
    prev = getattr(im, '_prev', None)
    cur = canon_obs(st['obs'])
    if prev is not None and op['k'] in ('compromise', 'undo'):
        a, n = im.atts[op['a']], im.nodes[op['n']]
        was = getattr(im, '_prev_comp', set())
        key = (op['a'], op['n'])
        if op['k'] == 'compromise' and key in was and cur != prev:
            probs.append('compromising an already compromised node changed the state')
        if op['k'] == 'undo' and key not in was and cur != prev:
            probs.append('undoing a compromise that did not exist changed the state')
    if op['k'] == 'remove_attacker':
        a = im.atts[op['a']]
        for n in im.nodes:
            if any(x is a for x in n.compromised_by):
                probs.append(f'node {n.id} still compromised by removed attacker'); break
        if any(x is a for x in im.g.attackers): probs.append('removed attacker still in graph')
    if op['k'] == 'attach' and not st['err']:
        new = im.g.attackers[-len(op['atts']):]
        if [a.name for a in new] != [nm for nm, _ in op['atts']]:
            probs.append('attach did not create one attacker per model attacker in order')
        else:
            for a, (nm, eps) in zip(new, op['atts']):
                want = {id(im.g._full_name_to_node[e]) for e in eps if e in im.g._full_name_to_node}
                want = {id(n) for n in im.g.nodes if n.full_name in eps}
                if {id(n) for n in a.entry_points} != want or {id(n) for n in a.reached_attack_steps} != want:
                    probs.append('attached attacker entry points / reached steps differ from the existing nodes named by the model')
    im._prev = cur
    im._prev_comp = {(ai, ni) for ai, a in enumerate(im.atts) for ni, n in enumerate(im.nodes)
                     if any(x is a for x in n.compromised_by)}
    return probs

def run(seed, tier, lean) -> Result:
    res = run_histories('C11', seed, tier, lean, WEIGHTS, step_oracle,
                        lambda kinds, ops: any(o['k'] in ('remove_attacker', 'undo') for o in ops) and
                                           any(o['k'] == 'add_attacker' and len(o['reached']) >= 2 for o in ops),
                        quick_n=400, thorough_n=20000)
    res.rule = ('random histories of compromise/undo (from either side), attach, add/remove attacker over several '
                'attackers; after every step the mirror relation, idempotence of compromise, no-op undo, clean '
                'removal and exact attachment are checked on the real objects and the state is compared with the '
                'Lean state machine; non-trivial = an attacker with >= 2 reached steps exists and something is '
                'undone or removed')
    return res

def replay(path):
    r = json.load(open(path))
    probs = failing_oracle(r['ops'], step_oracle)
    print('problems:', probs); print('VIOLATION reproduced' if probs else 'not reproduced')
    return 1 if probs else 0
