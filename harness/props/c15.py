"""C15 — the language graph mirrors the language and over-approximates every attack graph."""
from __future__ import annotations
import copy, json, random
from ..common import Result, Violation, run_driver, canon_hash
from ..langgen import LangGen, gen_model, lang_payload, build_lang, build_model, jtxt
from .. import genexec

ASSUMPTIONS = [
    'languages well-formed; two declarations with the same (name, left asset, right asset) but different field names are merged by the toolbox (recorded known finding KF-C15-1) and are not generated in the asserted stream',
    'dataclass == on language-graph objects coincides with identity for distinct assets / associations of one graph',
]
TRUSTED = ['Lean 4.33 kernel', 'axioms: propext, Classical.choice, Quot.sound',
           'hand-written model Model/LangGraph.lean (tied by this correspondence)', 'harness/langgen.py, harness/props/c15.py']

def anc(spec, t):
    by = {a['name']: a for a in spec['assets']}
    out = []
    while t and t in by and t not in out: out.append(t); t = by[t]['superAsset']
    return out

def impl_obs(spec, quads):
    from maltoolbox.language import LanguageGraph
    lg = LanguageGraph(copy.deepcopy(spec))
    return observe(lg, quads), lg

def observe(lg, quads):
    names = [a.name for a in lg.assets]
    obs = {'assets': [[a.name, [[x.name, x.left_field.fieldname, x.right_field.fieldname] for x in a.associations],
                       [s.name for s in a.attack_steps], [s.name for s in a.super_assets], [s.name for s in a.sub_assets]] for a in lg.assets],
           'assocs': [[x.name, x.left_field.asset.name, x.left_field.fieldname, x.right_field.asset.name, x.right_field.fieldname] for x in lg.associations],
           'links': [[s.asset.name, s.name, t.asset.name, t.name] for s in lg.attack_steps for lst in s.children.values() for (t, _) in lst],
           'parent_links': [[p.asset.name, p.name, s.asset.name, s.name] for s in lg.attack_steps for lst in s.parents.values() for (p, _) in lst],
           'isSub': [[lg.get_asset_by_name(t).is_subasset_of(lg.get_asset_by_name(u)) for u in names] for t in names],
           'lookups': [], 'own': all(any(lg.get_asset_by_name(n) is a for a in lg.assets) for n in names)}
    for f1, f2, t1, t2 in quads:
        try:
            r = lg.get_association_by_fields_and_assets(f1, f2, t1, t2)
            obs['lookups'].append(None if r is None else [r.name, r.left_field.fieldname, r.right_field.fieldname])
        except LookupError: obs['lookups'].append('LookupError')
    return obs

def reference_probs(spec, obs, quads):
    probs = []
    names = [a['name'] for a in spec['assets']]
    by = {a['name']: a for a in spec['assets']}
    if [a[0] for a in obs['assets']] != names: probs.append('assets of the language graph differ from the declared assets')
    if not obs.get('own', True): probs.append('lookup of an asset by name returns an object that is not an asset of this language graph')
    for a in obs['assets']:
        if a[3] != ([by[a[0]]['superAsset']] if by[a[0]]['superAsset'] else []): probs.append(f'super link of {a[0]} does not mirror extends')
        if sorted(a[4]) != sorted(n for n in names if by[n]['superAsset'] == a[0]): probs.append(f'sub links of {a[0]} do not mirror extends')
        want = sorted([d['name'], d['leftField'], d['rightField']] for d in spec['associations'] if d['leftAsset'] in anc(spec, a[0]) or d['rightAsset'] in anc(spec, a[0]))
        if sorted(a[1]) != want: probs.append(f'associations listed by {a[0]} are not the ones it or an ancestor takes part in')
    for i, t in enumerate(names):
        for j, u in enumerate(names):
            if obs['isSub'][i][j] != (u in anc(spec, t)): probs.append(f'subtype query {t} <= {u} differs from the closure of extends')
    for (f1, f2, t1, t2), got in zip(quads, obs['lookups']):
        if t1 not in names or t2 not in names:
            if got != 'LookupError': probs.append('association lookup with an unknown asset type does not raise')
            continue
        match = [d for d in spec['associations'] if
                 (d['leftField'] == f1 and d['rightField'] == f2 and d['leftAsset'] in anc(spec, t1) and d['rightAsset'] in anc(spec, t2)) or
                 (d['leftField'] == f2 and d['rightField'] == f1 and d['leftAsset'] in anc(spec, t2) and d['rightAsset'] in anc(spec, t1))]
        if (got is None) != (not match) or (got is not None and got not in [[d['name'], d['leftField'], d['rightField']] for d in match]):
            probs.append(f'association lookup ({f1}, {f2}, {t1}, {t2}) answers {got}, declarations matching: {[d["name"] for d in match]}')
    if sorted(obs['links']) != sorted(obs['parent_links']): probs.append('a step-to-step link is not recorded on both ends')
    return probs

def fingerprint(spec, prob):
    sigs = [(d['name'], d['leftAsset'], d['rightAsset']) for d in spec['associations']]
    if prob.startswith('associations listed by') and len(set(sigs)) < len(sigs):
        return 'C15:same-signature-associations-merged'
    return 'C15:' + prob.split(' (')[0][:50].rstrip('0123456789T ')

def mutants(spec, r):
    """ill-formed variants that must be reported as errors"""
    out = []
    s = copy.deepcopy(spec); s['assets'][r.randrange(len(s['assets']))]['superAsset'] = 'NoSuchAsset'; out.append(('unknown super asset', s))
    if spec['associations']:
        s = copy.deepcopy(spec); s['associations'][r.randrange(len(s['associations']))][r.choice(['leftAsset', 'rightAsset'])] = 'NoSuchAsset'; out.append(('unknown association end', s))
        s = copy.deepcopy(spec); d = s['associations'][r.randrange(len(s['associations']))]; d['leftAsset'] = 'NoSuchL'; d['rightAsset'] = 'NoSuchR'; out.append(('association between two unknown assets', s))
    steps = [(a, st) for a in spec['assets'] for st in a['attackSteps'] if st.get('reaches')]
    if steps:
        s = copy.deepcopy(spec)
        a, st = r.choice([(a, st) for a in s['assets'] for st in a['attackSteps'] if st.get('reaches')])
        e = st['reaches']['stepExpressions'][0]
        tgt = e
        while tgt['type'] == 'collect': tgt = tgt['rhs']
        if tgt['type'] == 'attackStep':
            tgt['name'] = 'noSuchStep'; out.append(('unknown step target', s))
        s = copy.deepcopy(spec)
        a, st = r.choice([(a, st) for a in s['assets'] for st in a['attackSteps'] if st.get('reaches')])
        st['reaches']['stepExpressions'].append({'type': 'collect', 'lhs': {'type': 'field', 'name': 'noSuchField'}, 'rhs': {'type': 'attackStep', 'name': st['name']}})
        out.append(('unknown field', s))
    return out

def overapprox_probs(spec, lg, r):
    from maltoolbox.language import LanguageClassesFactory
    from maltoolbox.attackgraph import AttackGraph
    probs = []
    fac = LanguageClassesFactory(lg)
    for _ in range(4):
        inst = gen_model(r, spec)
        m, _ = build_model(fac, inst)
        g = AttackGraph(lg, m)
        links = {(s.asset.name, s.name, t.name): [] for s in lg.attack_steps for lst in s.children.values() for (t, _) in lst}
        for s in lg.attack_steps:
            for lst in s.children.values():
                for (t, _) in lst: links[(s.asset.name, s.name, t.name)].append(t.asset.name)
        for n in g.nodes:
            for c in n.children:
                owners = links.get((str(n.asset.type), n.name, c.name), [])
                if not any(o in anc(spec, str(c.asset.type)) for o in owners):
                    probs.append(f'attack-graph edge {n.full_name} -> {c.full_name} ({n.asset.type} -> {c.asset.type}) is not predicted by a language-graph link'); return probs, inst
    return probs, None


# ---------------------------------------------------------------------------------------------------------------------
# third column (notes/NOTES_genexec2_lang.md): the GENERATED `lg__generate_graph` (Py/GenLangType/Build.lean) run by the
# driver op `gen_langgraph` on the loaded specification, and the GENERATED lookups of Py/GenLang asked of the heap it built,
# against the real `LanguageGraph(spec)` and its methods.  Objects are named by their position in the list of the language
# graph that holds them (identity on the Python side: `id()`), so lists of objects are compared with their order.
_OTHER = {'AttributeError', 'TypeError', 'StopIteration', 'IndexError'}
def gen_class(name, lookup=False):
    """the class of an exception as the preludes keep them apart (PreludeLangType convention 11: AttributeError / TypeError on
    None, StopIteration, IndexError are one class; so is the LanguageGraphAssociationError of `get_opposite_fieldname` in the
    `lang` domain)"""
    if name in _OTHER or (lookup and name == 'LanguageGraphAssociationError'): return 'OtherError'
    return name

def _canon_step(s):
    if s is None: return None
    return {'name': s['name'], 'type': s['type'], 'tags': list(s.get('tags') or []), 'ttc': jtxt(s.get('ttc')),
            'meta': jtxt(s.get('meta', {})), 'risk': jtxt(s.get('risk')),
            'requires': s['requires']['stepExpressions'] if s.get('requires') else None,
            'reaches': {'overrides': bool(s['reaches']['overrides']), 'exprs': s['reaches']['stepExpressions']} if s.get('reaches') else None}

def _index(objs):
    d = {}
    for i, o in enumerate(objs): d.setdefault(id(o), i)
    return d

def gen_picture(lg):
    """the real language graph read off object by object, in the format of `graph` of op `gen_langgraph`"""
    aidx, cidx, tidx = _index(lg.assets), _index(lg.associations), _index(lg.attack_steps)
    A = lambda o: aidx.get(id(o), -1)
    def chain(c):
        if c is None: return None
        return [c.type, chain(c.next_link), c.fieldname, None if c.association is None else cidx.get(id(c.association), -1),
                chain(c.left_chain), chain(c.right_chain), None if c.subtype is None else A(c.subtype)]
    links = lambda d: [[k, [[tidx.get(id(t), -1), chain(c)] for (t, c) in lst]] for k, lst in d.items()]
    fld = lambda f: [A(f.asset), f.fieldname, f.minimum, f.maximum]
    return {'assets': [[a.name, a.is_abstract, jtxt(a.description), [cidx.get(id(x), -1) for x in a.associations],
                        [tidx.get(id(t), -1) for t in a.attack_steps], [A(x) for x in a.super_assets], [A(x) for x in a.sub_assets]]
                       for a in lg.assets],
            'assocs': [[x.name, fld(x.left_field), fld(x.right_field), jtxt(x.description)] for x in lg.associations],
            'steps': [[t.name, t.type, A(t.asset), jtxt(t.ttc), jtxt(t.description), _canon_step(t.attributes), links(t.children), links(t.parents)]
                      for t in lg.attack_steps]}

def gen_queries(spec, quads, k):
    """the sample of lookups asked of the generated code of `Py/GenLang` (beyond the subtype matrix, the ancestor / descendant
    lists of every asset and the association lookups `quads` of the case): drawn from the case number, not from the case's
    generator (the stream of the existing check is unchanged)"""
    r = random.Random(0xC15 * 1000003 + k)
    types = [a['name'] for a in spec['assets']]
    fields = sorted({d['leftField'] for d in spec['associations']} | {d['rightField'] for d in spec['associations']})
    vnames = sorted({v['name'] for a in spec['assets'] for v in a.get('variables', [])})
    na, nc = len(types), len(spec['associations'])
    return {'byname': types + ['Nope', ''],
            'vars': [[a['name'], v['name']] for a in spec['assets'] for v in a.get('variables', [])][:6] +
                    [[r.choice(types + ['Nope']), r.choice(vnames + ['nope'])] for _ in range(6)],
            # indices into `lg.associations` (there may be fewer objects than declarations: out of range = skipped on both sides)
            'aq': [[r.randrange(nc), r.choice(fields + ['nofield']), r.randrange(na)] for _ in range(6)] if nc else [],
            'common': [[r.randrange(na), r.randrange(na)] for _ in range(6)]}

def gen_answers(lg, quads, q, spec=None):
    """the real methods asked the queries of `gen_queries`, in the format of op `gen_langgraph`"""
    aidx, cidx = _index(lg.assets), _index(lg.associations)
    A = lambda o: None if o is None else aidx.get(id(o), -1)
    def exc(f, lookup=True):
        try: return f()
        except RecursionError: return {'error': 'RecursionError'}
        except Exception as e: return {'error': gen_class(type(e).__name__, lookup)}
    out = {'isSub': [[exc(lambda: a.is_subasset_of(b)) for b in lg.assets] for a in lg.assets],
           'isSubNone': [exc(lambda: a.is_subasset_of(None)) for a in lg.assets],
           'supers': [exc(lambda: [A(x) for x in a.get_all_superassets()]) for a in lg.assets],
           'subs': [exc(lambda: [A(x) for x in a.get_all_subassets()]) for a in lg.assets],
           'lookups': [exc(lambda: (lambda x: None if x is None else cidx.get(id(x), -1))(lg.get_association_by_fields_and_assets(*qd))) for qd in quads],
           'byname': [A(lg.get_asset_by_name(n)) for n in q['byname']],
           'vars': [exc(lambda: (lambda x: None if x is None else {'expr': x})(lg._get_variable_for_asset_type_by_name(t, v))) for t, v in q['vars']],
           'aq': [], 'common': [], 'specUnchanged': spec is None or lg._lang_spec == spec}
    for ci, f, ai in q['aq']:
        if ci >= len(lg.associations): out['aq'].append(None); continue
        x, a = lg.associations[ci], lg.assets[ai]
        out['aq'].append([x.contains_fieldname(f), exc(lambda: x.contains_asset(a)), exc(lambda: x.get_opposite_fieldname(f)),
                          exc(lambda: A(x.get_opposite_asset(a)))])
    for ai, bi in q['common']:
        out['common'].append(exc(lambda: sorted(lg.assets[ai].get_all_common_superassets(lg.assets[bi]))))
    return out

def _flat(links):
    return sorted(json.dumps(p, sort_keys=True) for _, lst in links for p in lst)

def gen_compare(pic, ans, go, q, res=None):
    """generated column against the implementation: `(what differs | None, order drift)`.  Exact: asset objects with all
    attributes and their lists (associations, attack steps, super / sub assets) in order, association objects in creation
    order with fields and multiplicities, attack-step objects in the order of `LanguageGraph.attack_steps` with all
    attributes; the `children` / `parents` dictionaries of every step as MULTISETS of (target object, dependency chain)
    (their key order / list order only counted as drift); every lookup answer; `get_all_common_superassets` as a set."""
    g = go['graph']
    for k in ('assets', 'assocs'):
        if g[k] != pic[k]: return k, 0
    if len(g['steps']) != len(pic['steps']): return 'steps', 0
    drift = 0
    for i, (a, b) in enumerate(zip(g['steps'], pic['steps'])):
        if a[:6] != b[:6]: return f'attributes of attack step {i}', 0
        for side, j in (('children', 6), ('parents', 7)):
            if a[j] != b[j]:
                if _flat(a[j]) != _flat(b[j]): return f'{side} of attack step {i} ({b[0]})', 0
                drift += 1
    if ans is not None:
        if bool(go.get('specUnchanged')) != ans['specUnchanged']: return 'on whether the construction left the specification unchanged', drift
        for k in ('isSub', 'isSubNone', 'supers', 'subs', 'lookups', 'byname', 'vars'):
            if go[k] != ans[k]: return 'lookup ' + k, drift
        for x, y in zip(go['aq'], ans['aq']):
            if y is not None and x != y: return 'lookup aq', drift
        for x, y in zip(go['common'], ans['common']):
            if (sorted(set(x)) if isinstance(x, list) else x) != y: return 'lookup common', drift
        if res is not None:
            res.bump('generated_code_lookups_compared', sum(len(r) for r in ans['isSub']) + 3 * len(ans['supers']) + len(ans['lookups']) +
                     len(ans['byname']) + len(ans['vars']) + 4 * len(ans['aq']) + len(ans['common']))
    return None, drift

def gen_links(go):
    """the links of the generated column in the format of `observe` (for the replay files)"""
    st = go['graph']['steps']; an = [a[0] for a in go['graph']['assets']]
    return [[an[s[2]], s[0], an[st[t][2]], st[t][0]] for s in st for _, lst in s[6] for (t, _) in lst]

def gen_only_mutants(spec, k):
    """ill-formed variants for the third column only (implementation vs generated code; the hand model is known to name
    another class on most of them - notes/NOTES_langtype.md §8 - so it is not consulted): the exceptions that are NOT one of
    the four classes of `languagegraph.py`.  Drawn from the case number (the stream of the existing check is unchanged)."""
    r = random.Random(0xC15E * 1000003 + k)
    out = []
    withr = [(ai, si) for ai, a in enumerate(spec['assets']) for si, st in enumerate(a['attackSteps']) if st.get('reaches')]
    fields = sorted({d['leftField'] for d in spec['associations']} | {d['rightField'] for d in spec['associations']}) or ['f']
    def add(what, e):
        s = copy.deepcopy(spec); ai, si = r.choice(withr)
        st = s['assets'][ai]['attackSteps'][si]
        st['reaches']['stepExpressions'].append({'type': 'collect', 'lhs': e, 'rhs': {'type': 'attackStep', 'name': st['name']}})
        out.append((what, s))
    if withr:
        F = lambda n: {'type': 'field', 'name': n}
        kind = k % 5
        if kind == 0: add('set operation over an untyped operand', {'type': r.choice(['union', 'intersection', 'difference']), 'lhs': F('noSuchField'), 'rhs': F(r.choice(fields))})
        if kind == 1: add('unknown subtype', {'type': 'subType', 'subType': 'NoSuchAsset', 'stepExpression': F(r.choice(fields + ['noSuchField']))})
        if kind == 2: add('unknown variable', {'type': 'variable', 'name': 'noSuchVariable'})
        if kind == 4: add('subtype of an untyped operand', {'type': 'subType', 'subType': r.choice(spec['assets'])['name'], 'stepExpression': F('noSuchField')})
        if kind == 3: add('variable of an untyped operand', {'type': 'collect', 'lhs': F('noSuchField'), 'rhs': {'type': 'variable', 'name': 'noSuchVariable'}})
    # (cyclic `extends` is not drawn: the real constructor then either ends in RecursionError or does not end at all - the
    # `while associated_assets != []` walk over cyclic `sub_assets` - see notes/NOTES_genexec2_lang.md for the one-off run)
    return out

def gen_column(res, spec, quads, lg, g, q, report):
    """one well-formed case of the third column (`lg` = the real language graph of `spec`)"""
    if 'error' in g:
        res.violations.append(genexec.driver_error('C15', g['error'], {'spec': spec})); return
    go = g['model']
    res.bump('generated_code_graphs_compared')
    if 'error' in go:
        what, drift = 'on whether the construction returns: the generated code raises ' + go['error'], 0
    else:
        pic = gen_picture(lg)
        what, drift = gen_compare(pic, gen_answers(lg, quads, q, spec), go, q, res)
        res.bump('generated_code_objects_compared', len(pic['assets']) + len(pic['assocs']) + len(pic['steps']))
        res.bump('generated_code_links_compared', sum(len(l) for t in pic['steps'] for _, l in t[6]))
    if drift: res.bump('generated_code_link_order_drift', drift)
    if what is None: return
    if not report:
        res.bump('generated_code_disagrees_while_the_oracle_fails'); return
    op = '_generate_graph' if not what.startswith('lookup') else what.split()[1]
    res.violations.append(genexec.divergence('C15', op, f'on the language graph ({what})' if op == '_generate_graph' else f'on the lookups ({what})',
        {'spec': spec, 'quads': quads, 'queries': q, 'differs': what, 'generated': str(go)[:6000],
         'impl': None if 'error' in go else str({'graph': gen_picture(lg), **gen_answers(lg, quads, q, spec)})[:6000]}))

def run(seed, tier, lean) -> Result:
    rnd = random.Random(seed)
    res = Result(rule='random well-typed languages (incl. unions of sibling types, duplicate association names between different asset pairs, fields '
                      'declared on ancestors): asset / super / sub / association lists, subtype matrix, association lookup for all sampled '
                      '(field, field, type, type) quadruples in both orientations, link mirroring; ill-formed mutants (unknown super asset, association '
                      'end(s), field, step target) must raise; for two random valid models every attack-graph edge must be predicted by a language-graph '
                      'link; compared with an independent reference and the Lean model; non-trivial = inheritance depth >= 2 and an association on an ancestor')
    n = 300 if tier == 'quick' else 1800
    cases = []
    for i in range(n):
        r = random.Random(rnd.getrandbits(48))
        # every fifth language has associations whose two ends carry the same role name (`Host [peer] <-- L --> [peer]
        # Router`): fine for the language graph and its lookups; no class / model can be built for them (KF-C06-1), so
        # the over-approximation part is skipped for these
        same_ends = i % 5 == 4
        spec = LangGen(r, knobs={'sibling_sets': True, 'dup_assoc_names': 0.4, 'subtype': 0.8, **({'same_field_both_ends': 0.6} if same_ends else {})}).gen()
        same_ends = same_ends and any(d['leftField'] == d['rightField'] for d in spec['associations'])
        fields = sorted({d['leftField'] for d in spec['associations']} | {d['rightField'] for d in spec['associations']})
        types = [a['name'] for a in spec['assets']]
        quads = []
        for d in spec['associations']:
            subsL = [t for t in types if d['leftAsset'] in anc(spec, t)]; subsR = [t for t in types if d['rightAsset'] in anc(spec, t)]
            quads.append([d['leftField'], d['rightField'], r.choice(subsL), r.choice(subsR)])
            quads.append([d['rightField'], d['leftField'], r.choice(subsR), r.choice(subsL)])
        for _ in range(10): quads.append([r.choice(fields), r.choice(fields), r.choice(types + ['Nope']), r.choice(types)])
        cases.append((spec, quads, r, same_ends))
    gq = [gen_queries(s, q, i) for i, (s, q, r, _) in enumerate(cases)]
    model, gen = genexec.run_both([{'op': 'langgraph', 'case': i, 'lang': lang_payload(s), 'lookups': q} for i, (s, q, r, _) in enumerate(cases)],
                                  'gen_langgraph', rewrite=lambda p: {**p, 'queries': True, **gq[p['case']]}) if lean['build_ok'] else (None, None)
    mut_cases = []
    gen_mut = []
    prev = None
    for i, (spec, quads, r, same_ends) in enumerate(cases):
        res.evaluations += 1
        try:
            obs, lg = impl_obs(spec, quads)
        except Exception as e:
            res.violations.append(Violation(what=f'building the language graph of a well-formed language raises {type(e).__name__}: {str(e)[:80]}',
                                            fingerprint='C15:wellformed-rejected:' + type(e).__name__, replay={'spec': spec})); continue
        probs = reference_probs(spec, obs, quads)
        inst = None
        if not probs and prev is not None:
            # the answers of the language graph built before must not change because another language (re-using asset and
            # field names, as all generated languages do) was loaded in the same process
            pp = reference_probs(prev[0], observe(prev[2], prev[1]), prev[1])
            if pp:
                res.violations.append(Violation(what='after another language was loaded: ' + pp[0][:260], fingerprint='C15:after-other-language:' + fingerprint(prev[0], pp[0]),
                                                replay={'spec': prev[0], 'quads': prev[1], 'then_spec': spec, 'problems': pp}))
        prev = (spec, quads, lg)
        if same_ends: res.bump('same role name on both ends (lookups only)')
        if not probs and not same_ends:
            try:
                from ..common import time_limit, CaseTimeout
                with time_limit(30): probs, inst = overapprox_probs(spec, lg, r)
            except CaseTimeout:
                # (`CaseTimeout` is a BaseException: before genexec2 it escaped here and ended the whole run - seed 1, a model
                # on which the pjs `==` of the real generation needs more than 30 s; counted as skipped, as `common.guarded` does)
                res.bump('skipped: the real attack-graph generation ran for more than 30 s on this case')
            except Exception as e: res.notes.append('attack graph generation failed in C15: ' + type(e).__name__)
        depth2 = any(len(anc(spec, a['name'])) >= 3 for a in spec['assets'])
        if depth2 and any(any(by_sub for by_sub in spec['assets'] if by_sub['superAsset'] in (d['leftAsset'], d['rightAsset'])) for d in spec['associations']):
            res.nontrivial.add(canon_hash(spec))
        if probs:
            res.violations.append(Violation(what=probs[0][:300], fingerprint=fingerprint(spec, probs[0]), replay={'spec': spec, 'problems': probs, 'inst': inst}))
        elif model is not None:
            mo = model[i].get('model', {})
            if 'error' in mo or any(sorted(map(json.dumps, mo[k])) != sorted(map(json.dumps, obs[k])) for k in ('assocs', 'links')) or \
                    mo['isSub'] != obs['isSub'] or mo['lookups'] != obs['lookups'] or \
                    [[a[0], sorted(a[1]), a[2], a[3], sorted(a[4])] for a in mo['assets']] != [[a[0], sorted(a[1]), a[2], a[3], sorted(a[4])] for a in obs['assets']]:
                res.violations.append(Violation(what='implementation and Lean model disagree on the language graph', fingerprint='C15:model-divergence',
                                                replay={'spec': spec, 'model': str(mo)[:3000], 'impl': str(obs)[:3000]}, no_failing_input=True))
            elif gen is not None and gen[i] is not None:
                gen_column(res, spec, quads, lg, gen[i], gq[i], report=True)
        if probs and gen is not None and gen[i] is not None:
            # the direct oracle fails (a recorded finding, or an ordinary violation reported above): by the reporting rule no
            # divergence is reported; the generated column is still compared and a disagreement counted
            gen_column(res, spec, quads, lg, gen[i], gq[i], report=False)
        for what, s in mutants(spec, r): mut_cases.append((what, s))
        if gen is not None: gen_mut.extend(gen_only_mutants(spec, i))
        if len(res.samples) < 2: res.samples.append({'assets': obs['assets'][:3], 'links': obs['links'][:5]})
    mmodel, mgen = genexec.run_both([{'op': 'langgraph', 'case': i, 'lang': lang_payload(s), 'lookups': []} for i, (w, s) in enumerate(mut_cases)],
                                    'gen_langgraph') if lean['build_ok'] else (None, None)
    from maltoolbox.language import LanguageGraph
    for i, (what, s) in enumerate(mut_cases):
        res.evaluations += 1; res.bump('ill-formed: ' + what)
        try:
            LanguageGraph(copy.deepcopy(s)); raised = None
        except Exception as e: raised = type(e).__name__
        if raised is None:
            res.violations.append(Violation(what=f'ill-formed language ({what}) is accepted without an error', fingerprint='C15:illformed-accepted:' + what,
                                            replay={'spec': s, 'what': what}))
        elif mmodel is not None and 'error' not in mmodel[i].get('model', {}):
            res.violations.append(Violation(what=f'Lean model accepts an ill-formed language ({what}) that the implementation rejects', fingerprint='C15:model-divergence-illformed',
                                            replay={'spec': s}, no_failing_input=True))
        elif mgen is not None and mgen[i] is not None:
            # third column: the generated construction must raise where the real constructor raises, with the corresponding class
            res.bump('generated_code_error_classes_compared')
            if 'error' in mgen[i]:
                res.violations.append(genexec.driver_error('C15', mgen[i]['error'], {'spec': s, 'what': what}))
            elif mgen[i]['model'].get('error') != gen_class(raised):
                res.violations.append(genexec.divergence('C15', '_generate_graph', f'on the exception an ill-formed language ({what}) ends in: the implementation raises '
                    f'{raised}, the generated code {mgen[i]["model"].get("error", "returns a language graph")}', {'spec': s, 'what': what, 'impl_err': raised, 'generated_err': mgen[i]['model'].get('error')}))
    if gen_mut:
        gout = run_driver([{'op': 'gen_langgraph', 'case': i, 'lang': lang_payload(s)} for i, (w, s) in enumerate(gen_mut)])
        for i, (what, s) in enumerate(gen_mut):
            res.bump('generated_code_error_classes_compared'); res.bump('ill-formed (generated code only): ' + what)
            try:
                LanguageGraph(copy.deepcopy(s)); raised = None
            except RecursionError: raised = 'RecursionError'
            except Exception as e: raised = type(e).__name__
            res.bump(f'ill-formed (generated code only): {what} -> {raised}')
            if 'error' in gout[i]:
                res.violations.append(genexec.driver_error('C15', gout[i]['error'], {'spec': s, 'what': what}))
            elif gout[i]['model'].get('error') != (None if raised is None else gen_class(raised)):
                res.violations.append(genexec.divergence('C15', '_generate_graph', f'on the exception an ill-formed language ({what}) ends in: the implementation '
                    f'{"raises " + raised if raised else "returns a language graph"}, the generated code {"raises " + gout[i]["model"]["error"] if "error" in gout[i]["model"] else "returns a language graph"}',
                    {'spec': s, 'what': what, 'impl_err': raised, 'generated_err': gout[i]['model'].get('error')}))
    return res

def _hand_same(mo, obs):
    """the comparison of `run` between the Lean hand model and the implementation"""
    return not ('error' in mo or any(sorted(map(json.dumps, mo[k])) != sorted(map(json.dumps, obs[k])) for k in ('assocs', 'links')) or
                mo['isSub'] != obs['isSub'] or mo['lookups'] != obs['lookups'] or
                [[a[0], sorted(a[1]), a[2], a[3], sorted(a[4])] for a in mo['assets']] != [[a[0], sorted(a[1]), a[2], a[3], sorted(a[4])] for a in obs['assets']])

def genexec_measure(seed: int, n: int) -> dict:
    """seeded experiment (tools/genexec_seeded.py): n languages of the quick check and their ill-formed mutants on the
    (mutated) implementation, the hand model and the (regenerated) generated code"""
    from maltoolbox.language import LanguageGraph
    from ..common import time_limit, CaseTimeout
    rnd = random.Random(seed)
    stats = {'cases': 0, 'impl_ne_hand': 0, 'gen_follows_impl': 0, 'gen_ne_impl': 0, 'impl_crash': 0, 'examples': []}
    def note(kind, info):
        if len([e for e in stats['examples'] if e[0] == kind]) < 2: stats['examples'].append([kind, info])
    cases = []
    for i in range(n):
        r = random.Random(rnd.getrandbits(48))
        same_ends = i % 5 == 4
        spec = LangGen(r, knobs={'sibling_sets': True, 'dup_assoc_names': 0.4, 'subtype': 0.8, **({'same_field_both_ends': 0.6} if same_ends else {})}).gen()
        fields = sorted({d['leftField'] for d in spec['associations']} | {d['rightField'] for d in spec['associations']})
        types = [a['name'] for a in spec['assets']]
        quads = []
        for d in spec['associations']:
            subsL = [t for t in types if d['leftAsset'] in anc(spec, t)]; subsR = [t for t in types if d['rightAsset'] in anc(spec, t)]
            quads.append([d['leftField'], d['rightField'], r.choice(subsL), r.choice(subsR)])
            quads.append([d['rightField'], d['leftField'], r.choice(subsR), r.choice(subsL)])
        for _ in range(10): quads.append([r.choice(fields), r.choice(fields), r.choice(types + ['Nope']), r.choice(types)])
        cases.append((spec, quads, r))
    gq = [gen_queries(s, q, i) for i, (s, q, r) in enumerate(cases)]
    hand, gen = genexec.run_both([{'op': 'langgraph', 'case': i, 'lang': lang_payload(s), 'lookups': q} for i, (s, q, r) in enumerate(cases)],
                                 'gen_langgraph', rewrite=lambda p: {**p, 'queries': True, **gq[p['case']]})
    muts = [m for (s, q, r) in cases for m in mutants(s, r)]
    mhand, mgen = genexec.run_both([{'op': 'langgraph', 'case': i, 'lang': lang_payload(s), 'lookups': []} for i, (w, s) in enumerate(muts)], 'gen_langgraph')
    def build(spec):
        try:
            with time_limit(20): return LanguageGraph(copy.deepcopy(spec)), None
        except RecursionError: return None, 'RecursionError'
        except CaseTimeout: return None, 'timeout'
        except Exception as e: return None, type(e).__name__
    kinds = stats['gen_ne_impl_kinds'] = {}
    def classify(hand_same, gen_same, info):
        if not gen_same:
            stats['gen_ne_impl'] += 1; note('gen!=impl', info)
            k = info.get('gen_differs') or f"impl {info.get('impl_err') or 'returns'} / generated {info.get('gen_err')}"
            kinds[k] = kinds.get(k, 0) + 1
        if not hand_same:
            stats['impl_ne_hand'] += 1
            if gen_same: stats['gen_follows_impl'] += 1; note('gen=impl!=hand', info)
    for i, (spec, quads, r) in enumerate(cases):
        stats['cases'] += 1
        if 'error' in hand[i] or 'error' in gen[i]:
            note('driver-error', [hand[i].get('error'), gen[i].get('error')]); continue
        mo, go = hand[i]['model'], gen[i]['model']
        lg, raised = build(spec)
        if raised == 'timeout':
            stats['impl_crash'] += 1; note('impl-crash', 'the constructor does not return within 20 s'); continue
        if lg is None:
            classify('error' in mo, go.get('error') == gen_class(raised),
                     {'spec': spec, 'impl_err': raised, 'hand_err': mo.get('error'), 'gen_err': go.get('error', 'returns')})
            continue
        try: hs = _hand_same(mo, observe(lg, quads)); herr = None
        except Exception as e: hs = False; herr = type(e).__name__
        if 'error' in go: what = 'the generated code raises ' + go['error']
        else: what = gen_compare(gen_picture(lg), gen_answers(lg, quads, gq[i], spec), go, gq[i])[0]
        classify(hs, what is None, {'spec': spec, 'quads': quads, 'gen_differs': what, 'hand_same': hs, 'observe_raises': herr})
    for i, (w, s) in enumerate(muts):
        stats['cases'] += 1
        if 'error' in mhand[i] or 'error' in mgen[i]:
            note('driver-error', [mhand[i].get('error'), mgen[i].get('error')]); continue
        mo, go = mhand[i]['model'], mgen[i]['model']
        lg, raised = build(s)
        if raised == 'timeout':
            stats['impl_crash'] += 1; note('impl-crash', f'the constructor does not return within 20 s ({w})'); continue
        if lg is None: gs = go.get('error') == gen_class(raised)
        else: gs = 'error' not in go and gen_compare(gen_picture(lg), None, go, None)[0] is None
        classify((lg is None) == ('error' in mo), gs, {'spec': s, 'what': w, 'impl_err': raised, 'hand_err': mo.get('error'), 'gen_err': go.get('error', 'returns')})
    return stats

def check_witness(w):
    spec = w['spec']
    obs, lg = impl_obs(spec, [])
    probs = reference_probs(spec, obs, [])
    return fingerprint(spec, probs[0]) if probs else None

def replay(path):
    r = json.load(open(path))
    if r.get('what'):
        from maltoolbox.language import LanguageGraph
        try: LanguageGraph(copy.deepcopy(r['spec'])); print('accepted'); print('VIOLATION reproduced'); return 1
        except Exception as e: print('raises', type(e).__name__); print('not reproduced'); return 0
    if r.get('then_spec'):
        from maltoolbox.language import LanguageGraph
        obs, lg = impl_obs(r['spec'], r['quads'])
        LanguageGraph(copy.deepcopy(r['then_spec']))
        probs = reference_probs(r['spec'], observe(lg, r['quads']), r['quads'])
        print(probs[:3]); print('VIOLATION reproduced' if probs else 'not reproduced'); return 1 if probs else 0
    obs, lg = impl_obs(r['spec'], [])
    probs = reference_probs(r['spec'], obs, [])
    if not probs and r.get('inst'):
        probs, _ = overapprox_probs(r['spec'], lg, random.Random(0))
    print(probs[:3]); print('VIOLATION reproduced' if probs else 'not reproduced'); return 1 if probs else 0
