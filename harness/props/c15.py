"""C15 — the language graph mirrors the language and over-approximates every attack graph."""
from __future__ import annotations
import copy, json, random
from ..common import Result, Violation, run_driver, canon_hash
from ..langgen import LangGen, gen_model, lang_payload, build_lang, build_model

ASSUMPTIONS = [
    'languages well-formed; two declarations with the same (name, left asset, right asset) but different field names are merged by the toolbox (recorded known finding KF-C15-1) and are not generated in the asserted stream',
    'dataclass == on language-graph objects coincides with identity for distinct assets / associations of one graph',
]
TRUSTED = ['Lean 4.33 kernel', 'axioms: propext, Classical.choice, Quot.sound',
           'hand-written model Model/LangGraph.lean (tied by this correspondence)', 'harness/langgen.py, harness/props/c15.py']

def anc(spec, t):
    by = {a['name']: a for a in spec['assets']}
    out = []
    while t and t in by and t not in out: out.append(t); t = by[t]['superAsset']
    return out

def impl_obs(spec, quads):
    from maltoolbox.language import LanguageGraph
    lg = LanguageGraph(copy.deepcopy(spec))
    return observe(lg, quads), lg

def observe(lg, quads):
    names = [a.name for a in lg.assets]
    obs = {'assets': [[a.name, [[x.name, x.left_field.fieldname, x.right_field.fieldname] for x in a.associations],
                       [s.name for s in a.attack_steps], [s.name for s in a.super_assets], [s.name for s in a.sub_assets]] for a in lg.assets],
           'assocs': [[x.name, x.left_field.asset.name, x.left_field.fieldname, x.right_field.asset.name, x.right_field.fieldname] for x in lg.associations],
           'links': [[s.asset.name, s.name, t.asset.name, t.name] for s in lg.attack_steps for lst in s.children.values() for (t, _) in lst],
           'parent_links': [[p.asset.name, p.name, s.asset.name, s.name] for s in lg.attack_steps for lst in s.parents.values() for (p, _) in lst],
           'isSub': [[lg.get_asset_by_name(t).is_subasset_of(lg.get_asset_by_name(u)) for u in names] for t in names],
           'lookups': [], 'own': all(any(lg.get_asset_by_name(n) is a for a in lg.assets) for n in names)}
    for f1, f2, t1, t2 in quads:
        try:
            r = lg.get_association_by_fields_and_assets(f1, f2, t1, t2)
            obs['lookups'].append(None if r is None else [r.name, r.left_field.fieldname, r.right_field.fieldname])
        except LookupError: obs['lookups'].append('LookupError')
    return obs

def reference_probs(spec, obs, quads):
    probs = []
    names = [a['name'] for a in spec['assets']]
    by = {a['name']: a for a in spec['assets']}
    if [a[0] for a in obs['assets']] != names: probs.append('assets of the language graph differ from the declared assets')
    if not obs.get('own', True): probs.append('lookup of an asset by name returns an object that is not an asset of this language graph')
    for a in obs['assets']:
        if a[3] != ([by[a[0]]['superAsset']] if by[a[0]]['superAsset'] else []): probs.append(f'super link of {a[0]} does not mirror extends')
        if sorted(a[4]) != sorted(n for n in names if by[n]['superAsset'] == a[0]): probs.append(f'sub links of {a[0]} do not mirror extends')
        want = sorted([d['name'], d['leftField'], d['rightField']] for d in spec['associations'] if d['leftAsset'] in anc(spec, a[0]) or d['rightAsset'] in anc(spec, a[0]))
        if sorted(a[1]) != want: probs.append(f'associations listed by {a[0]} are not the ones it or an ancestor takes part in')
    for i, t in enumerate(names):
        for j, u in enumerate(names):
            if obs['isSub'][i][j] != (u in anc(spec, t)): probs.append(f'subtype query {t} <= {u} differs from the closure of extends')
    for (f1, f2, t1, t2), got in zip(quads, obs['lookups']):
        if t1 not in names or t2 not in names:
            if got != 'LookupError': probs.append('association lookup with an unknown asset type does not raise')
            continue
        match = [d for d in spec['associations'] if
                 (d['leftField'] == f1 and d['rightField'] == f2 and d['leftAsset'] in anc(spec, t1) and d['rightAsset'] in anc(spec, t2)) or
                 (d['leftField'] == f2 and d['rightField'] == f1 and d['leftAsset'] in anc(spec, t2) and d['rightAsset'] in anc(spec, t1))]
        if (got is None) != (not match) or (got is not None and got not in [[d['name'], d['leftField'], d['rightField']] for d in match]):
            probs.append(f'association lookup ({f1}, {f2}, {t1}, {t2}) answers {got}, declarations matching: {[d["name"] for d in match]}')
    if sorted(obs['links']) != sorted(obs['parent_links']): probs.append('a step-to-step link is not recorded on both ends')
    return probs

def fingerprint(spec, prob):
    sigs = [(d['name'], d['leftAsset'], d['rightAsset']) for d in spec['associations']]
    if prob.startswith('associations listed by') and len(set(sigs)) < len(sigs):
        return 'C15:same-signature-associations-merged'
    return 'C15:' + prob.split(' (')[0][:50].rstrip('0123456789T ')

def mutants(spec, r):
    """ill-formed variants that must be reported as errors"""
    out = []
    s = copy.deepcopy(spec); s['assets'][r.randrange(len(s['assets']))]['superAsset'] = 'NoSuchAsset'; out.append(('unknown super asset', s))
    if spec['associations']:
        s = copy.deepcopy(spec); s['associations'][r.randrange(len(s['associations']))][r.choice(['leftAsset', 'rightAsset'])] = 'NoSuchAsset'; out.append(('unknown association end', s))
        s = copy.deepcopy(spec); d = s['associations'][r.randrange(len(s['associations']))]; d['leftAsset'] = 'NoSuchL'; d['rightAsset'] = 'NoSuchR'; out.append(('association between two unknown assets', s))
    steps = [(a, st) for a in spec['assets'] for st in a['attackSteps'] if st.get('reaches')]
    if steps:
        s = copy.deepcopy(spec)
        a, st = r.choice([(a, st) for a in s['assets'] for st in a['attackSteps'] if st.get('reaches')])
        e = st['reaches']['stepExpressions'][0]
        tgt = e
        while tgt['type'] == 'collect': tgt = tgt['rhs']
        if tgt['type'] == 'attackStep':
            tgt['name'] = 'noSuchStep'; out.append(('unknown step target', s))
        s = copy.deepcopy(spec)
        a, st = r.choice([(a, st) for a in s['assets'] for st in a['attackSteps'] if st.get('reaches')])
        st['reaches']['stepExpressions'].append({'type': 'collect', 'lhs': {'type': 'field', 'name': 'noSuchField'}, 'rhs': {'type': 'attackStep', 'name': st['name']}})
        out.append(('unknown field', s))
    return out

def overapprox_probs(spec, lg, r):
    from maltoolbox.language import LanguageClassesFactory
    from maltoolbox.attackgraph import AttackGraph
    probs = []
    fac = LanguageClassesFactory(lg)
    for _ in range(4):
        inst = gen_model(r, spec)
        m, _ = build_model(fac, inst)
        g = AttackGraph(lg, m)
        links = {(s.asset.name, s.name, t.name): [] for s in lg.attack_steps for lst in s.children.values() for (t, _) in lst}
        for s in lg.attack_steps:
            for lst in s.children.values():
                for (t, _) in lst: links[(s.asset.name, s.name, t.name)].append(t.asset.name)
        for n in g.nodes:
            for c in n.children:
                owners = links.get((str(n.asset.type), n.name, c.name), [])
                if not any(o in anc(spec, str(c.asset.type)) for o in owners):
                    probs.append(f'attack-graph edge {n.full_name} -> {c.full_name} ({n.asset.type} -> {c.asset.type}) is not predicted by a language-graph link'); return probs, inst
    return probs, None

def run(seed, tier, lean) -> Result:
    rnd = random.Random(seed)
    res = Result(rule='random well-typed languages (incl. unions of sibling types, duplicate association names between different asset pairs, fields '
                      'declared on ancestors): asset / super / sub / association lists, subtype matrix, association lookup for all sampled '
                      '(field, field, type, type) quadruples in both orientations, link mirroring; ill-formed mutants (unknown super asset, association '
                      'end(s), field, step target) must raise; for two random valid models every attack-graph edge must be predicted by a language-graph '
                      'link; compared with an independent reference and the Lean model; non-trivial = inheritance depth >= 2 and an association on an ancestor')
    n = 300 if tier == 'quick' else 1800
    cases = []
    for i in range(n):
        r = random.Random(rnd.getrandbits(48))
        # every fifth language has associations whose two ends carry the same role name (`Host [peer] <-- L --> [peer]
        # Router`): fine for the language graph and its lookups; no class / model can be built for them (KF-C06-1), so
        # the over-approximation part is skipped for these
        same_ends = i % 5 == 4
        spec = LangGen(r, knobs={'sibling_sets': True, 'dup_assoc_names': 0.4, 'subtype': 0.8, **({'same_field_both_ends': 0.6} if same_ends else {})}).gen()
        same_ends = same_ends and any(d['leftField'] == d['rightField'] for d in spec['associations'])
        fields = sorted({d['leftField'] for d in spec['associations']} | {d['rightField'] for d in spec['associations']})
        types = [a['name'] for a in spec['assets']]
        quads = []
        for d in spec['associations']:
            subsL = [t for t in types if d['leftAsset'] in anc(spec, t)]; subsR = [t for t in types if d['rightAsset'] in anc(spec, t)]
            quads.append([d['leftField'], d['rightField'], r.choice(subsL), r.choice(subsR)])
            quads.append([d['rightField'], d['leftField'], r.choice(subsR), r.choice(subsL)])
        for _ in range(10): quads.append([r.choice(fields), r.choice(fields), r.choice(types + ['Nope']), r.choice(types)])
        cases.append((spec, quads, r, same_ends))
    model = run_driver([{'op': 'langgraph', 'case': i, 'lang': lang_payload(s), 'lookups': q} for i, (s, q, r, _) in enumerate(cases)]) if lean['build_ok'] else None
    mut_cases = []
    prev = None
    for i, (spec, quads, r, same_ends) in enumerate(cases):
        res.evaluations += 1
        try:
            obs, lg = impl_obs(spec, quads)
        except Exception as e:
            res.violations.append(Violation(what=f'building the language graph of a well-formed language raises {type(e).__name__}: {str(e)[:80]}',
                                            fingerprint='C15:wellformed-rejected:' + type(e).__name__, replay={'spec': spec})); continue
        probs = reference_probs(spec, obs, quads)
        inst = None
        if not probs and prev is not None:
            # the answers of the language graph built before must not change because another language (re-using asset and
            # field names, as all generated languages do) was loaded in the same process
            pp = reference_probs(prev[0], observe(prev[2], prev[1]), prev[1])
            if pp:
                res.violations.append(Violation(what='after another language was loaded: ' + pp[0][:260], fingerprint='C15:after-other-language:' + fingerprint(prev[0], pp[0]),
                                                replay={'spec': prev[0], 'quads': prev[1], 'then_spec': spec, 'problems': pp}))
        prev = (spec, quads, lg)
        if same_ends: res.bump('same role name on both ends (lookups only)')
        if not probs and not same_ends:
            try:
                from ..common import time_limit
                with time_limit(30): probs, inst = overapprox_probs(spec, lg, r)
            except Exception as e: res.notes.append('attack graph generation failed in C15: ' + type(e).__name__)
        depth2 = any(len(anc(spec, a['name'])) >= 3 for a in spec['assets'])
        if depth2 and any(any(by_sub for by_sub in spec['assets'] if by_sub['superAsset'] in (d['leftAsset'], d['rightAsset'])) for d in spec['associations']):
            res.nontrivial.add(canon_hash(spec))
        if probs:
            res.violations.append(Violation(what=probs[0][:300], fingerprint=fingerprint(spec, probs[0]), replay={'spec': spec, 'problems': probs, 'inst': inst}))
        elif model is not None:
            mo = model[i].get('model', {})
            if 'error' in mo or any(sorted(map(json.dumps, mo[k])) != sorted(map(json.dumps, obs[k])) for k in ('assocs', 'links')) or \
                    mo['isSub'] != obs['isSub'] or mo['lookups'] != obs['lookups'] or \
                    [[a[0], sorted(a[1]), a[2], a[3], sorted(a[4])] for a in mo['assets']] != [[a[0], sorted(a[1]), a[2], a[3], sorted(a[4])] for a in obs['assets']]:
                res.violations.append(Violation(what='implementation and Lean model disagree on the language graph', fingerprint='C15:model-divergence',
                                                replay={'spec': spec, 'model': str(mo)[:3000], 'impl': str(obs)[:3000]}, no_failing_input=True))
        for what, s in mutants(spec, r): mut_cases.append((what, s))
        if len(res.samples) < 2: res.samples.append({'assets': obs['assets'][:3], 'links': obs['links'][:5]})
    mmodel = run_driver([{'op': 'langgraph', 'case': i, 'lang': lang_payload(s), 'lookups': []} for i, (w, s) in enumerate(mut_cases)]) if lean['build_ok'] else None
    from maltoolbox.language import LanguageGraph
    for i, (what, s) in enumerate(mut_cases):
        res.evaluations += 1; res.bump('ill-formed: ' + what)
        try:
            LanguageGraph(copy.deepcopy(s)); raised = None
        except Exception as e: raised = type(e).__name__
        if raised is None:
            res.violations.append(Violation(what=f'ill-formed language ({what}) is accepted without an error', fingerprint='C15:illformed-accepted:' + what,
                                            replay={'spec': s, 'what': what}))
        elif mmodel is not None and 'error' not in mmodel[i].get('model', {}):
            res.violations.append(Violation(what=f'Lean model accepts an ill-formed language ({what}) that the implementation rejects', fingerprint='C15:model-divergence-illformed',
                                            replay={'spec': s}, no_failing_input=True))
    return res

def check_witness(w):
    spec = w['spec']
    obs, lg = impl_obs(spec, [])
    probs = reference_probs(spec, obs, [])
    return fingerprint(spec, probs[0]) if probs else None

def replay(path):
    r = json.load(open(path))
    if r.get('what'):
        from maltoolbox.language import LanguageGraph
        try: LanguageGraph(copy.deepcopy(r['spec'])); print('accepted'); print('VIOLATION reproduced'); return 1
        except Exception as e: print('raises', type(e).__name__); print('not reproduced'); return 0
    if r.get('then_spec'):
        from maltoolbox.language import LanguageGraph
        obs, lg = impl_obs(r['spec'], r['quads'])
        LanguageGraph(copy.deepcopy(r['then_spec']))
        probs = reference_probs(r['spec'], observe(lg, r['quads']), r['quads'])
        print(probs[:3]); print('VIOLATION reproduced' if probs else 'not reproduced'); return 1 if probs else 0
    obs, lg = impl_obs(r['spec'], [])
    probs = reference_probs(r['spec'], obs, [])
    if not probs and r.get('inst'):
        probs, _ = overapprox_probs(r['spec'], lg, random.Random(0))
    print(probs[:3]); print('VIOLATION reproduced' if probs else 'not reproduced'); return 1 if probs else 0
