"""C06 — a model can only hold what the language allows."""
from __future__ import annotations
import copy, json, random, traceback
from ..common import Result, Violation, run_driver, canon_hash
from .. import genexec
from ..langgen import LangGen, lang_payload, build_lang, assoc_class_name
from ..mhist import Impl, Gen, canon_obs, canon_out
from ..genrun import Ref

ASSUMPTIONS = [
    'python_jsonschema_objects validates on assignment exactly: number range [0,1] for defenses, items of the declared class or a subclass, maxItems; modelled by okDefense/okMember/okCount and exercised through the real library',
    'maximum multiplicity is enforced per association object (what can be checked when a field is assigned); the per-asset reading over several links is not asserted',
    'association names and left asset names contain no underscore (needed for distinct generated class names; counterexamples proved in Props/C06.lean)',
    'in-place mutation of a pjs list after construction bypasses validation and is not an "attempted construction"',
]
TRUSTED = ['Lean 4.33 kernel', 'axioms: propext, Classical.choice, Quot.sound',
           'hand-written model Model/MState.lean: assocClasses, defensesOf, guards, addAsset, addAssociation (tied by this correspondence)',
           'harness/mhist.py, harness/props/c06.py']
GC_EVERY = 4               # cases between two explicit collections of the dead library classes (see `run`)
HIST_GEN_EVERY = 1         # every k-th history is also run on the generated code of the `model` domain (knob for the cost bound of the third column)
WEIGHTS = {'add_asset': 10, 'add_association': 16, 'remove_asset': 1, 'remove_association': 1, 'lookup': 1}

def class_inventory(spec):
    """what the real factory exposes"""
    lg, fac = build_lang(spec)
    assets = []
    for a in spec['assets']:
        cls = getattr(fac.ns, a['name'], None)
        if cls is None: assets.append([a['name'], None]); continue
        obj = cls(name='probe')
        props = fac.json_schema['definitions']['LanguageAsset']['definitions'][a['name']]['properties']
        # inherited defenses come through allOf: ask the instance
        ref = Ref(spec, {'assets': [], 'links': []})
        names = [k for k, s in ref.fold_steps(a['name']).items() if s['type'] == 'defense']
        got = []
        for d in names:
            try: got.append([d, repr(float(getattr(obj, d)))])
            except Exception as e: got.append([d, 'ERR:' + type(e).__name__])
        extra = sorted(k for k, v in props.items() if 'maximum' in v and k not in names)
        assets.append([a['name'], got, extra])
    assocs = []
    defs = fac.json_schema['definitions']['LanguageAssociation']['definitions']
    for a in spec['associations']:
        cn = assoc_class_name(spec, a)
        entry = defs.get(a['name'], {})
        if 'definitions' in entry: entry = entry['definitions'].get(cn, {})
        p = entry.get('properties', {})
        def fld(f): 
            q = p.get(f, {}); return [q.get('items', {}).get('$ref', '').split('/')[-1], q.get('maxItems')]
        assocs.append([cn, a['leftField']] + fld(a['leftField']) + [a['rightField']] + fld(a['rightField']) + [hasattr(fac.ns, cn)])
    return assets, assocs

def check_inventory(spec, mo):
    try:
        assets, assocs = class_inventory(spec)
    except Exception as e:      # "for every language the generated classes expose …": the factory must not raise
        return Violation(what=f'the classes of a valid language cannot be generated: LanguageClassesFactory raised {type(e).__name__}: {e}'[:300],
                         fingerprint='C06:classes:factory-raises:' + type(e).__name__, replay={'spec': spec, 'problems': [repr(e)]})
    ref = Ref(spec, {'assets': [], 'links': []})
    probs = []
    for name, got, *extra in assets:
        if got is None: probs.append(f'no class for asset type {name}'); continue
        want = []
        for k, s in ref.fold_steps(name).items():
            if s['type'] == 'defense':
                ttc = s.get('ttc'); want.append([k, '1.0' if (ttc and ttc.get('name') == 'Enabled') else '0.0'])
        if got != want: probs.append(f'defenses of {name} are {got}, expected {want}')
        if extra and extra[0]: probs.append(f'{name} exposes defenses it neither defines nor inherits: {extra[0]}')
    for a, row in zip(spec['associations'], assocs):
        want = [assoc_class_name(spec, a), a['leftField'], a['leftAsset'], a['leftMultiplicity']['max'],
                a['rightField'], a['rightAsset'], a['rightMultiplicity']['max'], True]
        if row != want: probs.append(f'association class {row} differs from the declaration {want}')
    names = [r[0] for r in assocs]
    if len(set(names)) != len(names): probs.append('two association declarations share one class')
    if probs:
        fp = 'C06:classes:' + probs[0].split(' ')[0]
        if any(a['leftField'] == a['rightField'] for a in spec['associations']) and probs[0].startswith('association class'):
            fp = 'C06:same-field-name-on-both-ends'
        return Violation(what=probs[0][:300], fingerprint=fp, replay={'spec': spec, 'problems': probs})
    if mo is not None:
        ma = [[n, d] for n, d in mo['assets']]
        if ma != [[n, g] for n, g, *_ in assets]:
            return Violation(what='implementation and Lean model disagree on asset classes / default defenses', fingerprint='C06:model-divergence',
                             replay={'spec': spec, 'impl': assets, 'model': mo['assets']}, no_failing_input=True)
        if [r[:7] for r in assocs] != [list(r) for r in mo['assocs']]:
            return Violation(what='implementation and Lean model disagree on association classes', fingerprint='C06:model-divergence',
                             replay={'spec': spec, 'impl': assocs, 'model': mo['assocs']}, no_failing_input=True)
    return None

def valid_state(im: Impl):
    """a model never contains what must be rejected"""
    m = im.m
    probs = []
    by = {a['name']: a for a in im.spec['assets']}
    def anc(t):
        out = []
        while t: out.append(t); t = by[t]['superAsset']
        return out
    decl = {assoc_class_name(im.spec, a): a for a in im.spec['associations']}
    for a in m.assets:
        for k, v in m.get_asset_defenses(a, include_defaults=True).items():
            if not (0.0 <= float(v) <= 1.0): probs.append(f'defense value {float(v)!r} outside [0,1] in the model')
    seen = set()
    for assoc in m.associations:
        cn = type(assoc).__name__
        d = decl.get(cn)
        if d is None: probs.append('association of an unknown class in the model'); continue
        for fld, ty, mx in ((d['leftField'], d['leftAsset'], d['leftMultiplicity']['max']), (d['rightField'], d['rightAsset'], d['rightMultiplicity']['max'])):
            mem = list(getattr(assoc, fld))
            if any(ty not in anc(str(x.type)) for x in mem): probs.append('association field holds an asset of a wrong type')
            if mx is not None and len(mem) > mx: probs.append('association field exceeds its maximum multiplicity')
            if len({id(x) for x in mem}) != len(mem): probs.append('asset repeated inside an association field')
        for l in getattr(assoc, d['leftField']):
            for r in getattr(assoc, d['rightField']):
                key = (cn, int(l.id), int(r.id))
                if key in seen: probs.append('the same link exists twice')
                seen.add(key)
    return probs

def run_history(spec, ops, mo_steps, res, go_steps=None):
    im = Impl(spec)
    gen_on = go_steps is not None
    for i, op in enumerate(ops):
        st = im.step(op)
        if st['err']: res.bump('rejected:' + st['err'])
        else: res.bump('accepted:' + op['k'])
        probs = valid_state(im)
        if probs: return ('oracle', i, probs)
        if mo_steps is not None:
            mo = mo_steps[i]
            a = [st['err'] is not None, canon_obs(st['obs'])]; b = [mo['err'] is not None, canon_obs(mo['obs'])]
            if a != b: return ('diverge', i, {'impl': a, 'model': b, 'impl_err': st['err'], 'model_err': mo['err']})
            if gen_on:
                # third column: the generated code of the `model` domain (Py/GenModel/*.lean, op `gen_model_hist`) on the same
                # history, compared like the hand model: raises / does not raise, canonical state (the class is drift)
                go = go_steps[i]
                if go['err'] and go['err'].startswith('skip:'):
                    gen_on = False; res.bump('generated_code_' + go['err'])      # outside what the prelude can express
                else:
                    res.bump('generated_code_steps_compared')
                    g = [go['err'] is not None, canon_obs(go['obs'])]
                    if a != g:
                        return ('gen-diverge', i, {'impl': a, 'generated': g, 'hand_model': b, 'impl_err': st['err'], 'generated_err': go['err']})
                    if st['err'] != go['err']: res.bump(f'generated-error-class-differs:{st["err"]}/{go["err"]}')
    return None

# ---------------------------------------------------------------------------------------------------------------------
# the third column (notes/NOTES_genexec2_classes.md): the GENERATED class factory (`lean/MalVerif/Py/GenClasses/Factory.lean`,
# what `translators/py2lean_classes.py` makes of the current `classes_factory.py`) run by the driver op `gen_classes` and
# compared with the real `LanguageClassesFactory`: the whole JSON schema with the insertion order of every dictionary and the
# exact values, the answers of `get_association_by_signature`, the class table read off the generated schema, the error class.
def ordered(x):
    """a Python value as ORDERED JSON (the driver's `vToOrd` writes the generated value the same way): None / bool / int /
    str as themselves, float -> {'f': repr}, list -> {'l': [...]}, tuple -> {'t': [...]}, dict -> {'d': [[key, value], ...]}
    in insertion order (a key that is not a string is tagged with its type: it never equals a string key)"""
    if x is None or isinstance(x, (bool, str)): return x
    if isinstance(x, int): return x
    if isinstance(x, float): return {'f': repr(x)}
    if isinstance(x, list): return {'l': [ordered(v) for v in x]}
    if isinstance(x, tuple): return {'t': [ordered(v) for v in x]}
    if isinstance(x, dict): return {'d': [[k if isinstance(k, str) else f'<{type(k).__name__}>{k!r}', ordered(v)] for k, v in x.items()]}
    return {'x': type(x).__name__}

def lg_payload(lg):
    """the real `LanguageGraph` object as the factory reads it: the asset objects (name, super assets by position in
    `lg.assets`, attack steps with name / type / ttc) and the association objects (name; per field: asset, field name, maximum)"""
    idx = {id(a): i for i, a in enumerate(lg.assets)}
    fld = lambda f: [idx[id(f.asset)], f.fieldname, ordered(f.maximum)]
    return {'assets': [{'name': a.name, 'supers': [idx[id(u)] for u in a.super_assets],
                        'steps': [[st.name, st.type, ordered(st.ttc)] for st in a.attack_steps]} for a in lg.assets],
            'assocs': [{'name': a.name, 'left': fld(a.left_field), 'right': fld(a.right_field)} for a in lg.associations]}

def signatures(spec):
    """queries for `get_association_by_signature`: every declaration (first, in declaration order), the same flipped, with
    an unknown asset, with the ends of another declaration of the same name, an unknown name"""
    decl = [[a['name'], a['leftAsset'], a['rightAsset']] for a in spec['associations']]
    out = list(decl)
    for n, l, r in decl:
        for q in ([n, r, l], [n, l, 'NoSuchAsset']):
            if q not in out: out.append(q)
    for n, l, r in decl:
        for n2, l2, r2 in decl:
            if n2 == n and [n, l, r2] not in out: out.append([n, l, r2])
    out.append(['NoSuchAssociation', 'T0', 'T0'])
    return out

def real_factory(lg, sigs):
    """the real factory on the language graph `lg`: {'error': class of an exception raised by the factory's own code,
    'pjs_error': class of an exception raised inside python_jsonschema_objects / jsonschema (the library is a parameter of the
    translation: the schema is complete at that point and is compared), 'schema': ordered schema, 'sigs': answers, 'fac'}"""
    from maltoolbox.language import LanguageClassesFactory
    out = {'error': None, 'pjs_error': None, 'schema': None, 'sigs': None, 'fac': None}
    try:
        fac = LanguageClassesFactory(lg)
    except Exception as e:
        frames = traceback.extract_tb(e.__traceback__)
        if not any('classes_factory' in f.filename for f in frames[-1:]):
            # raised below `pjs.ObjectBuilder` / `build_classes`: what __init__ does, once more, keeping the object
            out['pjs_error'] = type(e).__name__
            fac = LanguageClassesFactory.__new__(LanguageClassesFactory)
            fac.lang_graph = lg; fac.json_schema = {}
            try: fac._create_classes()
            except Exception: pass
        else:
            out['error'] = type(e).__name__; return out
    out['fac'] = fac
    out['schema'] = ordered(fac.json_schema)
    out['sigs'] = []
    for n, l, r in sigs:
        try: out['sigs'].append({'cls': fac.get_association_by_signature(n, l, r)})
        except Exception as e: out['sigs'].append({'error': type(e).__name__})
    return out

def first_difference(a, b, path='schema'):
    """where two ordered values differ first (for the report)"""
    if type(a) != type(b): return f'{path}: {json.dumps(a)[:80]} / {json.dumps(b)[:80]}'
    if isinstance(a, dict):
        if set(a) != set(b): return f'{path}: {json.dumps(a)[:80]} / {json.dumps(b)[:80]}'
        for k in a:
            if a[k] != b[k]: return first_difference(a[k], b[k], path if k in ('d', 'l', 't') else f'{path}.{k}')
    if isinstance(a, list):
        if a and isinstance(a[0], list) and len(a[0]) == 2 and isinstance(a[0][0], str):      # items of a dictionary
            ka, kb = [e[0] for e in a], [e[0] for e in b]
            if ka != kb: return f'{path}: keys {ka} / {kb}'
            for (k, v), (_, w) in zip(a, b):
                if v != w: return first_difference(v, w, f'{path}[{k!r}]')
        if len(a) != len(b): return f'{path}: lengths {len(a)} / {len(b)}'
        for i, (v, w) in enumerate(zip(a, b)):
            if v != w: return first_difference(v, w, f'{path}[{i}]')
    return f'{path}: {json.dumps(a)[:80]} / {json.dumps(b)[:80]}'

def generated_differs(real, g, inventory=None, ndecl=0):
    """the answer `g` of one side of `gen_classes` against the real factory `real`; `inventory` = (assets, assocs) the class
    table to which the one read off the generated schema is compared (`Py/AbsClasses.lean`: schemaDefenses / schemaClassAt
    under the class name the generated `get_association_by_signature` returns) - None: not compared.  Returns None or
    (what, detail)"""
    if 'langError' in g: return ('the language graph of the hand model raises', g['langError'])
    if real['error'] or 'error' in g:
        if real['error'] != g.get('error'): return ('on the exception of the factory', {'impl': real['error'], 'generated': g.get('error')})
        return None
    if real['schema'] != g['schema']:
        return ('on the JSON schema', {'first_difference (impl / generated)': first_difference(real['schema'], g['schema'])})
    gs = [{k: v for k, v in e.items() if k != 'class'} for e in g['sigs']]
    if real['sigs'] != gs: return ('on get_association_by_signature', {'impl': real['sigs'], 'generated': gs})
    if inventory is not None:
        assets, assocs = inventory
        if [list(r) for r in assets] != g['assets']:
            return ('on the asset classes / default defenses read off the schema', {'impl': assets, 'generated': g['assets']})
        gc = [e.get('class') for e in g['sigs'][:ndecl]]
        if [list(r) for r in assocs] != gc:
            return ('on the association classes read off the schema', {'impl': assocs, 'generated': gc})
    return None

# ---- languages the generators of the property never draw: the error behaviour and the odd corners of the factory
def _bare(r):
    """a generated language without step expressions (so that every mutation below still gives a language graph)"""
    spec = LangGen(r, knobs={'dup_assoc_names': 0.5, 'zero_mult': 0.12, 'composite_def_ttc': 0.3, 'same_field_both_ends': 0.1}).gen()
    for a in spec['assets']:
        a['variables'] = []
        for st in a['attackSteps']:
            st['reaches'] = None; st['requires'] = None
            if st['type'] in ('exist', 'notExist'): st['type'] = 'or'
    return spec

def _a_defense(r, spec):
    ds = [st for a in spec['assets'] for st in a['attackSteps'] if st['type'] == 'defense']
    if ds: return r.choice(ds)
    if not spec['assets']: spec['assets'].append(_new_asset('T0'))
    a = r.choice(spec['assets'])
    if not a['attackSteps']: a['attackSteps'].append(_new_asset('')['attackSteps'][0])
    st = r.choice(a['attackSteps']); st['type'] = 'defense'; return st

def _new_asset(name):
    return {'name': name, 'meta': {}, 'category': 'C', 'isAbstract': False, 'superAsset': None, 'variables': [],
            'attackSteps': [{'name': 'd0', 'meta': {}, 'type': 'defense', 'tags': [], 'risk': None,
                             'ttc': {'type': 'function', 'name': 'Enabled', 'arguments': []}, 'requires': None, 'reaches': None}]}

ODD = {
    # a defense that takes the place of a fixed property of the class (NOTES_classes F2) or has the name of a schema keyword
    'defense-named-id': lambda r, sp: _a_defense(r, sp).__setitem__('name', 'id'),
    'defense-named-type': lambda r, sp: _a_defense(r, sp).__setitem__('name', 'type'),
    'defense-named-properties': lambda r, sp: _a_defense(r, sp).__setitem__('name', 'properties'),
    # TTC values that are not a dictionary / None: falsy ones give the default 0.0, true ones raise AttributeError (`.get`)
    'ttc-int': lambda r, sp: _a_defense(r, sp).__setitem__('ttc', r.choice([5, 1, -1])),
    'ttc-zero': lambda r, sp: _a_defense(r, sp).__setitem__('ttc', r.choice([0, 0.0, False, '', [], {}])),
    'ttc-str': lambda r, sp: _a_defense(r, sp).__setitem__('ttc', 'Enabled'),
    'ttc-list': lambda r, sp: _a_defense(r, sp).__setitem__('ttc', [{'name': 'Enabled'}]),
    'ttc-float': lambda r, sp: _a_defense(r, sp).__setitem__('ttc', r.choice([2.5, 1e-300, 0.001])),
    'ttc-true': lambda r, sp: _a_defense(r, sp).__setitem__('ttc', True),
    'ttc-odd-name': lambda r, sp: _a_defense(r, sp).__setitem__('ttc', r.choice([{'name': None}, {'name': 'enabled'}, {'name': ['Enabled']},
                                   {'name': 'Enabled'}, {'Name': 'Enabled'}, {'name': 1}, {'name': {'name': 'Enabled'}}, {'name': 'Enabled', 'x': 1.5}])),
    # names
    'duplicate-asset': lambda r, sp: sp['assets'].append(copy.deepcopy(r.choice(sp['assets']))),
    'asset-named-LanguageAsset': lambda r, sp: sp['assets'].append(_new_asset(r.choice(['LanguageAsset', 'LanguageAssociation', 'LanguageObject']))),
    'asset-odd-name': lambda r, sp: sp['assets'].append(_new_asset(r.choice(['', 'a b', 'Ünï-cødé', 'q"uote', 'back\\slash', 'new\nline', 'definitions', 'T0_T1']))),
    'asset-name-slash': lambda r, sp: sp['assets'].append(_new_asset('a/b')),
    'association-named-as-asset': lambda r, sp: r.choice(sp['associations']).__setitem__('name', r.choice(sp['assets'])['name']) if sp['associations'] else None,
    'association-odd-name': lambda r, sp: r.choice(sp['associations']).__setitem__('name', r.choice(['LanguageAssociation', 'definitions', 'oneOf', 'A_b', '', 'Assoc0_T0_T1'])) if sp['associations'] else None,
    'association-repeated': lambda r, sp: sp['associations'].append(copy.deepcopy(r.choice(sp['associations']))) if sp['associations'] else None,
    'association-flipped-twin': lambda r, sp: sp['associations'].append(dict(copy.deepcopy(a := r.choice(sp['associations'])), leftAsset=a['rightAsset'], rightAsset=a['leftAsset'])) if sp['associations'] else None,
    'field-odd-name': lambda r, sp: r.choice(sp['associations']).__setitem__(r.choice(['leftField', 'rightField']), r.choice(['definitions', 'properties', 'title', '', 'maxItems'])) if sp['associations'] else None,
    'same-field-on-both-ends': lambda r, sp: (lambda a: a.__setitem__('rightField', a['leftField']))(r.choice(sp['associations'])) if sp['associations'] else None,
    # maxima that are not a natural number / None (the library refuses most of them: the schema is still compared)
    'maximum-odd': lambda r, sp: r.choice(sp['associations'])[r.choice(['leftMultiplicity', 'rightMultiplicity'])].__setitem__('max', r.choice([True, False, 1.5, 2.0, '2', -1, 10 ** 20, [1]])) if sp['associations'] else None,
    # nothing to generate: the empty `oneOf` lists are deleted
    'no-associations': lambda r, sp: sp.__setitem__('associations', []),
    'no-assets': lambda r, sp: (sp.__setitem__('associations', []), sp.__setitem__('assets', [])),
}

def odd_language(r):
    spec = _bare(r)
    kinds = []
    for k in r.sample(sorted(ODD), r.choice([1, 1, 2, 3])):
        try: ODD[k](r, spec); kinds.append(k)
        except IndexError: pass                      # nothing left to apply it to (after `no-assets`)
    return spec, kinds

def run_odd(seed, n, res):
    """implementation vs generated code on `n` odd languages (no hand model: they are outside its hypotheses)"""
    from maltoolbox.language import LanguageGraph
    rnd = random.Random(seed ^ 0xC1A55)
    cases = []
    for _ in range(n):
        spec, kinds = odd_language(random.Random(rnd.getrandbits(48)))
        try: lg = LanguageGraph(copy.deepcopy(spec))
        except Exception as e:
            res.bump(f'odd_language_graph_raises:{type(e).__name__}'); continue
        cases.append((spec, kinds, lg, signatures(spec)))
    gen = run_driver([{'op': 'gen_classes', 'case': i, 'lg': lg_payload(lg), 'sigs': sg} for i, (sp, k, lg, sg) in enumerate(cases)])
    import gc
    for k, ((spec, kinds, lg, sigs), g) in enumerate(zip(cases, gen)):
        if k % GC_EVERY == 0: gc.collect()
        res.evaluations += 1; res.bump('generated_code_odd_languages_compared')
        if 'error' in g:
            res.violations.append(genexec.driver_error('C06', g['error'], {'spec': spec, 'odd': kinds})); continue
        real = real_factory(lg, sigs)
        how = real['error'] or (('library:' + real['pjs_error']) if real['pjs_error'] else 'built')
        for k in kinds: res.bump(f'odd:{k} -> {how}')
        if real['sigs']: res.bump('generated_code_signatures_compared', len(sigs))
        d = generated_differs(real, g['model']['fromLG'])
        if d:
            res.violations.append(genexec.divergence('C06', 'gen_classes', f'{d[0]} of an odd language ({", ".join(kinds)})',
                                                     {'spec': spec, 'odd': kinds, 'difference': d[1]}))

def genexec_measure(seed: int, n: int) -> dict:
    """the seeded-defect experiment (`tools/genexec_seeded.py`): `n` languages of the quick check on the (mutated)
    implementation, the hand model (`classes`) and the (regenerated) factory (`gen_classes`).  impl != hand: `check_inventory`
    reports something (factory raises, class table differs from the declaration / the model); gen = the generated factory on
    the language graph read off the real object (`fromLG`), compared on error class, ordered schema and signature answers.
    Then one history per language (`model_hist` / `gen_model_hist`, classified as the C05 family of the tool; the `hist_*`
    counters are the share of the histories in the main counters).  Extra counters: `gen_lang_ne_impl` (the generated factory on the language graph built from the language, `fromLang`),
    `gen_table_ne_impl` (schema equal but the class table `Py/AbsClasses.lean` reads differs from the one the real classes
    show), `odd_cases` / `odd_gen_ne_impl` (the odd languages, no hand model)"""
    from maltoolbox.language import LanguageGraph
    rnd = random.Random(seed)
    st = {'cases': 0, 'impl_ne_hand': 0, 'gen_follows_impl': 0, 'gen_ne_impl': 0, 'impl_crash': 0, 'gen_lang_ne_impl': 0,
          'gen_table_ne_impl': 0, 'odd_cases': 0, 'odd_gen_ne_impl': 0, 'examples': []}
    def note(kind, info):
        if len([e for e in st['examples'] if e[0] == kind]) < 2: st['examples'].append([kind, info])
    specs = []
    for i in range(n):
        r = random.Random(rnd.getrandbits(48))
        specs.append(LangGen(r, knobs={'dup_assoc_names': 0.5, 'zero_mult': 0.12, 'composite_def_ttc': 0.3}).gen())
    lgs, sigs = [], [signatures(s) for s in specs]
    for s in specs:
        try: lgs.append(LanguageGraph(copy.deepcopy(s)))
        except Exception as e: lgs.append(e)
    def twin(q):
        q['sigs'] = sigs[q['case']]
        if not isinstance(lgs[q['case']], Exception): q['lg'] = lg_payload(lgs[q['case']])
        return q
    hand, gen = genexec.run_both([{'op': 'classes', 'case': i, 'lang': lang_payload(s)} for i, s in enumerate(specs)], 'gen_classes', rewrite=twin)
    import gc
    for i, spec in enumerate(specs):
        if i % GC_EVERY == 0: gc.collect()           # see `run`
        st['cases'] += 1
        if isinstance(lgs[i], Exception):
            st['impl_crash'] += 1; note('impl-crash', f'LanguageGraph(): {type(lgs[i]).__name__}'); continue
        if 'error' in hand[i] or 'error' in gen[i]:
            note('driver-error', [hand[i].get('error'), gen[i].get('error')]); continue
        mo = hand[i]['model']
        v = check_inventory(spec, mo)
        real = real_factory(lgs[i], sigs[i])
        d = generated_differs(real, gen[i]['model']['fromLG'])
        if generated_differs(real, gen[i]['model']['fromLang']): st['gen_lang_ne_impl'] += 1
        if d:
            st['gen_ne_impl'] += 1; note('gen!=impl', {'spec': spec, 'what': d[0], 'difference': d[1]})
        elif not real['error']:
            try:
                assets, assocs = class_inventory(spec)
                t = generated_differs(real, gen[i]['model']['fromLG'], ([[a[0], a[1]] for a in assets], [r[:7] for r in assocs]), len(spec['associations']))
                if t: st['gen_table_ne_impl'] += 1; note('gen-table!=impl', {'what': t[0], 'difference': t[1]})
            except Exception: pass
        if v:
            st['impl_ne_hand'] += 1
            if not d:
                st['gen_follows_impl'] += 1; note('gen=impl!=hand', {'impl vs hand': v.what[:300], 'fingerprint': v.fingerprint})
    # the histories of the property (C06 also checks what a model accepts): implementation / hand model (`model_hist`) /
    # generated code of the `model` domain (`gen_model_hist`), classified like the C05 family of the tool; every history is
    # one more case
    hists = []
    for spec in specs:
        r = random.Random(rnd.getrandbits(48))
        hists.append(Gen(r, spec, WEIGHTS, odd_defenses=True).gen(r.randint(6, 40)))
    hand, gen = genexec.run_both([{'op': 'model_hist', 'case': i, 'lang': lang_payload(s), 'ops': hists[i]} for i, s in enumerate(specs)], 'gen_model_hist')
    for k in ('hist_cases', 'hist_impl_ne_hand', 'hist_gen_follows_impl', 'hist_gen_ne_impl', 'raised_halfway'): st[k] = 0
    for ci, spec in enumerate(specs):
        if ci % GC_EVERY == 0: gc.collect()
        st['cases'] += 1; st['hist_cases'] += 1
        if 'error' in hand[ci] or 'error' in gen[ci]:
            note('driver-error', [hand[ci].get('error'), gen[ci].get('error')]); continue
        try: im = Impl(spec)
        except Exception as e:
            st['impl_crash'] += 1; note('impl-crash', f'Impl(): {type(e).__name__}'); continue
        for i, op in enumerate(hists[ci]):
            if op['k'] == 'add_asset' and any(d[1] == 'nan' for d in op.get('defenses', [])):
                st['hist_cut_at_nan'] = st.get('hist_cut_at_nan', 0) + 1; break      # recorded finding (NaN passes the range check of the library): not a step to classify
            try: sp = im.step(op)
            except Exception as e:
                st['impl_crash'] += 1; note('impl-crash', f'{type(e).__name__} at {op["k"]}'); break
            mo, go = hand[ci]['model'][i], gen[ci]['model'][i]
            if go['err'] and go['err'].startswith('skip:'): break
            a = [sp['err'] is not None, canon_obs(sp['obs'])]
            b = [mo['err'] is not None, canon_obs(mo['obs'])]
            g = [go['err'] is not None, canon_obs(go['obs'])]
            if a != g and a[0] and g[0]:
                # both raise, the states differ: the implementation raised half-way, the translation drops the heap of a raising call
                st['raised_halfway'] += 1
                if not b[0]: st['impl_ne_hand'] += 1; st['gen_follows_impl'] += 1; st['hist_impl_ne_hand'] += 1; st['hist_gen_follows_impl'] += 1
                note('raised-half-way', {'step': i, 'op': op, 'err': sp['err'], 'hand_err': mo['err']}); break
            if a != g:
                st['gen_ne_impl'] += 1; st['hist_gen_ne_impl'] += 1
                note('gen!=impl', {'spec': spec, 'ops': hists[ci][:i + 1], 'impl': [sp['err'], sp['obs']], 'gen': [go['err'], go['obs']]})
            if a != b:
                st['impl_ne_hand'] += 1; st['hist_impl_ne_hand'] += 1
                if a == g:
                    st['gen_follows_impl'] += 1; st['hist_gen_follows_impl'] += 1
                    note('gen=impl!=hand', {'step': i, 'op': op, 'impl_err': sp['err'], 'hand_err': mo['err'], 'gen_err': go['err']})
            if a != b or a != g: break
    res = Result(); run_odd(seed, max(20, n // 3), res)
    st['odd_cases'] = res.distribution.get('generated_code_odd_languages_compared', 0)
    st['odd_gen_ne_impl'] = len(res.violations)
    for x in res.violations[:2]: note('gen!=impl', {'odd': x.replay.get('odd'), 'what': x.what[:200], 'difference': x.replay.get('difference')})
    return st

def run(seed, tier, lean) -> Result:
    rnd = random.Random(seed)
    res = Result(rule='random languages (inheritance, inherited defenses, defenses with composite / numeric TTCs, duplicate association names, every multiplicity form): class inventory '
                      'and default defense values compared with the declaration and the Lean model; histories of valid and invalid constructions '
                      '(defense values -0.1/0/0.25/0.5/1/1.0001, wrong / sibling / super types, maxItems+1, repeated asset, existing link, removed '
                      'asset) with accept/reject and resulting state compared; the real model is scanned after every step for anything that must '
                      'have been rejected; non-trivial = an attempt involving an inherited defense, a subtype member or a duplicate-named association')
    n = 250 if tier == 'quick' else 1500
    cases = []
    for i in range(n):
        r = random.Random(rnd.getrandbits(48))
        spec = LangGen(r, knobs={'dup_assoc_names': 0.5, 'zero_mult': 0.12, 'composite_def_ttc': 0.3}).gen()
        cases.append((spec, Gen(r, spec, WEIGHTS, odd_defenses=True).gen(r.randint(6, 40))))
    model = inv = gen = gmodel = None
    if lean['build_ok']:
        model, gmodel = genexec.run_both([{'op': 'model_hist', 'case': i, 'lang': lang_payload(s), 'ops': o} for i, (s, o) in enumerate(cases)],
                                         'gen_model_hist', every=HIST_GEN_EVERY)
        # third column: the real language graphs are built first (the generated factory is handed what the real one is handed)
        from maltoolbox.language import LanguageGraph
        lgs, sigs = [], [signatures(s) for s, o in cases]
        for s, o in cases:
            try: lgs.append(LanguageGraph(copy.deepcopy(s)))
            except Exception: lgs.append(None)            # reported by check_inventory below
        def twin(q):
            q['sigs'] = sigs[q['case']]
            if lgs[q['case']] is not None: q['lg'] = lg_payload(lgs[q['case']])
            return q
        inv, gen = genexec.run_both([{'op': 'classes', 'case': i, 'lang': lang_payload(s)} for i, (s, o) in enumerate(cases)], 'gen_classes', rewrite=twin)
    import gc
    for i, (spec, ops) in enumerate(cases):
        res.evaluations += 1
        # the classes python_jsonschema_objects builds are garbage in reference cycles; as long as they wait for the cyclic
        # collector every `issubclass` of the library against an ABC walks them (measured: 3.8 M instead of 1.9 M subclass checks,
        # 50 s instead of 20 s, once the answers of the generated column made full collections rarer)
        if i % GC_EVERY == 0: gc.collect()
        v = check_inventory(spec, inv[i].get('model') if inv else None)
        if v: res.violations.append(v); continue
        if gen is not None and gen[i] is not None and lgs[i] is not None:
            # hand model = implementation = declaration here (check_inventory passed): the class table of the hand model IS the
            # real one, the generated code must give it too - and the real schema, signature answers, error class
            if 'error' in gen[i]:
                res.violations.append(genexec.driver_error('C06', gen[i]['error'], {'spec': spec}))
            else:
                real = real_factory(lgs[i], sigs[i]); mo = inv[i]['model']
                for side in ('fromLG', 'fromLang'):
                    d = generated_differs(real, gen[i]['model'][side], (mo['assets'], mo['assocs']), len(spec['associations']))
                    if d:
                        res.violations.append(genexec.divergence('C06', 'gen_classes', f'{d[0]} (language graph {"read off the real object" if side == "fromLG" else "built from the language as the ties build it"})',
                                                                 {'spec': spec, 'side': side, 'difference': d[1]}))
                        break
                res.bump('generated_code_schemas_compared', 2); res.bump('generated_code_signatures_compared', 2 * len(sigs[i]))
        mo = model[i].get('model') if model is not None else None
        go = None
        if gmodel is not None and gmodel[i] is not None:
            if 'error' in gmodel[i]: res.violations.append(genexec.driver_error('C06', gmodel[i]['error'], {'spec': spec, 'ops': ops}))
            else: go = gmodel[i]['model']
        bad = run_history(spec, ops, mo, res, go)
        names = [a['name'] for a in spec['associations']]
        if len(set(names)) < len(names) or any(a['superAsset'] for a in spec['assets']): res.nontrivial.add(canon_hash([spec, ops]))
        if bad:
            kind, at, info = bad
            if kind == 'oracle':
                res.violations.append(Violation(what=f'{info[0]} after {ops[at]["k"]}', fingerprint='C06:' + info[0][:50],
                                                replay={'spec': spec, 'ops': ops[:at + 1], 'problems': info}))
            elif kind == 'gen-diverge':
                res.violations.append(genexec.divergence('C06', ops[at]['k'], f'after step {at} ({ops[at]["k"]}) of a history',
                                                         {'spec': spec, 'ops': ops[:at + 1], **info}))
            else:
                res.violations.append(Violation(what=f'implementation and Lean model disagree on accepting {ops[at]["k"]} (impl {info["impl_err"]}, model {info["model_err"]})',
                                                fingerprint='C06:model-divergence:' + ops[at]['k'], replay={'spec': spec, 'ops': ops[:at + 1], **info}, no_failing_input=True))
        if len(res.samples) < 2: res.samples.append({'classes': inv[i].get('model') if inv else None, 'ops': ops[:4]})
    if lean['build_ok']: run_odd(seed, 100 if tier == 'quick' else 600, res)
    return res

def replay(path):
    r = json.load(open(path))
    if 'ops' in r:
        bad = run_history(r['spec'], r['ops'], None, Result())
        print(bad); print('VIOLATION reproduced' if bad else 'not reproduced'); return 1 if bad else 0
    v = check_inventory(r['spec'], None)
    print(v.what if v else 'no violation'); print('VIOLATION reproduced' if v else 'not reproduced')
    return 1 if v else 0

def check_witness(w):
    if 'ops' in w:
        bad = run_history(w['spec'], w['ops'], None, Result())
        return ('C06:' + bad[2][0][:50]) if bad and bad[0] == 'oracle' else None
    v = check_inventory(w['spec'], None)
    return v.fingerprint if v else None
