"""C06 — a model can only hold what the language allows."""
from __future__ import annotations
import json, random
from ..common import Result, Violation, run_driver, canon_hash
from ..langgen import LangGen, lang_payload, build_lang, assoc_class_name
from ..mhist import Impl, Gen, canon_obs, canon_out
from ..genrun import Ref

ASSUMPTIONS = [
    'python_jsonschema_objects validates on assignment exactly: number range [0,1] for defenses, items of the declared class or a subclass, maxItems; modelled by okDefense/okMember/okCount and exercised through the real library',
    'maximum multiplicity is enforced per association object (what can be checked when a field is assigned); the per-asset reading over several links is not asserted',
    'association names and left asset names contain no underscore (needed for distinct generated class names; counterexamples proved in Props/C06.lean)',
    'in-place mutation of a pjs list after construction bypasses validation and is not an "attempted construction"',
]
TRUSTED = ['Lean 4.33 kernel', 'axioms: propext, Classical.choice, Quot.sound',
           'hand-written model Model/MState.lean: assocClasses, defensesOf, guards, addAsset, addAssociation (tied by this correspondence)',
           'harness/mhist.py, harness/props/c06.py']
WEIGHTS = {'add_asset': 10, 'add_association': 16, 'remove_asset': 1, 'remove_association': 1, 'lookup': 1}

def class_inventory(spec):
    """what the real factory exposes"""
    lg, fac = build_lang(spec)
    assets = []
    for a in spec['assets']:
        cls = getattr(fac.ns, a['name'], None)
        if cls is None: assets.append([a['name'], None]); continue
        obj = cls(name='probe')
        props = fac.json_schema['definitions']['LanguageAsset']['definitions'][a['name']]['properties']
        # inherited defenses come through allOf: ask the instance
        ref = Ref(spec, {'assets': [], 'links': []})
        names = [k for k, s in ref.fold_steps(a['name']).items() if s['type'] == 'defense']
        got = []
        for d in names:
            try: got.append([d, repr(float(getattr(obj, d)))])
            except Exception as e: got.append([d, 'ERR:' + type(e).__name__])
        extra = sorted(k for k, v in props.items() if 'maximum' in v and k not in names)
        assets.append([a['name'], got, extra])
    assocs = []
    defs = fac.json_schema['definitions']['LanguageAssociation']['definitions']
    for a in spec['associations']:
        cn = assoc_class_name(spec, a)
        entry = defs.get(a['name'], {})
        if 'definitions' in entry: entry = entry['definitions'].get(cn, {})
        p = entry.get('properties', {})
        def fld(f): 
            q = p.get(f, {}); return [q.get('items', {}).get('$ref', '').split('/')[-1], q.get('maxItems')]
        assocs.append([cn, a['leftField']] + fld(a['leftField']) + [a['rightField']] + fld(a['rightField']) + [hasattr(fac.ns, cn)])
    return assets, assocs

def check_inventory(spec, mo):
    try:
        assets, assocs = class_inventory(spec)
    except Exception as e:      # "for every language the generated classes expose …": the factory must not raise
        return Violation(what=f'the classes of a valid language cannot be generated: LanguageClassesFactory raised {type(e).__name__}: {e}'[:300],
                         fingerprint='C06:classes:factory-raises:' + type(e).__name__, replay={'spec': spec, 'problems': [repr(e)]})
    ref = Ref(spec, {'assets': [], 'links': []})
    probs = []
    for name, got, *extra in assets:
        if got is None: probs.append(f'no class for asset type {name}'); continue
        want = []
        for k, s in ref.fold_steps(name).items():
            if s['type'] == 'defense':
                ttc = s.get('ttc'); want.append([k, '1.0' if (ttc and ttc.get('name') == 'Enabled') else '0.0'])
        if got != want: probs.append(f'defenses of {name} are {got}, expected {want}')
        if extra and extra[0]: probs.append(f'{name} exposes defenses it neither defines nor inherits: {extra[0]}')
    for a, row in zip(spec['associations'], assocs):
        want = [assoc_class_name(spec, a), a['leftField'], a['leftAsset'], a['leftMultiplicity']['max'],
                a['rightField'], a['rightAsset'], a['rightMultiplicity']['max'], True]
        if row != want: probs.append(f'association class {row} differs from the declaration {want}')
    names = [r[0] for r in assocs]
    if len(set(names)) != len(names): probs.append('two association declarations share one class')
    if probs:
        fp = 'C06:classes:' + probs[0].split(' ')[0]
        if any(a['leftField'] == a['rightField'] for a in spec['associations']) and probs[0].startswith('association class'):
            fp = 'C06:same-field-name-on-both-ends'
        return Violation(what=probs[0][:300], fingerprint=fp, replay={'spec': spec, 'problems': probs})
    if mo is not None:
        ma = [[n, d] for n, d in mo['assets']]
        if ma != [[n, g] for n, g, *_ in assets]:
            return Violation(what='implementation and Lean model disagree on asset classes / default defenses', fingerprint='C06:model-divergence',
                             replay={'spec': spec, 'impl': assets, 'model': mo['assets']}, no_failing_input=True)
        if [r[:7] for r in assocs] != [list(r) for r in mo['assocs']]:
            return Violation(what='implementation and Lean model disagree on association classes', fingerprint='C06:model-divergence',
                             replay={'spec': spec, 'impl': assocs, 'model': mo['assocs']}, no_failing_input=True)
    return None

def valid_state(im: Impl):
    """a model never contains what must be rejected"""
    m = im.m
    probs = []
    by = {a['name']: a for a in im.spec['assets']}
    def anc(t):
        out = []
        while t: out.append(t); t = by[t]['superAsset']
        return out
    decl = {assoc_class_name(im.spec, a): a for a in im.spec['associations']}
    for a in m.assets:
        for k, v in m.get_asset_defenses(a, include_defaults=True).items():
            if not (0.0 <= float(v) <= 1.0): probs.append(f'defense value {float(v)!r} outside [0,1] in the model')
    seen = set()
    for assoc in m.associations:
        cn = type(assoc).__name__
        d = decl.get(cn)
        if d is None: probs.append('association of an unknown class in the model'); continue
        for fld, ty, mx in ((d['leftField'], d['leftAsset'], d['leftMultiplicity']['max']), (d['rightField'], d['rightAsset'], d['rightMultiplicity']['max'])):
            mem = list(getattr(assoc, fld))
            if any(ty not in anc(str(x.type)) for x in mem): probs.append('association field holds an asset of a wrong type')
            if mx is not None and len(mem) > mx: probs.append('association field exceeds its maximum multiplicity')
            if len({id(x) for x in mem}) != len(mem): probs.append('asset repeated inside an association field')
        for l in getattr(assoc, d['leftField']):
            for r in getattr(assoc, d['rightField']):
                key = (cn, int(l.id), int(r.id))
                if key in seen: probs.append('the same link exists twice')
                seen.add(key)
    return probs

def run_history(spec, ops, mo_steps, res):
    im = Impl(spec)
    for i, op in enumerate(ops):
        st = im.step(op)
        if st['err']: res.bump('rejected:' + st['err'])
        else: res.bump('accepted:' + op['k'])
        probs = valid_state(im)
        if probs: return ('oracle', i, probs)
        if mo_steps is not None:
            mo = mo_steps[i]
            a = [st['err'] is not None, canon_obs(st['obs'])]; b = [mo['err'] is not None, canon_obs(mo['obs'])]
            if a != b: return ('diverge', i, {'impl': a, 'model': b, 'impl_err': st['err'], 'model_err': mo['err']})
    return None

def run(seed, tier, lean) -> Result:
    rnd = random.Random(seed)
    res = Result(rule='random languages (inheritance, inherited defenses, defenses with composite / numeric TTCs, duplicate association names, every multiplicity form): class inventory '
                      'and default defense values compared with the declaration and the Lean model; histories of valid and invalid constructions '
                      '(defense values -0.1/0/0.25/0.5/1/1.0001, wrong / sibling / super types, maxItems+1, repeated asset, existing link, removed '
                      'asset) with accept/reject and resulting state compared; the real model is scanned after every step for anything that must '
                      'have been rejected; non-trivial = an attempt involving an inherited defense, a subtype member or a duplicate-named association')
    n = 250 if tier == 'quick' else 1500
    cases = []
    for i in range(n):
        r = random.Random(rnd.getrandbits(48))
        spec = LangGen(r, knobs={'dup_assoc_names': 0.5, 'zero_mult': 0.12, 'composite_def_ttc': 0.3}).gen()
        cases.append((spec, Gen(r, spec, WEIGHTS, odd_defenses=True).gen(r.randint(6, 40))))
    model = inv = None
    if lean['build_ok']:
        model = run_driver([{'op': 'model_hist', 'case': i, 'lang': lang_payload(s), 'ops': o} for i, (s, o) in enumerate(cases)])
        inv = run_driver([{'op': 'classes', 'case': i, 'lang': lang_payload(s)} for i, (s, o) in enumerate(cases)])
    for i, (spec, ops) in enumerate(cases):
        res.evaluations += 1
        v = check_inventory(spec, inv[i].get('model') if inv else None)
        if v: res.violations.append(v); continue
        mo = model[i].get('model') if model is not None else None
        bad = run_history(spec, ops, mo, res)
        names = [a['name'] for a in spec['associations']]
        if len(set(names)) < len(names) or any(a['superAsset'] for a in spec['assets']): res.nontrivial.add(canon_hash([spec, ops]))
        if bad:
            kind, at, info = bad
            if kind == 'oracle':
                res.violations.append(Violation(what=f'{info[0]} after {ops[at]["k"]}', fingerprint='C06:' + info[0][:50],
                                                replay={'spec': spec, 'ops': ops[:at + 1], 'problems': info}))
            else:
                res.violations.append(Violation(what=f'implementation and Lean model disagree on accepting {ops[at]["k"]} (impl {info["impl_err"]}, model {info["model_err"]})',
                                                fingerprint='C06:model-divergence:' + ops[at]['k'], replay={'spec': spec, 'ops': ops[:at + 1], **info}, no_failing_input=True))
        if len(res.samples) < 2: res.samples.append({'classes': inv[i].get('model') if inv else None, 'ops': ops[:4]})
    return res

def replay(path):
    r = json.load(open(path))
    if 'ops' in r:
        bad = run_history(r['spec'], r['ops'], None, Result())
        print(bad); print('VIOLATION reproduced' if bad else 'not reproduced'); return 1 if bad else 0
    v = check_inventory(r['spec'], None)
    print(v.what if v else 'no violation'); print('VIOLATION reproduced' if v else 'not reproduced')
    return 1 if v else 0

def check_witness(w):
    if 'ops' in w:
        bad = run_history(w['spec'], w['ops'], None, Result())
        return ('C06:' + bad[2][0][:50]) if bad and bad[0] == 'oracle' else None
    v = check_inventory(w['spec'], None)
    return v.fingerprint if v else None
