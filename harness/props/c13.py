"""C13 — pruning removes exactly the non-viable or unnecessary attack steps."""
from __future__ import annotations
import json
from ..common import Result
from ..aghist import canon_obs, consistent
from .c09 import run_histories, failing_oracle

ASSUMPTIONS = ['the graph handed to prune is structurally consistent (C09)']
TRUSTED = ['Lean 4.33 kernel', 'axioms: propext, Classical.choice, Quot.sound',
           'hand-written model Model/AGS.lean (tied by this correspondence)',
           'harness/aghist.py (history generator, real-code executor, canonicalisation)']
WEIGHTS = {'add_node': 8, 'link': 10, 'set_labels': 6, 'prune': 3, 'add_attacker': 2, 'compromise': 3, 'remove_node': 1, 'lookup': 1}

def snapshot(im):
    return {id(n): (n.id, n.type, n.is_viable, n.is_necessary) for n in im.g.nodes}

def step_oracle(im, ops, i, st):
    op = ops[i]
    probs = []
    if op['k'] == 'prune':
        before = getattr(im, '_snap', {})
        after = snapshot(im)
        for k, (nid, t, v, n) in before.items():
            prunable = t in ('or', 'and') and not (v and n)
            if prunable and k in after: probs.append(f'prunable node {nid} survived pruning')
            if not prunable and k not in after: probs.append(f'node {nid} was removed although not prunable')
            if not prunable and k in after and after[k] != (nid, t, v, n): probs.append(f'labels of node {nid} changed')
        if set(after) - set(before): probs.append('pruning added nodes')
        probs += consistent(im.g)
    im._snap = snapshot(im)
    return probs

def run(seed, tier, lean) -> Result:
    def nontrivial(kinds, ops):
        return 'prune' in kinds and sum(1 for o in ops if o['k'] == 'add_node' and o['type'] in ('or', 'and')
                                        and not (o['viable'] and o['necessary'])) >= 2
    res = run_histories('C13', seed, tier, lean, WEIGHTS, step_oracle, nontrivial, quick_n=400, thorough_n=2400)
    res.rule = ('random labelled graphs (self-loops, duplicate edges, attackers) built by add_node/link/set_labels, '
                'pruned one or more times; after each prune: no prunable node left, every other node kept with '
                'its labels, structure consistent; state compared with the Lean model; non-trivial = at least two '
                'prunable or/and nodes were created before a prune')
    return res

def replay(path):
    r = json.load(open(path))
    probs = failing_oracle(r['ops'], step_oracle)
    print('problems:', probs); print('VIOLATION reproduced' if probs else 'not reproduced')
    return 1 if probs else 0
