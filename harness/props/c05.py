"""C05 — the instance model stays coherent under any history of edits."""
from __future__ import annotations
import json, random
from ..common import Result, Violation, run_driver, canon_hash
from ..langgen import LangGen, lang_payload
from ..mhist import Impl, Gen, canon_obs, canon_out, coherent
from .. import genexec

ASSUMPTIONS = [
    'assets / associations passed to the API are objects created from the generated classes; removed objects are used as the invalid handles',
    'entry points are only added for assets that are part of the model (AttackerAttachment cannot see the model)',
    'python_jsonschema_objects validation (defense range, member types, maxItems) is modelled by three guard functions',
]
TRUSTED = ['Lean 4.33 kernel', 'axioms: propext, Classical.choice, Quot.sound',
           'hand-written model Model/MState.lean (tied by this correspondence)',
           'harness/mhist.py (history generator, real-code executor, canonicalisation, direct coherence checker)']
WEIGHTS = {'add_asset': 10, 'remove_asset': 4, 'add_association': 8, 'remove_association': 2, 'remove_asset_from_association': 3,
           'add_attacker': 2, 'remove_attacker': 1, 'add_entry_point': 3, 'remove_entry_point': 2, 'lookup': 2}

def run_one(spec, ops, mo_steps, res: Result, go_steps=None):
    im = Impl(spec)
    gen_on = go_steps is not None
    prev = canon_obs(im.obs())
    for i, op in enumerate(ops):
        st = im.step(op)
        cur = canon_obs(st['obs'])
        res.bump(op['k'])
        if st['err']: res.bump('rejected:' + st['err'])
        probs = coherent(im)
        if st['err'] and cur != prev: probs.append(f'{op["k"]} raised {st["err"]} but changed the observable state')
        if op['k'] == 'add_asset' and not st['err'] and op['id'] is not None and im.assets[-1].id != op['id']:
            probs.append('explicitly requested asset id not honoured')
        if op['k'] == 'lookup' and not st['err'] and not probs:
            # lookups answer from what is in the model now: the live asset with that id / name, by identity, or nothing
            m = im.m
            for i_ in op['ids']:
                want = [a for a in m.assets if int(a.id) == i_]
                got = m.get_asset_by_id(i_)
                if (got is None) != (not want) or (want and got is not want[0]):
                    probs.append('lookup by id does not return the live asset with that id'); break
            for n_ in op['names']:
                want = [a for a in m.assets if str(a.name) == n_]
                got = m.get_asset_by_name(n_)
                if (got is None) != (not want) or (want and got is not want[0]):
                    probs.append('lookup by name does not return the live asset with that name'); break
        if probs:
            return ('oracle', i, probs)
        if mo_steps is not None:
            mo = mo_steps[i]
            # the property only says that an invalid operation raises: the exception class is compared as drift
            a = [st['err'] is not None, canon_out(st['out']), cur]
            b = [mo['err'] is not None, canon_out(mo['out']), canon_obs(mo['obs'])]
            if a != b:
                return ('diverge', i, {'impl': a, 'model': b, 'impl_err': st['err'], 'model_err': mo['err']})
            if st['obs'] != mo['obs'] or st['err'] != mo['err']: res.drift += 1
            if st['err'] != mo['err']: res.bump(f'error-class-differs:{st["err"]}/{mo["err"]}')
            if gen_on:
                # third column: the generated code (Py/GenModel/*.lean) on the same history.  Compared like the hand model:
                # raises / does not raise, query results, canonical state (the exception class is drift)
                go = go_steps[i]
                if go['err'] and go['err'].startswith('skip:'):
                    gen_on = False; res.bump('generated_code_' + go['err'])      # outside what the prelude can express
                else:
                    res.bump('generated_code_steps_compared')
                    g = [go['err'] is not None, canon_out(go['out']), canon_obs(go['obs'])]
                    if a != g:
                        return ('gen-diverge', i, {'impl': a, 'generated': g, 'hand_model': b, 'impl_err': st['err'], 'generated_err': go['err']})
                    if st['err'] != go['err']: res.bump(f'generated-error-class-differs:{st["err"]}/{go["err"]}')
        prev = cur
    return None

def failing(spec, ops):
    r = run_one(spec, ops, None, Result())
    return r[2] if r and r[0] == 'oracle' else []

def shrink(spec, ops):
    base = failing(spec, ops)
    if not base: return ops
    key = base[0].split(' field ')[0]
    changed = True
    while changed:
        changed = False
        for i in range(len(ops) - 1, -1, -1):
            if ops[i]['k'] in ('add_asset', 'add_association', 'add_attacker'): continue    # keeps handle numbering
            cand = ops[:i] + ops[i + 1:]
            p = failing(spec, cand)
            if p and p[0].split(' field ')[0] == key:
                ops = cand; changed = True; break
    return ops

# ---- second scenario family (real code + reference only): odd arguments and objects that are not yet in the model ----
def odd_case(rnd):
    """(a) add_asset with an id that is not an int but looks like one (2.0, True, '3'): the call must either honour the
    id or raise and leave everything as it was — in particular the id must still be free afterwards;
    (b) entry points registered on asset objects BEFORE these are added to the model (all of them still without id):
    each object keeps exactly the steps registered for it"""
    from ..mhist import Impl, coherent
    from maltoolbox.model import AttackerAttachment
    spec = LangGen(rnd).gen()
    im = Impl(spec); m = im.m
    concrete = [a['name'] for a in spec['assets'] if not a['isAbstract']] or [a['name'] for a in spec['assets']]
    def new(name): return getattr(im.fac.ns, rnd.choice(concrete))(name=name)
    log = []
    for i in range(rnd.randint(1, 3)): m.add_asset(new(f'base{i}'))
    for k in range(rnd.randint(1, 4)):
        want = rnd.choice([20, 35, 47, -3]) + 100 * k          # not in use
        odd = rnd.choice([float(want), str(want), float(want)])
        before = canon_obs(im.obs())
        x = new(f'odd{k}')
        try:
            m.add_asset(x, asset_id=odd); raised = None
        except Exception as e: raised = type(e).__name__
        log.append(f'add_asset(asset_id={odd!r}) -> {raised or "accepted"}')
        if raised:
            if canon_obs(im.obs()) != before:
                return f'add_asset(asset_id={odd!r}) raised {raised} but changed the observable state', {'spec': spec, 'log': log}
            y = new(f'int{k}')
            try: m.add_asset(y, asset_id=want)
            except Exception as e:
                return f'after a rejected add_asset(asset_id={odd!r}) the id {want} is no longer available ({type(e).__name__})', {'spec': spec, 'log': log}
        elif int(x.id) != want:
            return f'add_asset(asset_id={odd!r}) was accepted with id {x.id}', {'spec': spec, 'log': log}
        p = coherent(im)
        if p: return p[0] + f' after add_asset(asset_id={odd!r})', {'spec': spec, 'log': log}
    # (b)
    pend = [new(f'pend{i}') for i in range(rnd.randint(2, 4))]
    att = AttackerAttachment(name='early')
    want = {}
    for _ in range(rnd.randint(2, 7)):
        i = rnd.randrange(len(pend)); st = rnd.choice(['s0', 's1', 's2', 's3'])
        att.add_entry_point(pend[i], st); log.append(f'add_entry_point(pend{i}, {st})')
        want.setdefault(i, [])
        if st not in want[i]: want[i].append(st)
    for x in pend: m.add_asset(x)
    m.add_attacker(att)
    got = {}
    for a, steps in att.entry_points:
        idx = [i for i, x in enumerate(pend) if x is a]
        if not idx: return 'an entry point refers to an object that was never given', {'spec': spec, 'log': log}
        if idx[0] in got: return 'two entry point tuples for one asset', {'spec': spec, 'log': log}
        got[idx[0]] = list(steps)
    if {k: sorted(v) for k, v in got.items()} != {k: sorted(v) for k, v in want.items()}:
        return (f'entry points registered before the assets were added: per asset {dict(sorted(got.items()))}, registered {dict(sorted(want.items()))}'), {'spec': spec, 'log': log}
    return None, {'spec': spec, 'log': log}

def run(seed, tier, lean) -> Result:
    res = _run(seed, tier, lean)
    r = random.Random(seed ^ 0xC05)
    for _ in range(120 if tier == 'quick' else 720):
        cs = r.getrandbits(48)
        bad, info = odd_case(random.Random(cs))
        res.evaluations += 1; res.bump('odd_argument_cases')
        if bad:
            res.violations.append(Violation(what=bad[:300], fingerprint='C05:odd:' + ''.join(c for c in bad.split('(')[0] if not c.isdigit())[:50],
                                            replay={'odd_seed': cs, **info, 'problem': bad}))
            break
    return res

def _run(seed, tier, lean) -> Result:
    rnd = random.Random(seed)
    res = Result(rule='random histories (5-120 operations) of add/remove asset, association, attacker, entry point with valid and invalid '
                      'arguments (duplicate / zero / negative ids, colliding names, wrong types, exceeded multiplicities, removed objects) '
                      'over random languages; after every step the real model is checked against the abstract reference (unique ids/names, '
                      'reservations, back-references, neighbours, entry points, atomic errors) and compared with the Lean state machine; '
                      'non-trivial = a removal followed by a later addition, or a rejected operation')
    n = 300 if tier == 'quick' else 1800
    cases = []
    for i in range(n):
        r = random.Random(rnd.getrandbits(48))
        spec = LangGen(r, knobs={'dup_assoc_names': 0.4}).gen()
        L = r.randint(5, 40) if i % 8 else r.randint(60, 120)
        cases.append((spec, Gen(r, spec, WEIGHTS).gen(L)))
    model = gen = None
    if lean['build_ok']:
        model, gen = genexec.run_both([{'op': 'model_hist', 'case': i, 'lang': lang_payload(s), 'ops': o} for i, (s, o) in enumerate(cases)],
                                      'gen_model_hist')
    for i, (spec, ops) in enumerate(cases):
        res.evaluations += 1
        mo = None
        if model is not None:
            if 'error' in model[i]:
                res.violations.append(Violation(what='driver rejected a history: ' + model[i]['error'], fingerprint='C05:driver-error',
                                                replay={'spec': spec, 'ops': ops}, no_failing_input=True)); continue
            mo = model[i]['model']
        go = None
        if gen is not None and mo is not None:
            if 'error' in gen[i]:
                res.violations.append(genexec.driver_error('C05', gen[i]['error'], {'spec': spec, 'ops': ops}))
            else:
                go = gen[i]['model']
        bad = run_one(spec, ops, mo, res, go)
        ks = [o['k'] for o in ops]
        if any(k.startswith('remove') for k in ks) and 'add_asset' in ks[max(0, min([j for j, k in enumerate(ks) if k.startswith('remove')] or [0])):]:
            res.nontrivial.add(canon_hash(ops))
        if bad:
            kind, at, info = bad
            prefix = ops[:at + 1]
            if kind == 'oracle':
                small = shrink(spec, prefix)
                probs = failing(spec, small) or info
                res.violations.append(Violation(what=f'{probs[0]} after {small[-1]["k"]} (history of {len(small)} operations)',
                                                fingerprint='C05:' + probs[0].split(' field ')[0],
                                                replay={'spec': spec, 'ops': small, 'problems': probs}))
            elif kind == 'gen-diverge':
                res.violations.append(genexec.divergence('C05', ops[at]['k'], f'after step {at} ({ops[at]["k"]}) of a history',
                                                         {'spec': spec, 'ops': prefix, **info}))
            else:
                res.violations.append(Violation(what=f'implementation and Lean model disagree after step {at} ({ops[at]["k"]}); the direct reference check passes',
                                                fingerprint='C05:model-divergence:' + ops[at]['k'], replay={'spec': spec, 'ops': prefix, **info},
                                                no_failing_input=True))
        if len(res.samples) < 2 and len(ops) > 6: res.samples.append({'ops': ops[:10]})
    return res

def replay(path):
    r = json.load(open(path))
    if 'odd_seed' in r:
        bad, _ = odd_case(random.Random(r['odd_seed'])); print(bad); print('VIOLATION reproduced' if bad else 'not reproduced'); return 1 if bad else 0
    probs = failing(r['spec'], r['ops'])
    print('problems:', probs); print('VIOLATION reproduced' if probs else 'not reproduced')
    return 1 if probs else 0
