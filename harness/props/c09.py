"""C09 — attack-graph structure and lookup indexes stay consistent in any history."""
from __future__ import annotations
import json, random
from ..common import Result, Violation, run_driver, canon_hash
from .. import aghist, genexec
from ..aghist import Gen, Impl, canon_obs, canon_out, consistent, mirror, rejected_clean

ASSUMPTIONS = [
    'operations receive objects the API accepts: live nodes / attackers of this graph, node ids that exist; plus the explicitly rejected duplicate ids',
    'nodes added by hand have distinct full names (the generator of the toolbox guarantees it for generated graphs, C02)',
    'dataclass == on nodes/attackers coincides with identity inside one graph (distinct ids)',
    'regenerate / deep copy / save-load are covered by their own sections of this check and by C14 / C10',
]
TRUSTED = ['Lean 4.33 kernel', 'axioms: propext, Classical.choice, Quot.sound',
           'hand-written model Model/AGS.lean (tied by this correspondence)',
           'harness/aghist.py (history generator, real-code executor, canonicalisation, direct consistency checker)']

WEIGHTS = {'add_node': 6, 'add_node_dup': 1, 'link': 8, 'remove_node': 4, 'add_attacker': 3, 'remove_attacker': 2,
           'compromise': 6, 'undo': 3, 'attach': 1, 'set_labels': 2, 'prune': 1, 'lookup': 2, 'surface': 1,
           # calls that must be rejected and change nothing: unknown node id after valid ones, id in use with reached steps,
           # an attacker / node object that is already part of the graph (same id, other id, no id)
           'add_attacker_bad': 2, 'add_attacker_used_id': 1, 'add_attacker_again': 1, 'add_node_again': 1,
           # a deep copy is a graph of its own: both sides stay consistent whichever of the two is operated on afterwards
           'deepcopy': 1, 'switch': 1,
           # ... and so is a graph written to a file and loaded back (with or without the model)
           'save_load': 1}

def check_history(pid, ops, res: Result, oracle, model_out=None):
    """returns list of Violation for one history"""
    steps, im = aghist.run_pair(ops)
    out = []
    for i, st in enumerate(steps):
        probs = oracle(im, ops, i, st, steps) if oracle else []
        if probs:
            out.append(('oracle', i, probs)); break
        if model_out is not None:
            mo = model_out[i]
            a = (st['err'], canon_out(ops[i], st['out']), canon_obs(st['obs']))
            b = (mo['err'], canon_out(ops[i], mo['out']), canon_obs(mo['obs']))
            if a != b:
                out.append(('diverge', i, {'impl': a, 'model': b})); break
            if (st['out'], st['obs']) != (mo['out'], mo['obs']):
                res.drift += 1
    return out

def oracle_c09(im, ops, i, st, steps):
    # consistency must hold after every step; recomputed on a replay of the prefix
    return st.get('_probs', [])

def run_histories(pid, seed, tier, lean, weights, oracle_step, nontrivial, quick_n, thorough_n,
                  length=(6, 30), with_assets=True, extra_cases=(), gen_every=1):
    rnd = random.Random(seed)
    res = Result()
    n = quick_n if tier == 'quick' else thorough_n
    hists = list(extra_cases)
    for k in range(n):
        g = Gen(random.Random(rnd.getrandbits(48)), weights, nmax=rnd.choice([4, 6, 10]), with_assets=with_assets)
        L = rnd.randint(*length) if k % 10 else rnd.randint(60, 150)
        hists.append(g.gen(L))
    model = gen = None
    if lean['build_ok']:
        # third column: the same histories executed with the GENERATED code (Py/Gen/*.lean, Py/GenAgSerial/*.lean)
        model, gen = genexec.run_both([{'op': 'ag_hist', 'case': i, 'ops': h} for i, h in enumerate(hists)], 'gen_ag_hist', every=gen_every)
    for hi, ops in enumerate(hists):
        res.evaluations += 1
        im = Impl()
        mo_steps = None
        go_steps, gbad = None, None
        if gen is not None and gen[hi] is not None:
            if 'error' in gen[hi]:
                res.violations.append(genexec.driver_error(pid, gen[hi]['error'], {'ops': ops}))
            else:
                go_steps = gen[hi]['model']
        if model is not None:
            if 'error' in model[hi]:
                res.violations.append(Violation(what=f'driver rejected a history: {model[hi]["error"]}',
                    fingerprint=f'{pid}:driver-error', replay={'ops': ops}, no_failing_input=True))
                continue
            mo_steps = model[hi]['model']
        kinds = set()
        bad = None
        for i, op in enumerate(ops):
            try:
                st = im.step(op)
            except Exception:
                if bad is None: raise
                break           # after a divergence the rest of the history may not fit the real state any more
            kinds.add(op['k']); res.bump(op['k'])
            if st['err']: res.bump('rejected:' + st['err'])
            if 'case' in op: res.bump(op['case'] + (' -> ' + st['err'] if st['err'] else ' -> accepted'))
            try:
                probs = oracle_step(im, ops, i, st)
            except Exception:
                if bad is None: raise
                break
            if probs:
                bad = ('oracle', i, probs); break
            if mo_steps is not None and bad is None:
                mo = mo_steps[i]
                a = [st['err'], canon_out(op, st['out']), canon_obs(st['obs'])]
                b = [mo['err'], canon_out(op, mo['out']), canon_obs(mo['obs'])]
                if a != b:
                    # implementation and model disagree: go on with the direct oracle alone — if the rest of the
                    # history turns the disagreement into a violation of the property, that concrete input is reported
                    bad = ('diverge', i, {'impl': a, 'model': b}); continue
                if [st['out'], st['obs']] != [mo['out'], mo['obs']]:
                    res.drift += 1
                if go_steps is not None and gbad is None:
                    go = go_steps[i]
                    res.bump('generated_code_steps_compared')
                    if not genexec.ag_step_same(op, st, a, go, canon_obs, canon_out):
                        gbad = (i, {'impl': [st['err'], st['out'], st['obs'], st['other']],
                                    'generated': [go['err'], go['out'], go['obs'], go['other']], 'hand_model': b})
        if gbad is not None and not (bad and bad[0] == 'oracle'):
            gi, ginfo = gbad
            res.violations.append(genexec.divergence(pid, ops[gi]['k'], f'after step {gi} ({ops[gi]["k"]}) of a history',
                                                     {'ops': ops[:gi + 1], **ginfo}))
        if nontrivial(kinds, ops):
            res.nontrivial.add(canon_hash(ops))
        if bad:
            kind, i, info = bad
            prefix = ops[:i + 1]
            if kind == 'oracle':
                small = shrink(prefix, lambda h: failing_oracle(h, oracle_step))
                probs = failing_oracle(small, oracle_step)
                if not probs:
                    # the failure does not repeat on a fresh replay of the shrunk history (state kept between runs,
                    # caches on shared objects ...): report the history as it was observed
                    small, probs = prefix, info
                res.violations.append(Violation(
                    what=f'{probs[0]} after {small[-1]["k"]} (history of {len(small)} operations)',
                    fingerprint=f'{pid}:{classify(probs[0])}',
                    replay={'ops': small, 'problems': probs, 'original_ops': prefix}))
            else:
                res.violations.append(Violation(
                    what=f'implementation and Lean model disagree after step {i} ({ops[i]["k"]}); the direct oracle sees no violation',
                    fingerprint=f'{pid}:model-divergence:{ops[i]["k"]}', replay={'ops': prefix, **info},
                    no_failing_input=True))
        if len(res.samples) < 2 and len(ops) > 8:
            res.samples.append({'ops': ops[:12], 'final_obs': canon_obs(im.obs())})
    return res

def classify(p: str) -> str:
    import re
    return re.sub(r'-?\d+', 'N', p)

def failing_oracle(ops, oracle_step):
    im = Impl()
    for i, op in enumerate(ops):
        try:
            st = im.step(op)
        except Exception as e:          # handles that do not exist any more after shrinking
            return []
        try:
            probs = oracle_step(im, ops, i, st)
        except (IndexError, KeyError):  # a shrunk history that refers to objects a deleted op (deep copy, …) created
            return []
        if probs: return probs
    return []

def shrink(ops, failing):
    """greedy deletion of operations (re-numbering refs is not needed: an op
    whose handle does not exist makes the candidate invalid and is skipped)"""
    changed = True
    while changed:
        changed = False
        for i in range(len(ops) - 1, -1, -1):
            cand = renumber(ops, i)
            if cand is not None and failing(cand):
                ops = cand; changed = True; break
    return ops

def renumber(ops, i):
    """delete op i; if it allocated a node/attacker ref, drop dependants and shift refs"""
    op = ops[i]
    rest = ops[:i] + ops[i + 1:]
    if op['k'] not in ('add_node', 'add_attacker', 'attach'):
        return rest
    if op['k'] == 'attach':
        return None
    # which ref did it allocate?  count earlier successful allocations: approximated by
    # counting earlier ops of the same kind (rejected duplicates make this inexact -> skip)
    kind = op['k']
    if any(o['k'] == 'add_node_dup' for o in ops): return None
    if 'case' in op: return rest      # built to be rejected: allocates nothing
    ref = sum(1 for o in ops[:i] if o['k'] == kind and 'case' not in o)
    if kind == 'add_node' and any(o['k'] == 'add_node' and o.get('id') is not None for o in ops): return None
    out = []
    for o in rest:
        o = dict(o)
        key = 'n' if kind == 'add_node' else 'a'
        if kind == 'add_node':
            if o['k'] == 'link':
                if ref in (o['p'], o['c']): continue
                o['p'] -= o['p'] > ref; o['c'] -= o['c'] > ref
            elif o['k'] in ('remove_node', 'compromise', 'undo', 'trav', 'add_node_again'):
                if o['n'] == ref: continue
                o['n'] -= o['n'] > ref
            elif o['k'] == 'set_labels':
                o['labels'] = [[r - (r > ref), v, n] for r, v, n in o['labels'] if r != ref]
            elif o['k'] in ('add_attacker', 'add_attacker_again', 'lookup', 'update_surface'):
                return None
        else:
            if o['k'] in ('remove_attacker', 'compromise', 'undo', 'trav', 'surface', 'update_surface', 'add_attacker_again'):
                if o['a'] == ref: continue
                o['a'] -= o['a'] > ref
        out.append(o)
    return out

def step_oracle(im, ops, i, st):
    # after EVERY operation, the rejected ones too: the graph is consistent, and a rejected operation has changed nothing
    other = [p + ' (the other side of the deep copy)' for p in consistent(im.other)] if im.other is not None else []
    return consistent(im.g) + other + rejected_clean(st)

def generated_case(rnd):
    """a graph generated from a random language and model (duplicate edges arise when two paths or two step expressions
    reach the same target), regenerated, then edited: consistency after every step (real objects only)"""
    from ..langgen import LangGen, gen_model, build_lang, build_model
    from maltoolbox.attackgraph import AttackGraph
    from maltoolbox.attackgraph.analyzers import apriori
    spec = LangGen(rnd).gen(); inst = gen_model(rnd, spec)
    lg, fac = build_lang(spec); m, _ = build_model(fac, inst)
    g = AttackGraph(lg, m)
    steps = ['generate']
    probs = consistent(g)
    if not probs and rnd.random() < 0.5:
        g.regenerate_graph(); steps.append('regenerate'); probs = consistent(g)
        fresh = AttackGraph(lg, m)
        if not probs and fresh._to_dict() != g._to_dict(): probs = ['a regenerated graph differs from a freshly generated one']
    for _ in range(rnd.randint(1, 6)):
        if probs or not g.nodes: break
        k = rnd.choice(['remove_node', 'remove_node', 'analyse_prune'])
        try:
            if k == 'remove_node':
                n = rnd.choice(g.nodes); steps.append(f'remove_node {n.full_name}'); g.remove_node(n)
            else:
                steps.append('analyse + prune'); apriori.calculate_viability_and_necessity(g); apriori.prune_unviable_and_unnecessary_nodes(g)
        except Exception as e:
            probs = [f'{steps[-1].split()[0]} raises {type(e).__name__} on a generated graph']; break
        probs = consistent(g)
    return probs, {'spec': spec, 'inst': inst, 'steps': steps}

def run(seed, tier, lean) -> Result:
    res = _run(seed, tier, lean)
    if lean['build_ok']:
        # outside the invariants (removed handles, one-sided edges, repeated removals): implementation vs GENERATED code only
        genexec.run_wild('C09', seed, 150 if tier == 'quick' else 900, res)
    r = random.Random(seed ^ 0xC09)
    for _ in range(150 if tier == 'quick' else 900):
        cs = r.getrandbits(48)
        from ..common import guarded
        done, pi = guarded(res, generated_case, random.Random(cs))
        if not done: continue
        probs, info = pi
        res.evaluations += 1; res.bump('generated_graph_cases')
        if probs:
            res.violations.append(Violation(what=f'{probs[0]} (graph generated from a language and model; steps: {info["steps"][-3:]})',
                                            fingerprint='C09:generated:' + probs[0].split(' ')[0] + probs[0][-12:], replay={'generated_seed': cs, **info, 'problems': probs}))
            break
    return res

def _run(seed, tier, lean) -> Result:
    res = run_histories('C09', seed, tier, lean, WEIGHTS, step_oracle,
                        lambda kinds, ops: len(kinds & {'remove_node', 'remove_attacker', 'add_attacker', 'prune', 'undo', 'attach'}) >= 2,
                        quick_n=400, thorough_n=2400)
    res.rule = ('random histories (6-150 operations) over pools of live handles, explicit/duplicate ids, self-loops and '
                'duplicate edges, add_attacker with an unknown node id after valid ones / an id in use with reached steps, '
                'add_node / add_attacker of an object that is already part of the graph; after every step - the rejected ones '
                'too, which must change nothing - the real graph is checked for structural consistency and its '
                'canonical state is compared with the Lean state machine; non-trivial = at least two different '
                'kinds of removing/adding operations; distinct by hash of the operation list')
    return res

def replay(path):
    r = json.load(open(path))
    if 'generated_seed' in r:
        probs, _ = generated_case(random.Random(r['generated_seed'])); print(probs)
        print('VIOLATION reproduced' if probs else 'not reproduced'); return 1 if probs else 0
    probs = failing_oracle(r['ops'], step_oracle)
    print('problems:', probs)
    print('VIOLATION reproduced' if probs else 'not reproduced')
    return 1 if probs else 0
