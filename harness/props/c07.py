"""C07 — saving and loading a model preserves it (JSON and YAML)."""
from __future__ import annotations
import copy, json, os, random
from ..common import Result, Violation, run_driver, canon_hash, scratch
from ..langgen import LangGen, lang_payload, jtxt
from ..mhist import Impl, Gen, canon_obs

ASSUMPTIONS = [
    'json / PyYAML round trips behave like jsonRT (dictionary keys become strings) / yamlRT (identity) on the document model; exercised through real files',
    'attackers of one model have pairwise distinct ids (the API allows duplicates; recorded as a known finding)',
    'python_jsonschema_objects guards as in C06',
]
TRUSTED = ['Lean 4.33 kernel', 'axioms: propext, Classical.choice, Quot.sound',
           'hand-written model Model/Serial.lean over Model/MState.lean (tied by this correspondence)',
           'harness/mhist.py, harness/props/c07.py (history generator, document conversion, comparison)']
WEIGHTS = {'add_asset': 12, 'remove_asset': 2, 'add_association': 10, 'set_assoc_extras': 3, 'remove_association': 1, 'remove_asset_from_association': 1,
           'add_attacker': 3, 'remove_attacker': 1, 'add_entry_point': 6, 'remove_entry_point': 1}
NAMES = ['A', 'B', 'yes', '0123', '- x', 'a: b', '#c', 'é€', 'two\nlines', ' lead', "q'uo\"te", 'null', '~', '1e3', '', 'srv\U0001F600', '\U0001F512lock \u4e2d']

def full_obs(m):
    """what the property says must be preserved"""
    def fields(a):
        lf, rf = m.get_association_field_names(a)
        return [str(lf), sorted(int(x.id) for x in getattr(a, lf)), str(rf), sorted(int(x.id) for x in getattr(a, rf))]
    return {'name': m.name,
            'assets': sorted([int(a.id), str(a.name), str(a.type),
                              sorted([k, float(v)] for k, v in m.get_asset_defenses(a, include_defaults=True).items()),
                              jtxt(a.extras.as_dict()) if a.extras else '{}'] for a in m.assets),
            'associations': sorted([type(a).__name__] + fields(a) + [jtxt(a.extras.as_dict()) if a.extras else '{}'] for a in m.associations),
            'attackers': sorted([t.id, t.name, sorted([int(a.id), sorted(s)] for a, s in t.entry_points)] for t in m.attackers)}

def dict_to_doc(d):
    assets = []
    for k, v in d['assets'].items():
        if isinstance(v, dict):
            assets.append([k, {'name': v['name'], 'type': v['type'], 'defenses': sorted([x, repr(float(y))] for x, y in v.get('defenses', {}).items()),
                               'extras': jtxt(v['extras']) if v.get('extras') else None}])
        else: assets.append([k, v])
    assocs = []
    for e in d['associations']:
        cls = list(e.keys())[0]
        (lf, l), (rf, r) = list(e[cls].items())
        assocs.append({'cls': cls, 'lf': lf, 'left': l, 'rf': rf, 'right': r, 'extras': jtxt(e['extras']) if e.get('extras') else None})
    atts = [[k, {'name': v['name'], 'entry': [[a, ep['attack_steps']] for a, ep in v['entry_points'].items()]}] for k, v in d['attackers'].items()]
    return {'assets': assets, 'associations': assocs, 'attackers': atts}

def canon_doc(doc):
    return {'assets': sorted(([str(k), v if isinstance(v, str) else dict(v, defenses=sorted(v['defenses']))] for k, v in doc['assets']), key=lambda e: e[0]),
            'associations': sorted((dict(a, left=sorted(map(int, a['left'])), right=sorted(map(int, a['right']))) for a in doc['associations']), key=jtxt),
            'attackers': sorted(([str(k), {'name': v['name'], 'entry': sorted([str(a), sorted(s)] for a, s in v['entry'])}] for k, v in doc['attackers']), key=lambda e: e[0])}

def check_case(spec, ops, fmt, mo, rnd, res):
    from maltoolbox.model import Model
    im = Impl(spec)
    for op in ops: im.step(op)
    m = im.m
    d = scratch()
    path = os.path.join(d, f'model.{fmt}')
    before = full_obs(m)
    try:
        m.save_to_file(path)
    except Exception as e:
        return Violation(what=f'saving a model as {fmt} raises {type(e).__name__}', fingerprint=f'C07:save-raises:{type(e).__name__}',
                         replay={'spec': spec, 'ops': ops, 'fmt': fmt})
    try:
        m2 = Model.load_from_file(path, im.fac)
    except Exception as e:
        return Violation(what=f'loading the saved {fmt} file raises {type(e).__name__}: {str(e)[:60]}', fingerprint=f'C07:load-raises:{type(e).__name__}',
                         replay={'spec': spec, 'ops': ops, 'fmt': fmt})
    after = full_obs(m2)
    if after != before:
        diff = [k for k in before if before[k] != after[k]]
        ids = [t.id for t in m.attackers]
        fp = 'C07:roundtrip-differs:' + ','.join(diff)
        if diff == ['attackers'] and len(set(ids)) != len(ids): fp = 'C07:duplicate-attacker-ids-collapse'
        return Violation(what=f'loaded model differs from the saved one in {diff} ({fmt})', fingerprint=fp,
                         replay={'spec': spec, 'ops': ops, 'fmt': fmt, 'before': before, 'after': after})
    if m2._to_dict() != m._to_dict():
        return Violation(what='saving the loaded model does not reproduce the same content', fingerprint='C07:resave-differs',
                         replay={'spec': spec, 'ops': ops, 'fmt': fmt})
    # hand-edited file: assets in another order, type-only shorthand where it denotes the same asset
    from maltoolbox.file_utils import load_dict_from_json_file, load_dict_from_yaml_file, save_dict_to_file
    raw = load_dict_from_json_file(path) if fmt == 'json' else load_dict_from_yaml_file(path)
    items = list(raw['assets'].items()); rnd.shuffle(items)
    edited = dict(raw, assets={})
    n_short = 0
    for k, v in items:
        if set(v) == {'name', 'type'} and v['name'] == f"{v['type']}:{k}":
            edited['assets'][k] = v['type']; n_short += 1
        else: edited['assets'][k] = v
    path2 = os.path.join(d, f'edited.{fmt}')
    save_dict_to_file(path2, edited)
    try:
        m3 = Model.load_from_file(path2, im.fac)
        third = full_obs(m3)
    except Exception as e:
        third = {'error': type(e).__name__ + ': ' + str(e)[:80]}
    if third != before:
        return Violation(what=f'the same file with assets listed in another order (ids {[k for k, _ in items][:6]}) loads to a different model ({fmt})',
                         fingerprint='C07:asset-order-dependent', replay={'spec': spec, 'ops': ops, 'fmt': fmt, 'edited': edited, 'before': before, 'after': third})
    res.bump('shorthand_entries', n_short)
    if mo is not None:
        if 'error' in mo:
            return Violation(what='Lean model fails to load its own saved document: ' + mo['error'], fingerprint='C07:model-divergence',
                             replay={'spec': spec, 'ops': ops, 'fmt': fmt, 'model': mo}, no_failing_input=True)
        if canon_doc(mo['doc']) != canon_doc(dict_to_doc(m._to_dict())):
            return Violation(what='implementation and Lean model disagree on the saved document', fingerprint='C07:model-divergence',
                             replay={'spec': spec, 'ops': ops, 'impl': dict_to_doc(m._to_dict()), 'model': mo['doc']}, no_failing_input=True)
        im2 = Impl.__new__(Impl); im2.m = m2
        a, b = canon_obs(Impl.obs(im2)), canon_obs(mo['loaded'])
        for k in ('assets', 'associations', 'attackers', 'assetIds', 'assetNames', 'nextId'):
            if a[k] != b[k]:
                return Violation(what=f'implementation and Lean model disagree on the loaded model ({k})', fingerprint='C07:model-divergence',
                                 replay={'spec': spec, 'ops': ops, 'fmt': fmt, 'impl': a[k], 'model': b[k]}, no_failing_input=True)
    return None

def run(seed, tier, lean) -> Result:
    rnd = random.Random(seed)
    res = Result(rule='models built by random API histories (id gaps, explicit/zero/negative ids, non-default defenses, YAML-significant and '
                      'unicode names, extras on assets and associations, several attackers with several entry points, duplicate-named '
                      'association classes) x {json, yml, yaml}; real save -> file -> real load compared on every preserved attribute, '
                      're-saved content, the same file with permuted asset order and type-only shorthand; the Lean document model compared '
                      'on the saved document and the loaded state; non-trivial = id gap or explicit id + a non-default defense + an association')
    n = 200 if tier == 'quick' else 1200
    import harness.mhist as mh
    cases = []
    for i in range(n):
        r = random.Random(rnd.getrandbits(48))
        spec = LangGen(r, knobs={'dup_assoc_names': 0.4}).gen()
        g = Gen(r, spec, WEIGHTS, names=NAMES)      # YAML/JSON-significant names are drawn inside the generator, so
        ops = g.gen(r.randint(4, 30))[:-1]          # that its bookkeeping of accepted / rejected additions sees them
        cases.append((spec, ops, ['json', 'yml', 'yaml'][i % 3], r))
    model = None
    if lean['build_ok']:
        model = run_driver([{'op': 'ser_model', 'case': i, 'lang': lang_payload(s), 'ops': o, 'fmt': 'json' if f == 'json' else 'yaml'}
                            for i, (s, o, f, r) in enumerate(cases)])
    for i, (spec, ops, fmt, r) in enumerate(cases):
        res.evaluations += 1
        mo = model[i].get('model') if model is not None else None
        if model is not None and mo is None:
            res.violations.append(Violation(what='driver rejected a case: ' + str(model[i].get('error')), fingerprint='C07:driver-error',
                                            replay={'spec': spec, 'ops': ops}, no_failing_input=True)); continue
        v = check_case(spec, ops, fmt, mo, r, res)
        res.bump(fmt)
        ks = [o['k'] for o in ops]
        if any(o['k'] == 'add_asset' and o['id'] is not None for o in ops) and 'add_association' in ks and \
                any(o['k'] == 'add_asset' and o['defenses'] for o in ops):
            res.nontrivial.add(canon_hash([spec, ops]))
        if v: res.violations.append(v)
        if len(res.samples) < 2 and mo and 'doc' in mo and len(mo['doc']['assets']) > 2: res.samples.append({'fmt': fmt, 'doc': mo['doc']})
    if not res.samples: res.samples.append({'ops': cases[0][1][:5]})
    return res

def replay(path):
    r = json.load(open(path))
    v = check_case(r['spec'], r['ops'], r['fmt'], None, random.Random(0), Result())
    print(v.what if v else 'no violation'); print('VIOLATION reproduced' if v else 'not reproduced')
    return 1 if v else 0

def check_witness(w):
    v = check_case(w['spec'], w['ops'], w['fmt'], None, random.Random(0), Result())
    return v.fingerprint if v else None
