"""C07 — saving and loading a model preserves it (JSON and YAML)."""
from __future__ import annotations
import copy, json, os, random
from ..common import Result, Violation, run_driver, canon_hash, scratch
from ..langgen import LangGen, lang_payload, jtxt
from ..mhist import Impl, Gen, canon_obs

ASSUMPTIONS = [
    'json / PyYAML round trips behave like jsonRT (dictionary keys become strings) / yamlRT (identity) on the document model; exercised through real files',
    'attackers of one model have pairwise distinct ids (the API allows duplicates; recorded as a known finding)',
    'python_jsonschema_objects guards as in C06',
]
TRUSTED = ['Lean 4.33 kernel', 'axioms: propext, Classical.choice, Quot.sound',
           'hand-written model Model/Serial.lean over Model/MState.lean (tied by this correspondence)',
           'harness/mhist.py, harness/props/c07.py (history generator, document conversion, comparison)']
WEIGHTS = {'add_asset': 12, 'remove_asset': 2, 'add_association': 10, 'set_assoc_extras': 3, 'remove_association': 1, 'remove_asset_from_association': 1,
           'add_attacker': 3, 'remove_attacker': 1, 'add_entry_point': 6, 'remove_entry_point': 1}
NAMES = ['A', 'B', 'yes', '0123', '- x', 'a: b', '#c', 'é€', 'two\nlines', ' lead', "q'uo\"te", 'null', '~', '1e3', '', 'srv\U0001F600', '\U0001F512lock \u4e2d']

def full_obs(m):
    """what the property says must be preserved"""
    def fields(a):
        lf, rf = m.get_association_field_names(a)
        return [str(lf), sorted(int(x.id) for x in getattr(a, lf)), str(rf), sorted(int(x.id) for x in getattr(a, rf))]
    return {'name': m.name,
            'assets': sorted([int(a.id), str(a.name), str(a.type),
                              sorted([k, float(v)] for k, v in m.get_asset_defenses(a, include_defaults=True).items()),
                              jtxt(a.extras.as_dict()) if a.extras else '{}'] for a in m.assets),
            'associations': sorted([type(a).__name__] + fields(a) + [jtxt(a.extras.as_dict()) if a.extras else '{}'] for a in m.associations),
            'attackers': sorted([t.id, t.name, sorted([int(a.id), sorted(s)] for a, s in t.entry_points)] for t in m.attackers)}

def dict_to_doc(d):
    assets = []
    for k, v in d['assets'].items():
        if isinstance(v, dict):
            assets.append([k, {'name': v['name'], 'type': v['type'], 'defenses': sorted([x, repr(float(y))] for x, y in v.get('defenses', {}).items()),
                               'extras': jtxt(v['extras']) if v.get('extras') else None}])
        else: assets.append([k, v])
    assocs = []
    for e in d['associations']:
        cls = list(e.keys())[0]
        (lf, l), (rf, r) = list(e[cls].items())
        assocs.append({'cls': cls, 'lf': lf, 'left': l, 'rf': rf, 'right': r, 'extras': jtxt(e['extras']) if e.get('extras') else None})
    atts = [[k, {'name': v['name'], 'entry': [[a, ep['attack_steps']] for a, ep in v['entry_points'].items()]}] for k, v in d['attackers'].items()]
    return {'assets': assets, 'associations': assocs, 'attackers': atts}

def canon_doc(doc):
    return {'assets': sorted(([str(k), v if isinstance(v, str) else dict(v, defenses=sorted(v['defenses']))] for k, v in doc['assets']), key=lambda e: e[0]),
            'associations': sorted((dict(a, left=sorted(map(int, a['left'])), right=sorted(map(int, a['right']))) for a in doc['associations']), key=jtxt),
            'attackers': sorted(([str(k), {'name': v['name'], 'entry': sorted([str(a), sorted(s)] for a, s in v['entry'])}] for k, v in doc['attackers']), key=lambda e: e[0])}

def check_case(spec, ops, fmt, mo, rnd, res, tap=None):
    """`tap` (third column): a dictionary that receives the real objects of the case (`im`, `m`, `m2`, `raw`, `edited`, `m3`)"""
    from maltoolbox.model import Model
    im = Impl(spec)
    for op in ops: im.step(op)
    m = im.m
    if tap is not None: tap.update(im=im, m=m)
    d = scratch()
    path = os.path.join(d, f'model.{fmt}')
    before = full_obs(m)
    try:
        m.save_to_file(path)
    except Exception as e:
        return Violation(what=f'saving a model as {fmt} raises {type(e).__name__}', fingerprint=f'C07:save-raises:{type(e).__name__}',
                         replay={'spec': spec, 'ops': ops, 'fmt': fmt})
    try:
        m2 = Model.load_from_file(path, im.fac)
    except Exception as e:
        return Violation(what=f'loading the saved {fmt} file raises {type(e).__name__}: {str(e)[:60]}', fingerprint=f'C07:load-raises:{type(e).__name__}',
                         replay={'spec': spec, 'ops': ops, 'fmt': fmt})
    if tap is not None: tap['m2'] = m2
    after = full_obs(m2)
    if after != before:
        diff = [k for k in before if before[k] != after[k]]
        ids = [t.id for t in m.attackers]
        fp = 'C07:roundtrip-differs:' + ','.join(diff)
        if diff == ['attackers'] and len(set(ids)) != len(ids): fp = 'C07:duplicate-attacker-ids-collapse'
        return Violation(what=f'loaded model differs from the saved one in {diff} ({fmt})', fingerprint=fp,
                         replay={'spec': spec, 'ops': ops, 'fmt': fmt, 'before': before, 'after': after})
    if m2._to_dict() != m._to_dict():
        return Violation(what='saving the loaded model does not reproduce the same content', fingerprint='C07:resave-differs',
                         replay={'spec': spec, 'ops': ops, 'fmt': fmt})
    # hand-edited file: assets in another order, type-only shorthand where it denotes the same asset
    from maltoolbox.file_utils import load_dict_from_json_file, load_dict_from_yaml_file, save_dict_to_file
    raw = load_dict_from_json_file(path) if fmt == 'json' else load_dict_from_yaml_file(path)
    items = list(raw['assets'].items()); rnd.shuffle(items)
    edited = dict(raw, assets={})
    n_short = 0
    for k, v in items:
        if set(v) == {'name', 'type'} and v['name'] == f"{v['type']}:{k}":
            edited['assets'][k] = v['type']; n_short += 1
        else: edited['assets'][k] = v
    if tap is not None: tap.update(raw=copy.deepcopy(raw), edited=copy.deepcopy(edited))
    path2 = os.path.join(d, f'edited.{fmt}')
    save_dict_to_file(path2, edited)
    try:
        m3 = Model.load_from_file(path2, im.fac)
        if tap is not None: tap['m3'] = m3
        third = full_obs(m3)
    except Exception as e:
        third = {'error': type(e).__name__ + ': ' + str(e)[:80]}
    if third != before:
        return Violation(what=f'the same file with assets listed in another order (ids {[k for k, _ in items][:6]}) loads to a different model ({fmt})',
                         fingerprint='C07:asset-order-dependent', replay={'spec': spec, 'ops': ops, 'fmt': fmt, 'edited': edited, 'before': before, 'after': third})
    res.bump('shorthand_entries', n_short)
    if mo is not None:
        if 'error' in mo:
            return Violation(what='Lean model fails to load its own saved document: ' + mo['error'], fingerprint='C07:model-divergence',
                             replay={'spec': spec, 'ops': ops, 'fmt': fmt, 'model': mo}, no_failing_input=True)
        if canon_doc(mo['doc']) != canon_doc(dict_to_doc(m._to_dict())):
            return Violation(what='implementation and Lean model disagree on the saved document', fingerprint='C07:model-divergence',
                             replay={'spec': spec, 'ops': ops, 'impl': dict_to_doc(m._to_dict()), 'model': mo['doc']}, no_failing_input=True)
        im2 = Impl.__new__(Impl); im2.m = m2
        a, b = canon_obs(Impl.obs(im2)), canon_obs(mo['loaded'])
        for k in ('assets', 'associations', 'attackers', 'assetIds', 'assetNames', 'nextId'):
            if a[k] != b[k]:
                return Violation(what=f'implementation and Lean model disagree on the loaded model ({k})', fingerprint='C07:model-divergence',
                                 replay={'spec': spec, 'ops': ops, 'fmt': fmt, 'impl': a[k], 'model': b[k]}, no_failing_input=True)
    return None

# ---- third column (genexec2): the generated `Model._to_dict` / `Model._from_dict` (driver ops `gen_ser_model`, `gen_load_doc`) ----
LOAD_KEYS = ('assets', 'associations', 'attackers', 'assetIds', 'assetNames', 'nextId')
# error classes that the prelude states differently from CPython ON PURPOSE (PreludeMSerial `pjsNewAsset` / `pjsNewAssoc`:
# "`AttributeError` (abstracted as the hand model's lookup error)"): (real, generated)
CLASS_CONVENTION = {('AttributeError', 'LookupError')}

def declared_defenses(spec, type_):
    by = {a['name']: a for a in spec['assets']}
    out = []
    while type_ in by:
        out += [s['name'] for s in by[type_]['attackSteps'] if s['type'] == 'defense']; type_ = by[type_]['superAsset']
    return out

def odd_edits(raw, rnd, spec, k=3):
    """hand edits of a saved document beyond the permutation / shorthand of the oracle: missing keys, reordered keys, odd
    values - [(label, document)]; every edit is applied to its own copy of the document the real file layer returned"""
    out = []
    def ed(label, f):
        d = copy.deepcopy(raw)
        try:
            if f(d) is not False: out.append((label, d))
        except (KeyError, IndexError, StopIteration): pass
    full = [k_ for k_, v in raw['assets'].items() if isinstance(v, dict)]
    assocs = list(range(len(raw.get('associations', []))))
    atts = list(raw.get('attackers', {}))
    def cls_of(e): return [k_ for k_ in e if k_ != 'extras'][0]
    def reorder_extras_first(d):
        e = d['associations'][rnd.choice(assocs)]; c = cls_of(e); v = e.pop(c); x = e.pop('extras', {'edited': 1}); e['extras'] = x; e[c] = v
    def swap_fields(d):
        e = d['associations'][rnd.choice(assocs)]; c = cls_of(e); e[c] = dict(reversed(list(e[c].items())))
    def single_id(d):
        for e in d['associations']:
            for f_, t in e[cls_of(e)].items():
                if isinstance(t, list) and len(t) == 1: e[cls_of(e)][f_] = t[0]; return
        return False
    def rename_key(dic, old, new): items = [(new if k_ == old else k_, v) for k_, v in dic.items()]; dic.clear(); dic.update(items)
    def dangling(d):
        a = d['attackers'][rnd.choice(atts)]; a['entry_points'][987654 if not isinstance(next(iter(d['assets']), 0), str) else '987654'] = {'attack_steps': ['x']}
    def drop_referenced(d):
        e = d['associations'][rnd.choice(assocs)]; t = next(iter(e[cls_of(e)].values())); i = t[0] if isinstance(t, list) else t
        key = next(k_ for k_ in d['assets'] if str(k_) == str(i)); del d['assets'][key]
    def dup_name(d):
        if len(full) < 2: return False
        a, b = rnd.sample(full, 2); d['assets'][b]['name'] = d['assets'][a]['name']
    def out_of_range(d):
        for a in rnd.sample(full, len(full)):
            ds = declared_defenses(spec, d['assets'][a].get('type'))
            if ds: d['assets'][a].setdefault('defenses', {})[rnd.choice(ds)] = rnd.choice([1.5, -0.25, 2]); return
        return False
    def spelled(k_):
        """another spelling of an integer key that CPython's `int` reads (white space around it, a leading `+`, a Unicode
        digit in front): `String.toInt?` of the preludes does not - the generated `_from_dict` must answer "not modelled"
        (`OtherError`), never `ValueError` (finding of the legacy helper, repaired in `Py/PyInt.lean`)"""
        k_ = str(k_)
        forms = [' ' + k_, k_ + '\t', k_ + '\n', '\xa0' + k_ + ' ', '\u0665' + k_.lstrip('-')] + (['+' + k_] if not k_.startswith('-') else [' ' + k_])
        return rnd.choice(forms)
    def spell_member(d):
        e = d['associations'][rnd.choice(assocs)]; f_ = rnd.choice(list(e[cls_of(e)])); t = e[cls_of(e)][f_]
        if isinstance(t, list) and t: t[rnd.randrange(len(t))] = spelled(t[0])
        elif not isinstance(t, list): e[cls_of(e)][f_] = spelled(t)
        else: return False
    def spell_ep(d):
        a = d['attackers'][next(a for a in atts if d['attackers'][a]['entry_points'])]['entry_points']; k_ = rnd.choice(list(a)); rename_key(a, k_, spelled(k_))
    def retype_keys(d):
        for top in ('assets', 'attackers'):
            items = [((int(k_) if isinstance(k_, str) else str(k_)), v) for k_, v in d[top].items()]; d[top] = dict(items)
    menu = [('drop:attackers', lambda d: d.pop('attackers')), ('drop:associations', lambda d: d.pop('associations')),
            ('drop:assets', lambda d: d.pop('assets')), ('drop:metadata', lambda d: d.pop('metadata')),
            ('drop:metadata.name', lambda d: d['metadata'].pop('name')),
            ('meta:space-version', lambda d: d['metadata'].update({'MAL Toolbox Version': '9.9.9'})),
            ('assets:reversed', lambda d: d.update(assets=dict(reversed(list(d['assets'].items()))))),
            ('attackers:reversed', lambda d: d.update(attackers=dict(reversed(list(d['attackers'].items())))) if atts else False),
            ('keys:retyped', retype_keys)]
    if raw['assets']: menu += [('key-spelling:asset', lambda d: (lambda k_: rename_key(d['assets'], k_, spelled(k_)))(rnd.choice(list(d['assets']))))]
    if assocs: menu += [('key-spelling:member', spell_member)]
    if atts: menu += [('key-spelling:attacker', lambda d: (lambda k_: rename_key(d['attackers'], k_, spelled(k_)))(rnd.choice(atts))), ('key-spelling:entry-point', spell_ep)]
    if full:
        menu += [('drop:asset.name', lambda d: d['assets'][rnd.choice(full)].pop('name')), ('drop:asset.type', lambda d: d['assets'][rnd.choice(full)].pop('type')),
                 ('unknown-type', lambda d: d['assets'][rnd.choice(full)].update(type='NoSuchAsset')),
                 ('unknown-defense', lambda d: d['assets'][rnd.choice(full)].setdefault('defenses', {}).update(noSuchDefense=0.5)),
                 ('defense-out-of-range', out_of_range),
                 ('int-defense', lambda d: [v['defenses'].update({next(iter(v['defenses'])): 1}) for v in [d['assets'][k_] for k_ in full if d['assets'][k_].get('defenses')][:1]] or False),
                 ('asset:empty-extras', lambda d: d['assets'][rnd.choice(full)].update(extras={})),
                 ('asset:extras', lambda d: d['assets'][rnd.choice(full)].update(extras={'b': [1, 2.5, None], 'a': {'z': True}})),
                 ('bad-id-key', lambda d: rename_key(d['assets'], rnd.choice(full), 'abc')), ('dup-asset-name', dup_name)]
    if assocs:
        menu += [('assoc:extras-first', reorder_extras_first), ('assoc:swap-fields', swap_fields), ('assoc:single-id', single_id),
                 ('unknown-class', lambda d: (lambda e: rename_key(e, cls_of(e), 'NoSuchAssoc'))(d['associations'][rnd.choice(assocs)])),
                 ('unknown-field', lambda d: (lambda e: rename_key(e[cls_of(e)], next(iter(e[cls_of(e)])), 'noSuchField'))(d['associations'][rnd.choice(assocs)])),
                 ('drop-referenced-asset', drop_referenced)]
    if atts:
        menu += [('drop:attacker.name', lambda d: d['attackers'][rnd.choice(atts)].pop('name')),
                 ('drop:attacker.entry_points', lambda d: d['attackers'][rnd.choice(atts)].pop('entry_points')),
                 ('drop:ep.attack_steps', lambda d: next(iter(d['attackers'][next(a for a in atts if d['attackers'][a]['entry_points'])]['entry_points'].values())).pop('attack_steps')),
                 ('dangling-entry-point', dangling), ('bad-attacker-key', lambda d: rename_key(d['attackers'], rnd.choice(atts), 'x1'))]
    for label, f in rnd.sample(menu, min(k, len(menu))): ed(label, f)
    return out

def real_load(doc, fac):
    """the real `Model._from_dict` on a document -> (error class | None, observation | None, re-saved document | None, name)"""
    from maltoolbox.model import Model
    try:
        m = Model._from_dict(copy.deepcopy(doc), fac)
    except Exception as e:
        return type(e).__name__, None, None, None
    try:
        im = Impl.__new__(Impl); im.m = m
        return None, canon_obs(Impl.obs(im)), m._to_dict(), m.name
    except Exception as e:                      # a model `_from_dict` returned but that cannot be observed / saved (finding 2 of NOTES_mserial)
        return None, {'unobservable': type(e).__name__}, None, m.name

def gen_load_same(real, g, res=None):
    """real = (err, obs, resaved, name) of `real_load`, g = answer of `gen_load_doc` -> None | description"""
    from .. import genexec
    rerr, robs, rsaved, rname = real
    if g['err'] == 'OtherError':
        # the prelude's "not modelled" (a value the typed heap cannot hold, a pjs validation error): nothing to compare
        if res is not None: res.bump('generated_code_loads_not_modelled(OtherError): real ' + (rerr or ('loads' if 'unobservable' not in robs else 'loads, unobservable')))
        return None
    if rerr is not None or g['err'] is not None:
        if rerr == g['err']: return None
        if (rerr, g['err']) in CLASS_CONVENTION:
            if res is not None: res.bump(f'generated_code_loads_error_class_by_convention({rerr}~{g["err"]})')
            return None
        return f'the real _from_dict {("raises " + rerr) if rerr else "returns"}, the generated one {("raises " + g["err"]) if g["err"] else "returns"}'
    if 'unobservable' in robs: return 'the real _from_dict returns a model that cannot be observed, the generated one a proper heap'
    if rname != g['name']: return f'name of the loaded model: {rname!r} vs {g["name"]!r}'
    b = canon_obs(g['loaded'])
    for k in LOAD_KEYS:
        if robs[k] != b[k]: return f'the loaded model differs in {k}: {robs[k]!r:.200} (impl) vs {b[k]!r:.200} (generated)'
    d = genexec.m_doc_compare(rsaved, g['resaved'])
    return ('saving the loaded model again: ' + d) if d else None

def third_column(i, spec, ops, fmt, tap, gen_i, r, res, queue, count=True):
    """after the oracle and the hand model passed on case i: the document of the generated `_to_dict` against the real one;
    queues the documents of the real file layer (+ the hand-edited ones) for the generated `_from_dict`.  -> [description]"""
    from .. import genexec
    if 'skip' in gen_i:
        if count: res.bump('generated_code_case_skipped:' + gen_i['skip']); return []
        return []
    bad = []
    d = genexec.m_doc_compare(tap['m']._to_dict(), gen_i['doc'])
    if count: res.bump('generated_code_documents_compared')
    if d: bad.append(('_to_dict', 'document of _to_dict: ' + d, {'impl_doc': genexec.m_doc_encode(tap['m']._to_dict()), 'generated_doc': gen_i['doc']}))
    fac = tap['im'].fac
    docs = []
    if 'raw' in tap: docs.append(('file:' + fmt, tap['raw']))
    if 'edited' in tap: docs.append(('oracle-edit:permuted+shorthand', tap['edited']))
    if 'raw' in tap: docs += odd_edits(tap['raw'], r, spec)
    for label, doc in docs:
        queue.append({'case': i, 'label': label, 'doc': doc, 'real': real_load(doc, fac)})
    return bad

def meta_of(spec):
    import maltoolbox
    return [spec['defines']['version'], spec['defines']['id'], maltoolbox.__version__]

def check_loads(queue, cases, res, count=True):
    """the generated `_from_dict` on the queued documents -> [(queue entry, kind, description)]"""
    from .. import genexec
    out = run_driver([{'op': 'gen_load_doc', 'case': k, 'lang': lang_payload(cases[q['case']][0]), 'doc': genexec.m_doc_encode(q['doc']),
                       'meta': meta_of(cases[q['case']][0])} for k, q in enumerate(queue)])
    bad = []
    for q, o in zip(queue, out):
        lab = q['label'].split(':')[0] if q['label'].startswith('file') else q['label']
        if 'error' in o:
            if o['error'].startswith('unrepresentable'):
                if count: res.bump('generated_code_loads_unrepresentable:' + lab)
                continue
            bad.append((q, 'driver-error', o['error'])); continue
        if count: res.bump('generated_code_loads_compared'); res.bump('generated_code_load:' + lab + ' -> ' + (q['real'][0] or 'loads'))
        d = gen_load_same(q['real'], o['model'], res if count else None)
        if d: bad.append((q, '_from_dict', d))
    return bad

def run(seed, tier, lean) -> Result:
    rnd = random.Random(seed)
    res = Result(rule='models built by random API histories (id gaps, explicit/zero/negative ids, non-default defenses, YAML-significant and '
                      'unicode names, extras on assets and associations, several attackers with several entry points, duplicate-named '
                      'association classes) x {json, yml, yaml}; real save -> file -> real load compared on every preserved attribute, '
                      're-saved content, the same file with permuted asset order and type-only shorthand; the Lean document model compared '
                      'on the saved document and the loaded state; non-trivial = id gap or explicit id + a non-default defense + an association')
    n = 200 if tier == 'quick' else 1200
    import harness.mhist as mh
    cases = []
    for i in range(n):
        r = random.Random(rnd.getrandbits(48))
        spec = LangGen(r, knobs={'dup_assoc_names': 0.4}).gen()
        g = Gen(r, spec, WEIGHTS, names=NAMES)      # YAML/JSON-significant names are drawn inside the generator, so
        ops = g.gen(r.randint(4, 30))[:-1]          # that its bookkeeping of accepted / rejected additions sees them
        cases.append((spec, ops, ['json', 'yml', 'yaml'][i % 3], r))
    from .. import genexec
    model = gen = None
    if lean['build_ok']:
        model, gen = genexec.run_both([{'op': 'ser_model', 'case': i, 'lang': lang_payload(s), 'ops': o, 'fmt': 'json' if f == 'json' else 'yaml'}
                                       for i, (s, o, f, r) in enumerate(cases)], 'gen_ser_model',
                                      rewrite=lambda q: dict(q, meta=meta_of(cases[q['case']][0])))
    queue = []
    for i, (spec, ops, fmt, r) in enumerate(cases):
        res.evaluations += 1
        mo = model[i].get('model') if model is not None else None
        if model is not None and mo is None:
            res.violations.append(Violation(what='driver rejected a case: ' + str(model[i].get('error')), fingerprint='C07:driver-error',
                                            replay={'spec': spec, 'ops': ops}, no_failing_input=True)); continue
        tap = {} if gen is not None and gen[i] is not None else None
        v = check_case(spec, ops, fmt, mo, r, res, tap)
        res.bump(fmt)
        if tap is not None and not v:
            # third column: the oracle passes and the hand model agrees with the implementation on this case
            if 'error' in gen[i]: res.violations.append(genexec.driver_error('C07', gen[i]['error'], {'spec': spec, 'ops': ops}))
            else:
                for op_, what, info in third_column(i, spec, ops, fmt, tap, gen[i]['model'], random.Random(seed * 1000003 + i), res, queue)[:1]:
                    res.violations.append(genexec.divergence('C07', op_, f'({what})', {'spec': spec, 'ops': ops, 'fmt': fmt, **info}))
        ks = [o['k'] for o in ops]
        if any(o['k'] == 'add_asset' and o['id'] is not None for o in ops) and 'add_association' in ks and \
                any(o['k'] == 'add_asset' and o['defenses'] for o in ops):
            res.nontrivial.add(canon_hash([spec, ops]))
        if v: res.violations.append(v)
        if len(res.samples) < 2 and mo and 'doc' in mo and len(mo['doc']['assets']) > 2: res.samples.append({'fmt': fmt, 'doc': mo['doc']})
    if not res.samples: res.samples.append({'ops': cases[0][1][:5]})
    if queue:
        seen = set()
        for q, kind, what in check_loads(queue, cases, res):
            if (q['case'], kind) in seen: continue
            seen.add((q['case'], kind))
            spec, ops, fmt, _ = cases[q['case']]
            rp = {'spec': spec, 'ops': ops, 'fmt': fmt, 'edit': q['label'], 'document': genexec.m_doc_encode(q['doc']), 'impl': [q['real'][0], q['real'][1]]}
            res.violations.append(genexec.driver_error('C07', what, rp) if kind == 'driver-error' else
                                  genexec.divergence('C07', '_from_dict', f'on the document "{q["label"]}" ({what})', rp))
    return res

def genexec_measure(seed: int, n: int) -> dict:
    """seeded experiment (tools/genexec_seeded.py): n cases of the quick check on the (mutated) implementation, the hand model
    (`ser_model`: saved document and loaded state, compared as `check_case` does) and the (regenerated) code (`gen_ser_model`:
    document of `_to_dict`, exact; `gen_load_doc`: `_from_dict` on the file the implementation wrote, on the oracle's edited
    file and on three further hand edits).  A case = one model history with its file format."""
    from .. import genexec
    rnd = random.Random(seed)
    st = {'cases': 0, 'impl_ne_hand': 0, 'gen_follows_impl': 0, 'gen_ne_impl': 0, 'impl_crash': 0, 'examples': []}
    def note(kind, info):
        if len([e for e in st['examples'] if e[0] == kind]) < 2: st['examples'].append([kind, info])
    cases = []
    for i in range(n):
        r = random.Random(rnd.getrandbits(48))
        spec = LangGen(r, knobs={'dup_assoc_names': 0.4}).gen()
        ops = Gen(r, spec, WEIGHTS, names=NAMES).gen(r.randint(4, 30))[:-1]
        cases.append((spec, ops, ['json', 'yml', 'yaml'][i % 3], r))
    hand, gen = genexec.run_both([{'op': 'ser_model', 'case': i, 'lang': lang_payload(s), 'ops': o, 'fmt': 'json' if f == 'json' else 'yaml'}
                                  for i, (s, o, f, r) in enumerate(cases)], 'gen_ser_model',
                                 rewrite=lambda q: dict(q, meta=meta_of(cases[q['case']][0])))
    res = Result(); queue = []; per = {}
    for i, (spec, ops, fmt, r) in enumerate(cases):
        st['cases'] += 1
        if 'error' in hand[i] or 'error' in gen[i]:
            note('driver-error', [hand[i].get('error'), gen[i].get('error')]); continue
        if 'skip' in gen[i]['model']: continue
        mo = hand[i]['model']; tap = {}
        try:
            v = check_case(spec, ops, fmt, None, r, res, tap)       # the oracle only; what it reached is in `tap`
            real_doc = tap['m']._to_dict()
        except Exception as e:
            st['impl_crash'] += 1; note('impl-crash', f'{type(e).__name__}: {str(e)[:80]}'); continue
        # hand model = implementation?  (the comparison of `check_case`, independent of the oracle)
        try: hand_same = canon_doc(mo['doc']) == canon_doc(dict_to_doc(real_doc))
        except Exception: hand_same = False
        if hand_same and 'm2' in tap and 'loaded' in mo:
            im2 = Impl.__new__(Impl); im2.m = tap['m2']
            try:
                a, b = canon_obs(Impl.obs(im2)), canon_obs(mo['loaded'])
                hand_same = all(a[k] == b[k] for k in LOAD_KEYS)
            except Exception: hand_same = False
        elif hand_same:
            hand_same = ('m2' in tap) == ('loaded' in mo) if 'raw' in tap or v is not None else hand_same
        if 'raw' not in tap and 'm2' in tap:
            # the oracle stopped before it read the file back: the file the implementation wrote is still there
            from maltoolbox.file_utils import load_dict_from_json_file, load_dict_from_yaml_file
            try: tap['raw'] = (load_dict_from_json_file if fmt == 'json' else load_dict_from_yaml_file)(os.path.join(scratch(), f'model.{fmt}'))
            except Exception: pass
        bad = third_column(i, spec, ops, fmt, tap, gen[i]['model'], random.Random(seed * 1000003 + i), res, queue, count=False)
        per[i] = {'hand_same': hand_same, 'bad': [b[1] for b in bad], 'oracle': v.fingerprint if v else None}
    for q, kind, what in (check_loads(queue, cases, res, count=False) if queue else []):
        per[q['case']]['bad'].append(f'{q["label"]}: {what}')
    for i, p in per.items():
        if not p['hand_same']:
            st['impl_ne_hand'] += 1
            if not p['bad']:
                st['gen_follows_impl'] += 1; note('gen=impl!=hand', {'case': i, 'fmt': cases[i][2], 'oracle': p['oracle']})
        if p['bad']:
            st['gen_ne_impl'] += 1; note('gen!=impl', {'case': i, 'fmt': cases[i][2], 'what': p['bad'][:2], 'ops': cases[i][1][:12]})
    st['oracle_violations'] = sum(1 for p in per.values() if p['oracle'])
    st['documents_compared'] = len(per); st['loads_compared'] = len(queue)
    return st

def replay(path):
    r = json.load(open(path))
    v = check_case(r['spec'], r['ops'], r['fmt'], None, random.Random(0), Result())
    print(v.what if v else 'no violation'); print('VIOLATION reproduced' if v else 'not reproduced')
    return 1 if v else 0

def check_witness(w):
    v = check_case(w['spec'], w['ops'], w['fmt'], None, random.Random(0), Result())
    return v.fingerprint if v else None
