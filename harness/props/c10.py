"""C10 — saving and loading an attack graph preserves it."""
from __future__ import annotations
import json, random
from ..common import Result, Violation, run_driver, canon_hash
from ..aghist import Gen, Impl, canon_obs, canon_out, consistent, rejected_clean

ASSUMPTIONS = [
    'json / PyYAML round trips behave like jsonRT (id keys of inner dictionaries become strings) / yamlRT (identity) on the document model; exercised through real files',
    'edges are compared as sets (a duplicate edge is written once: the file format keys children by id)',
    'graphs are structurally consistent (C09) with pairwise distinct full names',
]
TRUSTED = ['Lean 4.33 kernel', 'axioms: propext, Classical.choice, Quot.sound',
           'hand-written model Model/AGSerial.lean over Model/AGS.lean (tied by this correspondence)',
           'harness/aghist.py, harness/props/c10.py']
WEIGHTS = {'add_node': 8, 'link': 10, 'remove_node': 1, 'add_attacker': 4, 'remove_attacker': 1, 'compromise': 6, 'undo': 1,
           'attach': 1, 'set_labels': 3, 'prune': 1, 'touch': 2, 'save_load': 2,
           # rejected calls before / between the saves (and on a loaded graph): they must change nothing
           'add_attacker_bad': 1, 'add_attacker_used_id': 1, 'add_attacker_again': 1, 'add_node_again': 1}

def preserved(g, with_asset):
    """what the property says a save / load keeps"""
    return {'nodes': sorted([n.id, n.name, n.type, json.dumps(n.ttc, sort_keys=True), n.defense_status, n.existence_status, n.is_viable,
                             n.is_necessary, n.mitre_info, [type(t).__name__ + ':' + str(t) for t in n.tags] if isinstance(n.tags, list) else repr(n.tags),
                             json.dumps(n.extras, sort_keys=True)] + ([n.asset.name if n.asset else None] if with_asset else []) for n in g.nodes),
            'edges': sorted({(n.id, c.id) for n in g.nodes for c in n.children}),
            'parent_edges': sorted({(p.id, n.id) for n in g.nodes for p in n.parents}),
            'attackers': sorted([a.id, a.name, sorted({n.id for n in a.entry_points}), sorted({n.id for n in a.reached_attack_steps})] for a in g.attackers)}

def run_one(ops, mo_steps, res):
    im = Impl()
    for i, op in enumerate(ops):
        before = preserved(im.g, op.get('withModel', False)) if op['k'] == 'save_load' else None
        try:
            st = im.step(op)
        except Exception as e:
            if op['k'] == 'save_load':
                return ('oracle', i, [f'save / load of the graph raises {type(e).__name__}: {str(e)[:80]}'])
            raise
        res.bump(op['k'])
        if 'case' in op: res.bump(op['case'] + (' -> ' + st['err'] if st['err'] else ' -> accepted'))
        if rejected_clean(st): return ('oracle', i, rejected_clean(st) + consistent(im.g))
        if op['k'] == 'save_load':
            after = preserved(im.g, op['withModel'])
            probs = [f'{k} differ after save/load ({op["fmt"]}, model {"given" if op["withModel"] else "absent"})' for k in before if before[k] != after[k]]
            if op['withModel']:
                for n in im.g.nodes:
                    if n.asset is not None and n.asset is not im.assets.get(n.asset.name):
                        probs.append('loaded node is not bound to the model asset of the same name')
            probs += consistent(im.g)
            if probs: return ('oracle', i, probs)
        if mo_steps is not None:
            mo = mo_steps[i]
            a = [st['err'], canon_out(op, st['out']), canon_obs(st['obs'])]
            b = [mo['err'], canon_out(op, mo['out']), canon_obs(mo['obs'])]
            if op['k'] == 'save_load':
                # duplicate edges are written once, counters restart: compare the loaded state exactly
                pass
            if a != b:
                return ('diverge', i, {'impl': a, 'model': b})
    return None

def run(seed, tier, lean) -> Result:
    rnd = random.Random(seed)
    res = Result(rule='graphs built by random histories (attackers with several reached steps, analysis labels, pruning, tags, extras, MITRE, TTCs, '
                      'defense / existence statuses, explicit ids, duplicate attacker names) then saved to json / yml / yaml and loaded with and without '
                      'a model, possibly several times with further operations in between; every preserved attribute, edge set and attacker compared '
                      'before/after on the real objects, and the loaded state with the Lean document model; non-trivial = an attacker with >= 2 reached '
                      'steps and a node with a False label and tags exist when saving')
    n = 300 if tier == 'quick' else 1800
    hists = []
    for k in range(n):
        g = Gen(random.Random(rnd.getrandbits(48)), WEIGHTS, nmax=rnd.choice([4, 6, 10]), rich=True)
        ops = g.gen(rnd.randint(8, 40))
        if not any(o['k'] == 'save_load' for o in ops):
            ops.insert(len(ops) - 1, {'k': 'save_load', 'fmt': rnd.choice(['json', 'yaml']), 'ext': 'yml', 'withModel': rnd.random() < 0.5})
        hists.append(ops)
    model = run_driver([{'op': 'ag_hist', 'case': i, 'ops': h} for i, h in enumerate(hists)]) if lean['build_ok'] else None
    for hi, ops in enumerate(hists):
        res.evaluations += 1
        mo = None
        if model is not None:
            if 'error' in model[hi]:
                res.violations.append(Violation(what='driver rejected a history: ' + model[hi]['error'], fingerprint='C10:driver-error',
                                                replay={'ops': ops}, no_failing_input=True)); continue
            mo = model[hi]['model']
        bad = run_one(ops, mo, res)
        if any(o['k'] == 'add_attacker' and len(o['reached']) >= 2 for o in ops) and any(o['k'] == 'add_node' and not o['viable'] and o.get('tags') for o in ops):
            res.nontrivial.add(canon_hash(ops))
        if bad:
            kind, at, info = bad
            if kind == 'oracle':
                res.violations.append(Violation(what=f'{info[0]} ({at + 1} operations)', fingerprint='C10:' + info[0].split(' (')[0][:60],
                                                replay={'ops': ops[:at + 1], 'problems': info}))
            else:
                res.violations.append(Violation(what=f'implementation and Lean model disagree after step {at} ({ops[at]["k"]})',
                                                fingerprint='C10:model-divergence:' + ops[at]['k'], replay={'ops': ops[:at + 1], **info}, no_failing_input=True))
        if len(res.samples) < 2: res.samples.append({'ops': ops[:10]})
    return res

def replay(path):
    r = json.load(open(path))
    bad = run_one(r['ops'], None, Result())
    print(bad); print('VIOLATION reproduced' if bad else 'not reproduced')
    return 1 if bad else 0
