"""C10 — saving and loading an attack graph preserves it."""
from __future__ import annotations
import copy, json, random
from ..common import Result, Violation, run_driver, canon_hash
from ..aghist import Gen, Impl, canon_obs, canon_out, consistent, rejected_clean
from ..langgen import jtxt

ASSUMPTIONS = [
    'json / PyYAML round trips behave like jsonRT (id keys of inner dictionaries become strings) / yamlRT (identity) on the document model; exercised through real files',
    'edges are compared as sets (a duplicate edge is written once: the file format keys children by id)',
    'graphs are structurally consistent (C09) with pairwise distinct full names',
]
TRUSTED = ['Lean 4.33 kernel', 'axioms: propext, Classical.choice, Quot.sound',
           'hand-written model Model/AGSerial.lean over Model/AGS.lean (tied by this correspondence)',
           'harness/aghist.py, harness/props/c10.py']
WEIGHTS = {'add_node': 8, 'link': 10, 'remove_node': 1, 'add_attacker': 4, 'remove_attacker': 1, 'compromise': 6, 'undo': 1,
           'attach': 1, 'set_labels': 3, 'prune': 1, 'touch': 2, 'save_load': 2,
           # rejected calls before / between the saves (and on a loaded graph): they must change nothing
           'add_attacker_bad': 1, 'add_attacker_used_id': 1, 'add_attacker_again': 1, 'add_node_again': 1}

def preserved(g, with_asset):
    """what the property says a save / load keeps"""
    return {'nodes': sorted([n.id, n.name, n.type, jtxt(n.ttc), n.defense_status, n.existence_status, n.is_viable,
                             n.is_necessary, n.mitre_info, [type(t).__name__ + ':' + str(t) for t in n.tags] if isinstance(n.tags, list) else repr(n.tags),
                             jtxt(n.extras)] + ([n.asset.name if n.asset else None] if with_asset else []) for n in g.nodes),
            'edges': sorted({(n.id, c.id) for n in g.nodes for c in n.children}),
            'parent_edges': sorted({(p.id, n.id) for n in g.nodes for p in n.parents}),
            'attackers': sorted([a.id, a.name, sorted({n.id for n in a.entry_points}), sorted({n.id for n in a.reached_attack_steps})] for a in g.attackers)}

def run_one(ops, mo_steps, res, tap=None):
    """`tap(phase, i, op, im, st)` (third column, `GenDocs`): called before / after every step and at the end"""
    im = Impl()
    for i, op in enumerate(ops):
        if tap: tap('before', i, op, im, None)
        before = preserved(im.g, op.get('withModel', False)) if op['k'] == 'save_load' else None
        try:
            st = im.step(op)
        except Exception as e:
            if op['k'] == 'save_load':
                return ('oracle', i, [f'save / load of the graph raises {type(e).__name__}: {str(e)[:80]}'])
            raise
        res.bump(op['k'])
        if tap: tap('after', i, op, im, st)
        if 'case' in op: res.bump(op['case'] + (' -> ' + st['err'] if st['err'] else ' -> accepted'))
        if rejected_clean(st): return ('oracle', i, rejected_clean(st) + consistent(im.g))
        if op['k'] == 'save_load':
            after = preserved(im.g, op['withModel'])
            probs = [f'{k} differ after save/load ({op["fmt"]}, model {"given" if op["withModel"] else "absent"})' for k in before if before[k] != after[k]]
            if op['withModel']:
                for n in im.g.nodes:
                    if n.asset is not None and n.asset is not im.assets.get(n.asset.name):
                        probs.append('loaded node is not bound to the model asset of the same name')
            probs += consistent(im.g)
            if probs: return ('oracle', i, probs)
        if mo_steps is not None:
            mo = mo_steps[i]
            a = [st['err'], canon_out(op, st['out']), canon_obs(st['obs'])]
            b = [mo['err'], canon_out(op, mo['out']), canon_obs(mo['obs'])]
            if op['k'] == 'save_load':
                # duplicate edges are written once, counters restart: compare the loaded state exactly
                pass
            if a != b:
                return ('diverge', i, {'impl': a, 'model': b})
    if tap: tap('end', len(ops), None, im, None)
    return None

# ---- third column (genexec2): the DOCUMENT of the generated `_to_dict`, and the generated `_from_dict` on the real file ----
def doc_positions(ops):
    """where the documents are compared: the document every `save_load` writes (= the graph before that step) and the
    graph at the end of the history"""
    return [i for i, o in enumerate(ops) if o['k'] == 'save_load'] + [len(ops)]

_last_loaded: dict = {}
def _tap_loaders():
    """remember the dictionary the real file layer hands to `_from_dict` (PyYAML parses slowly: reading every file a second
    time would cost 40 % of the run).  The wrappers only record what the original functions return."""
    import sys
    _last_loaded.clear()
    mod = sys.modules.get('maltoolbox.attackgraph.attackgraph')
    for nm in ('load_dict_from_yaml_file', 'load_dict_from_json_file'):
        f = getattr(mod, nm, None)
        if f is None or getattr(f, '_verif_tap', False): continue
        def wrapped(filename, _f=f):
            d = _f(filename); _last_loaded['doc'] = d
            return d
        wrapped._verif_tap = True
        setattr(mod, nm, wrapped)

class GenDocs:
    """collects, for ONE history, the disagreements between the dictionaries of the real `AttackGraph._to_dict()` and the
    documents the generated `graph__to_dict` returned for the replayed heap (driver op `gen_ag_todict`), and queues the
    documents the REAL file layer loaded for the generated `graph__from_dict` (driver op `gen_ag_fromdict`)"""
    def __init__(self, gen_docs, res, queue, hi, count=True):
        self.gen = {d['pos']: d for d in gen_docs}; self.res = res; self.queue = queue; self.hi = hi; self.count = count
        self.bad = []           # [(position, description)]
        self.steps = 0          # number of steps the real code has run
        self.ttc_touched = False
    def compare(self, pos, im):
        from .. import genexec
        g = self.gen.get(pos)
        if g is None: return
        real = im.g._to_dict()
        d = genexec.ag_doc_compare(real, g['doc'], self.res if self.count else None, self.ttc_touched)
        if self.count: self.res.bump('generated_code_documents_compared')
        if d: self.bad.append((pos, 'document of _to_dict: ' + d, real, g['doc']))
    def __call__(self, phase, i, op, im, st):
        import os
        from ..common import scratch
        if phase == 'before':
            if op['k'] == 'touch' and op['field'] == 'ttc': self.ttc_touched = True
            if op['k'] == 'save_load':
                self.compare(i, im)
                if self.queue is not None: _tap_loaders()
        elif phase == 'end':
            self.compare(i, im)
        elif op['k'] == 'save_load' and st['err'] is None and self.queue is not None:
            # the file the real `save_to_file` wrote, as the real loader reads it: input of the generated `_from_dict`
            from .. import genexec
            raw = _last_loaded.pop('doc', None)
            if raw is None:             # (the loader was not reached through the tapped names: read the file again)
                if self.count: self.res.bump('generated_code_loads_file_read_again')
                from maltoolbox.file_utils import load_dict_from_json_file, load_dict_from_yaml_file
                path = os.path.join(scratch(), 'ag.' + ('json' if op['fmt'] == 'json' else op.get('ext', 'yml')))
                raw = (load_dict_from_json_file if op['fmt'] == 'json' else load_dict_from_yaml_file)(path)
            # (encoded / copied at once: the loaded nodes keep the very `ttc` / `extras` / `tags` objects of the document, and
            # `to_dict` hands them out again - a later `touch` of the history would change the recorded documents)
            self.queue.append({'hi': self.hi, 'step': i, 'obs': st['obs'], 'ttc_touched': self.ttc_touched, 'resaved': copy.deepcopy(im.g._to_dict()),
                               'payload': {'op': 'gen_ag_fromdict', 'doc': genexec.ag_doc_encode(raw), 'withModel': op['withModel']}})
        if phase == 'after': self.steps = i + 1

def check_fromdict(queue, ok_hist, ops_of, res, count=True):
    """the generated `_from_dict` on the documents the real file layer returned -> [(queue entry, description)]"""
    from .. import genexec
    out = run_driver([dict(q['payload'], case=k) for k, q in enumerate(queue)])
    bad = []
    for q, o in zip(queue, out):
        if not ok_hist(q['hi']): continue
        if 'error' in o:
            bad.append((q, 'driver-error', o['error'])); continue
        g = o['model']
        if count: res.bump('generated_code_loads_compared')
        if g['err'] is not None:
            bad.append((q, 'from_dict', f'the generated _from_dict raises {g["err"]} on a document the real _from_dict loads')); continue
        a, b = genexec.ag_exact_obs(q['obs']), genexec.ag_exact_obs(g['obs'])
        if a != b:
            ks = [k for k in a if a[k] != b[k]]
            what = 'in the order of ' if canon_obs(a) == canon_obs(b) else 'in '
            bad.append((q, 'from_dict', f'the graph loaded by the generated _from_dict differs {what}{", ".join(ks)}', {'impl': {k: a[k] for k in ks}, 'generated': {k: b[k] for k in ks}})); continue
        d = genexec.ag_doc_compare(q['resaved'], g['resaved'], res if count else None, q['ttc_touched'])
        if d: bad.append((q, 'from_dict', 'saving the graph loaded by the generated _from_dict: ' + d))
    return bad

def run(seed, tier, lean) -> Result:
    rnd = random.Random(seed)
    res = Result(rule='graphs built by random histories (attackers with several reached steps, analysis labels, pruning, tags, extras, MITRE, TTCs, '
                      'defense / existence statuses, explicit ids, duplicate attacker names) then saved to json / yml / yaml and loaded with and without '
                      'a model, possibly several times with further operations in between; every preserved attribute, edge set and attacker compared '
                      'before/after on the real objects, and the loaded state with the Lean document model; non-trivial = an attacker with >= 2 reached '
                      'steps and a node with a False label and tags exist when saving')
    n = 300 if tier == 'quick' else 1800
    hists = []
    for k in range(n):
        g = Gen(random.Random(rnd.getrandbits(48)), WEIGHTS, nmax=rnd.choice([4, 6, 10]), rich=True, bare_defenses=True)
        ops = g.gen(rnd.randint(8, 40))
        if not any(o['k'] == 'save_load' for o in ops):
            ops.insert(len(ops) - 1, {'k': 'save_load', 'fmt': rnd.choice(['json', 'yaml']), 'ext': 'yml', 'withModel': rnd.random() < 0.5})
        hists.append(ops)
    from .. import genexec
    model = gen = None
    if lean['build_ok']:
        model, gen = genexec.run_both([{'op': 'ag_hist', 'case': i, 'ops': h} for i, h in enumerate(hists)], 'gen_ag_todict',
                                      rewrite=lambda q: dict(q, pos=doc_positions(q['ops'])))
    queue, clean = [], set()
    for hi, ops in enumerate(hists):
        res.evaluations += 1
        mo = None
        if model is not None:
            if 'error' in model[hi]:
                res.violations.append(Violation(what='driver rejected a history: ' + model[hi]['error'], fingerprint='C10:driver-error',
                                                replay={'ops': ops}, no_failing_input=True)); continue
            mo = model[hi]['model']
        tap = None
        if gen is not None and gen[hi] is not None:
            if 'error' in gen[hi]: res.violations.append(genexec.driver_error('C10', gen[hi]['error'], {'ops': ops}))
            else: tap = GenDocs(gen[hi]['model'], res, queue, hi)
        bad = run_one(ops, mo, res, tap)
        if tap is not None and not bad:
            # third column: hand model = implementation and the oracle passes on this history
            clean.add(hi)
            for pos, what, real, gdoc in tap.bad[:1]:
                res.violations.append(genexec.divergence('C10', '_to_dict', f'on the document of the graph before step {pos} ({what})',
                    {'ops': ops[:pos], 'impl_doc': genexec.ag_doc_encode(real), 'generated_doc': gdoc}))
        if any(o['k'] == 'add_attacker' and len(o['reached']) >= 2 for o in ops) and any(o['k'] == 'add_node' and not o['viable'] and o.get('tags') for o in ops):
            res.nontrivial.add(canon_hash(ops))
        if bad:
            kind, at, info = bad
            if kind == 'oracle':
                res.violations.append(Violation(what=f'{info[0]} ({at + 1} operations)', fingerprint='C10:' + info[0].split(' (')[0][:60],
                                                replay={'ops': ops[:at + 1], 'problems': info}))
            else:
                res.violations.append(Violation(what=f'implementation and Lean model disagree after step {at} ({ops[at]["k"]})',
                                                fingerprint='C10:model-divergence:' + ops[at]['k'], replay={'ops': ops[:at + 1], **info}, no_failing_input=True))
        if len(res.samples) < 2: res.samples.append({'ops': ops[:10]})
    if queue:
        seen = set()
        for q, kind, what, *info in check_fromdict(queue, lambda hi: hi in clean, hists, res):
            if q['hi'] in seen: continue        # one report per history
            seen.add(q['hi'])
            rp = {'ops': hists[q['hi']][:q['step'] + 1], 'document': q['payload']['doc'], 'withModel': q['payload']['withModel'], **(info[0] if info else {})}
            res.violations.append(genexec.driver_error('C10', what, rp) if kind == 'driver-error' else
                                  genexec.divergence('C10', '_from_dict', f'on the file written at step {q["step"]} ({what})', rp))
    return res

def genexec_measure(seed: int, n: int) -> dict:
    """seeded experiment (tools/genexec_seeded.py), DOCUMENT family only (the history family of C10 is measured by the tool
    itself): n histories of the quick check on the (mutated) implementation, the hand model (`ag_hist`, step by step up to
    the first disagreement) and the (regenerated) code: documents of `_to_dict` before every save and at the end, and
    `_from_dict` on the files the implementation wrote.  A case = one history."""
    from .. import genexec
    rnd = random.Random(seed)
    st = {'cases': 0, 'impl_ne_hand': 0, 'gen_follows_impl': 0, 'gen_ne_impl': 0, 'impl_crash': 0, 'examples': []}
    fam = {'documents_compared': 0, 'loads_compared': 0, 'documents_differ': 0, 'loads_differ': 0}
    def note(kind, info):
        if len([e for e in st['examples'] if e[0] == kind]) < 2: st['examples'].append([kind, info])
    hists = []
    for k in range(n):
        g = Gen(random.Random(rnd.getrandbits(48)), WEIGHTS, nmax=rnd.choice([4, 6, 10]), rich=True, bare_defenses=True)
        ops = g.gen(rnd.randint(8, 40))
        if not any(o['k'] == 'save_load' for o in ops):
            ops.insert(len(ops) - 1, {'k': 'save_load', 'fmt': rnd.choice(['json', 'yaml']), 'ext': 'yml', 'withModel': rnd.random() < 0.5})
        hists.append(ops)
    hand, gen = genexec.run_both([{'op': 'ag_hist', 'case': i, 'ops': h} for i, h in enumerate(hists)], 'gen_ag_todict',
                                 rewrite=lambda q: dict(q, pos=doc_positions(q['ops'])))
    queue, per = [], {}
    res = Result()
    for hi, ops in enumerate(hists):
        st['cases'] += 1
        if 'error' in hand[hi] or 'error' in gen[hi]:
            note('driver-error', [hand[hi].get('error'), gen[hi].get('error')]); continue
        tap = GenDocs(gen[hi]['model'], res, queue, hi)
        im = Impl(); first = None
        for i, op in enumerate(ops):
            tap('before', i, op, im, None)
            try: s_ = im.step(op)
            except Exception as e:
                st['impl_crash'] += 1; note('impl-crash', f'{type(e).__name__} at step {i} ({op["k"]}): {str(e)[:80]}'); first = -1; break
            mo = hand[hi]['model'][i]
            tap('after', i, op, im, s_)
            if [s_['err'], canon_out(op, s_['out']), canon_obs(s_['obs'])] != [mo['err'], canon_out(op, mo['out']), canon_obs(mo['obs'])]:
                first = i; break
        else:
            tap('end', len(ops), None, im, None)
        per[hi] = {'first': first, 'tap': tap, 'loads_bad': []}
    for q, kind, what, *info in (check_fromdict(queue, lambda hi: hi in per, hists, res) if queue else []):
        per[q['hi']]['loads_bad'].append([q['step'], kind, what] + list(info))
    for hi, p in per.items():
        differ = bool(p['tap'].bad or p['loads_bad'])
        fam['documents_differ'] += len(p['tap'].bad); fam['loads_differ'] += len(p['loads_bad'])
        if p['first'] is not None and p['first'] >= 0:
            st['impl_ne_hand'] += 1
            if not differ:
                st['gen_follows_impl'] += 1
                note('gen=impl!=hand', {'history': hi, 'step': p['first'], 'op': hists[hi][p['first']]})
        if differ:
            st['gen_ne_impl'] += 1
            note('gen!=impl', {'ops': hists[hi][:(p['tap'].bad[0][0] if p['tap'].bad else p['loads_bad'][0][0] + 1)],
                               'what': (p['tap'].bad[0][1] if p['tap'].bad else p['loads_bad'][0][2])})
    fam['documents_compared'] = res.distribution.get('generated_code_documents_compared', 0)
    fam['loads_compared'] = res.distribution.get('generated_code_loads_compared', 0)
    st['document_family'] = dict(fam, **{k: st[k] for k in ('cases', 'impl_ne_hand', 'gen_follows_impl', 'gen_ne_impl', 'impl_crash')})
    return st

def replay(path):
    r = json.load(open(path))
    bad = run_one(r['ops'], None, Result())
    print(bad); print('VIOLATION reproduced' if bad else 'not reproduced')
    return 1 if bad else 0
