"""C17 — malformed MAL source is rejected, never half-compiled."""
from __future__ import annotations
import json, os, random
from ..common import Result, Violation, run_driver, canon_hash, scratch
from .. import malsrc
from .c04 import gen_spec

ASSUMPTIONS = [
    'a file "conforms to the MAL grammar" iff the unmodified generated ANTLR lexer + parser with counting error listeners report no error for the start rule AND the start rule consumed the whole token stream (next token EOF): mal.g4 writes the start rule without EOF, so the generated parser alone stops silently at the first token that cannot start a declaration; accepting such a file was a defect of the compiler (repaired in e0054c2), not the meaning of "conforms"',
    'the Lean classifier parseSource (lexes completely, parser.mal() leaves no token) rejects exactly the texts MalCompiler.compile raises on (checked here in both directions on every mutant and on the unmutated controls)',
]
TRUSTED = ['Lean 4.33 kernel', 'axioms: propext, Classical.choice, Quot.sound',
           'hand-written model Model/Compiler/{Token,Parser}.lean (tied by this correspondence)',
           'harness/malsrc.py (mutation operators, trailing-input family, ANTLR counting listeners + EOF test)']

def verdicts(files, root, tag):
    """(grammar says erroneous [None: an include is missing], real compiler raised?, result, why)
    why: 'errors' (counting listeners reported >= 1 error) / 'trailing' (no error reported, but the start rule stopped
    in front of the end of the file) / None"""
    from maltoolbox.language.compiler import MalCompiler
    d = os.path.join(scratch(), 'c17-' + tag)
    malsrc.write_files(d, files)
    # the grammar's verdict over the root and every file it includes
    bad, why, seen, todo = False, None, set(), [root]
    while todo:
        f = todo.pop()
        if f in seen: continue
        seen.add(f)
        if not os.path.exists(os.path.join(d, f)): bad = None; break      # missing include: not a grammar question
        n, incs, trailing = malsrc.antlr_errors(os.path.join(d, f))
        if n: bad, why = True, 'errors'; break
        if trailing: bad, why = True, 'trailing'; break
        todo += incs
    comp = MalCompiler()
    try:
        out = comp.compile(os.path.join(d, root)); raised = None
    except RecursionError:
        out, raised = None, 'RecursionError'
    except Exception as e:
        out, raised = None, type(e).__name__
    if raised is not None:
        # the same compiler object asked again must not hand out a specification assembled from what it kept
        try:
            out2 = comp.compile(os.path.join(d, root))
            out, raised = out2, None
        except Exception:
            pass
    return bad, raised, out, why

def gen_cases(seed, tier):
    """[(files, root, victim, family)]: family 'mutant' (token-level mutation of one file), 'control' (unmutated), or
    'trailing:<kind>[:included]' (valid text + input the start rule does not consume, in the root or an included file)"""
    rnd = random.Random(seed)
    n = 400 if tier == 'quick' else 2400
    cases = []
    spec = blks = None
    for i in range(n):
        r = random.Random(rnd.getrandbits(48))
        if i % 40 == 0 or blks is None:
            spec = gen_spec(r); blks = malsrc.blocks(spec)
        if i % 3 == 0:
            files, root = malsrc.split_files(blks, r, True)
            victim = r.choice(sorted(files))
        else:
            files, root = {'m.mal': '\n'.join(blks) + '\n'}, 'm.mal'; victim = 'm.mal'
        files = dict(files)
        if i % 4 == 3:
            # the defect class of e0054c2; every fourth of them preceded by its unmutated control
            if i % 16 == 3: cases.append((dict(files), root, victim, 'control'))
            kind, files[victim] = malsrc.trailing_input(files[victim], r, ['surplus', 'misspelt', 'tokens', 'lexerror'][(i // 4) % 4])
            cases.append((files, root, victim, 'trailing:' + kind + (':included' if victim != root else '')))
        elif i % 10 == 7:
            # an error at the very first token of a file (its first character deleted or replaced): the parser is in
            # its initial state when it meets it, which is where state kept from an earlier failed compile shows
            txt = files[victim].lstrip()
            files[victim] = (txt[1:] if r.random() < 0.5 else r.choice(['}', ')', ',', '->']) + ' ' + txt)
            cases.append((files, root, victim, 'mutant'))
        else:
            files[victim] = malsrc.mutate(files[victim], r)
            cases.append((files, root, victim, 'mutant'))
    return cases

def judge(files, root, victim, family, mo, tag):
    """the violations of one case (mo: the model's answer or None) and what was observed"""
    vs = []
    bad, raised, out, why = verdicts(files, root, tag)
    obs = {'bad': bad, 'why': why, 'raised': raised}
    if bad is None: return vs, obs, out
    rep = {'files': files, 'root': root, 'family': family}
    if family.startswith('trailing') and raised is None:
        vs.append(Violation(what=f'a valid specification followed by input the start rule does not consume ({family}, in {victim}) compiles to a specification '
                                 f'instead of raising: the trailing input is dropped silently', fingerprint='C17:trailing-input-accepted',
                            replay=dict(rep, result=json.dumps(out)[:1500])))
    elif bad and raised is None:
        vs.append(Violation(what=f'source that the grammar rejects ({why}; {family} of {victim}) compiles to a specification instead of raising',
                            fingerprint='C17:half-compiled', replay=dict(rep, result=json.dumps(out)[:1500])))
    elif family.startswith('trailing') and not bad:
        vs.append(Violation(what=f'harness: a {family} case is accepted by ANTLR (no error, next token EOF)', fingerprint='C17:harness-trailing-family',
                            replay=rep, no_failing_input=True))
    elif not bad and raised is not None:
        vs.append(Violation(what=f'a text that conforms to the grammar (no ANTLR error, whole token stream consumed) is rejected by the compiler: {raised}',
                            fingerprint='C17:grammatical-rejected', replay=rep, no_failing_input=True))
    if family == 'control' and (bad or raised is not None):
        vs.append(Violation(what=f'an unmutated generated specification is rejected (grammar: {bad}, compiler: {raised})', fingerprint='C17:control-rejected',
                            replay=rep, no_failing_input=True))
    if mo is not None:
        merr = 'error' in mo
        obs['model_rejects'] = merr
        if merr != bool(bad):
            vs.append(Violation(what=f'Lean classifier and ANTLR (+ EOF test) disagree on whether a text is grammatical (model {"rejects" if merr else "accepts"}, '
                                     f'ANTLR {"rejects: " + str(why) if bad else "accepts"}; {family})',
                                fingerprint='C17:model-divergence', replay=rep, no_failing_input=True))
        elif merr != (raised is not None) and not vs:
            vs.append(Violation(what=f'Lean classifier {"rejects" if merr else "accepts"} a text on which MalCompiler.compile {"raises " + str(raised) if raised else "returns a specification"} ({family})',
                                fingerprint='C17:model-divergence-compiler', replay=rep, no_failing_input=True))
        elif not bad and raised is None and malsrc.canon_spec(mo.get('spec', {})) != malsrc.canon_spec(out):
            vs.append(Violation(what=f'Lean model and implementation compile a valid text differently ({family})', fingerprint='C17:model-divergence-spec',
                                replay=rep, no_failing_input=True))
    return vs, obs, out

def run(seed, tier, lean) -> Result:
    res = Result(rule='valid programs (random specifications printed as MAL, single file or with includes) (1) mutated at token level: deletion, insertion, '
                      'duplication, truncation, swapped brackets, reserved words as names, stray characters / unterminated strings, in the root or in an '
                      'included file; (2) followed by input the start rule does not consume: a surplus }, a misspelt top-level keyword + block, arbitrary '
                      'legal tokens, a lexical error behind a token where the parser stops — in the root or in an included file; (3) unmutated controls. '
                      'Agreement: Lean classifier rejects <=> MalCompiler.compile raises <=> ANTLR with counting listeners reports an error or leaves '
                      'tokens unconsumed; every case of family (2) must be rejected by all three; non-trivial = the text lexes cleanly and is rejected')
    cases = gen_cases(seed, tier)
    model = run_driver([{'op': 'compile', 'case': i, 'files': [[k, v] for k, v in f.items()], 'root': root} for i, (f, root, _, _) in enumerate(cases)]) if lean['build_ok'] else None
    for i, (files, root, victim, family) in enumerate(cases):
        res.evaluations += 1
        mo = model[i].get('model', {}) if model is not None else None
        vs, obs, out = judge(files, root, victim, family, mo, str(i % 8))
        bad = obs['bad']
        if bad is None: res.bump('missing include'); continue
        res.bump(family.split(':included')[0] + (': rejected' if bad else ': still valid'))
        if family.endswith(':included'): res.bump('trailing input in an included file')
        if bad:
            res.bump('grammar verdict: ' + obs['why'])
            d = os.path.join(scratch(), 'c17-lex'); os.makedirs(d, exist_ok=True)
            p = os.path.join(d, 'v.mal'); open(p, 'w', encoding='utf-8').write(files[victim])
            if malsrc.real_tokens(p)[1] == 0: res.nontrivial.add(canon_hash(files))
        res.violations += vs
        if len(res.samples) < 4 and bad and (family != 'mutant' or len(res.samples) < 2):
            res.samples.append({'family': family, 'mutant_of': victim, 'text': files[victim][-300:], 'raised': obs['raised']})
    return res

def replay(path):
    r = json.load(open(path))
    fam = r.get('family', 'mutant')
    bad, raised, out, why = verdicts(r['files'], r['root'], 'replay')
    print('family:', fam, '| grammar rejects:', bad, f'({why})', '| compiler raised:', raised)
    v = (bool(bad) or fam.startswith('trailing')) and raised is None
    if not v and r.get('no_failing_input_found'):
        # a divergence between the parties (no failing input of the property itself): re-judge with the model
        mo = run_driver([{'op': 'compile', 'case': 0, 'files': [[k, x] for k, x in r['files'].items()], 'root': r['root']}])[0].get('model', {})
        vs, obs, _ = judge(r['files'], r['root'], sorted(r['files'])[0], fam, mo, 'replay')
        print('model rejects:', obs.get('model_rejects'))
        v = bool(vs)
    print('VIOLATION reproduced' if v else 'not reproduced'); return 1 if v else 0
