"""C17 — malformed MAL source is rejected, never half-compiled."""
from __future__ import annotations
import json, os, random
from ..common import Result, Violation, run_driver, canon_hash, scratch
from .. import malsrc
from .c04 import gen_spec

ASSUMPTIONS = [
    'the classifier of "does not conform to the grammar" is the unmodified generated ANTLR lexer + parser with counting error listeners (as the property states); the start rule has no EOF, so trailing text after the last declaration is not an error of the grammar',
    'the Lean recursive-descent parser accepts exactly the token sequences of mal.g4 (checked here against ANTLR on every mutant)',
]
TRUSTED = ['Lean 4.33 kernel', 'axioms: propext, Classical.choice, Quot.sound',
           'hand-written model Model/Compiler/{Token,Parser}.lean (tied by this correspondence)',
           'harness/malsrc.py (mutation operators, ANTLR counting listeners)']

def verdicts(files, root, tag):
    """(grammar says erroneous, real compiler raised?, result)"""
    from maltoolbox.language.compiler import MalCompiler
    d = os.path.join(scratch(), 'c17-' + tag)
    malsrc.write_files(d, files)
    # the grammar's verdict over the root and every file it includes
    bad, seen, todo = False, set(), [root]
    while todo:
        f = todo.pop()
        if f in seen: continue
        seen.add(f)
        if not os.path.exists(os.path.join(d, f)): bad = None; break      # missing include: not a grammar question
        n, incs = malsrc.antlr_errors(os.path.join(d, f))
        if n: bad = True; break
        todo += incs
    comp = MalCompiler()
    try:
        out = comp.compile(os.path.join(d, root)); raised = None
    except RecursionError:
        out, raised = None, 'RecursionError'
    except Exception as e:
        out, raised = None, type(e).__name__
    if raised is not None:
        # the same compiler object asked again must not hand out a specification assembled from what it kept
        try:
            out2 = comp.compile(os.path.join(d, root))
            out, raised = out2, None
        except Exception:
            pass
    return bad, raised, out

def run(seed, tier, lean) -> Result:
    rnd = random.Random(seed)
    res = Result(rule='valid programs (random specifications printed as MAL, single file or with includes) mutated at token level: deletion, insertion, '
                      'duplication, truncation, swapped brackets, reserved words as names, stray characters / unterminated strings, in the root or in an '
                      'included file; three-way agreement: Lean parser errors <=> ANTLR with counting listeners reports >= 1 error => the real compiler '
                      'raises; non-trivial = the mutant lexes cleanly but is rejected by the grammar')
    n = 400 if tier == 'quick' else 2400
    cases = []
    for i in range(n):
        r = random.Random(rnd.getrandbits(48))
        if i % 40 == 0 or not cases:
            spec = gen_spec(r); blks = malsrc.blocks(spec)
        if i % 3 == 0:
            files, root = malsrc.split_files(blks, r, True)
            victim = r.choice(sorted(files))
        else:
            files, root = {'m.mal': '\n'.join(blks) + '\n'}, 'm.mal'; victim = 'm.mal'
        files = dict(files); files[victim] = malsrc.mutate(files[victim], r)
        cases.append((files, root, victim))
    model = run_driver([{'op': 'compile', 'case': i, 'files': [[k, v] for k, v in f.items()], 'root': root} for i, (f, root, _) in enumerate(cases)]) if lean['build_ok'] else None
    for i, (files, root, victim) in enumerate(cases):
        res.evaluations += 1
        bad, raised, out = verdicts(files, root, str(i % 8))
        if bad is None: res.bump('missing include'); continue
        res.bump('grammar: erroneous' if bad else 'grammar: still valid')
        if bad:
            d = os.path.join(scratch(), 'c17-lex'); os.makedirs(d, exist_ok=True)
            p = os.path.join(d, 'v.mal'); open(p, 'w', encoding='utf-8').write(files[victim])
            if malsrc.real_tokens(p)[1] == 0: res.nontrivial.add(canon_hash(files))
        if bad and raised is None:
            res.violations.append(Violation(what=f'source that the grammar rejects (mutated {victim}) compiles to a specification instead of raising',
                                            fingerprint='C17:half-compiled', replay={'files': files, 'root': root, 'result': json.dumps(out)[:1500]}))
            continue
        if model is not None:
            mo = model[i].get('model', {})
            merr = 'error' in mo
            if merr != bool(bad):
                res.violations.append(Violation(what=f'Lean parser and ANTLR disagree on whether a mutant is grammatical (model {"rejects" if merr else "accepts"}, ANTLR {"rejects" if bad else "accepts"})',
                                                fingerprint='C17:model-divergence', replay={'files': files, 'root': root}, no_failing_input=True))
            elif not bad and raised is None and malsrc.canon_spec(mo.get('spec', {})) != malsrc.canon_spec(out):
                res.violations.append(Violation(what='Lean model and implementation compile a still-valid mutant differently', fingerprint='C17:model-divergence-spec',
                                                replay={'files': files, 'root': root}, no_failing_input=True))
        if len(res.samples) < 3 and bad: res.samples.append({'mutant_of': victim, 'text': files[victim][:300], 'raised': raised})
    return res

def replay(path):
    r = json.load(open(path))
    bad, raised, out = verdicts(r['files'], r['root'], 'replay')
    print('grammar rejects:', bad, 'compiler raised:', raised)
    v = bool(bad) and raised is None
    print('VIOLATION reproduced' if v else 'not reproduced'); return 1 if v else 0
