"""C03 — step inheritance resolves override/extend correctly and the lookup is pure."""
from __future__ import annotations
import copy, json, random
from ..common import Result, Violation, run_driver, canon_hash
from ..langgen import LangGen, chain_language, gen_model, lang_payload, inst_payload, build_lang, build_model, jtxt
from ..genrun import Ref
from .. import genexec

ASSUMPTIONS = ['languages well-formed (acyclic single inheritance; a redefinition keeps the step type)',
               'object identity (aliasing between the answer and the loaded specification) is observed with id() on the real objects; '
               'in Lean it is modelled by store locations (Model/InheritH.lean)']
TRUSTED = ['Lean 4.33 kernel', 'axioms: propext, Classical.choice, Quot.sound',
           'hand-written model Model/Inherit.lean (+ InheritH.lean store model) tied by this correspondence',
           'harness/langgen.py, harness/genrun.py (generators, reference fold)']

def canon_steps(d):
    """answer of _get_attacks_for_asset_type as ordered list of (name, canonical decl)"""
    out = []
    for k, s in d.items():
        out.append([k, {'name': s['name'], 'type': s['type'], 'tags': list(s.get('tags') or []), 'ttc': jtxt(s.get('ttc')),
                        'meta': jtxt(s.get('meta', {})), 'risk': jtxt(s.get('risk')),
                        'requires': s['requires']['stepExpressions'] if s.get('requires') else None,
                        'reaches': {'overrides': bool(s['reaches']['overrides']), 'exprs': s['reaches']['stepExpressions']} if s.get('reaches') else None}])
    return out

def containers(x, acc):
    if isinstance(x, (list, dict)):
        acc.add(id(x))
        for v in (x.values() if isinstance(x, dict) else x): containers(v, acc)
    return acc

def check_case(spec, inst, mo, rnd, res=None, broken_first='draw', gen=None):
    from maltoolbox.language import LanguageGraph, LanguageClassesFactory
    from maltoolbox.attackgraph import AttackGraph
    if broken_first == 'draw':
        broken_first = [rnd.randrange(len(spec['assets'])), rnd.random() < 0.7] if (rnd.random() < 0.4 and spec['assets']) else None
    if broken_first:
        # a failed construction first: a broken copy of the specification (one asset without its attack steps, or
        # with an unknown super asset) makes the resolver raise half-way through a fold; whatever that call left
        # behind (on the class, in a default argument, in a module) must not change any later answer
        broken = copy.deepcopy(spec)
        victim = broken['assets'][broken_first[0]]
        if broken_first[1]: victim.pop('attackSteps', None)
        else: victim['superAsset'] = 'NoSuchAsset'
        try: LanguageGraph(broken)
        except Exception: pass
    try:
        lg = LanguageGraph(copy.deepcopy(spec))
    except Exception as e:
        # the language graph asks for the steps of every type while it is built: a resolver that corrupts the
        # specification makes a later type unresolvable
        return Violation(what=f'building the language graph of a well-formed language raises {type(e).__name__}',
                         fingerprint='C03:language-graph-raises', replay={'spec': spec, 'inst': inst, 'error': str(e)[:300]})
    snapshot = copy.deepcopy(lg._lang_spec)
    spec_containers = containers(lg._lang_spec, set())
    ref = Ref(spec, inst)
    types = [a['name'] for a in spec['assets']]
    want = {t: canon_steps(ref.fold_steps(t)) for t in types}
    probs = []
    def ask_all(tag):
        order = types * 3
        rnd.shuffle(order)
        for t in order:
            ans = lg._get_attacks_for_asset_type(t)
            if canon_steps(ans) != want[t]:
                probs.append(f'steps of {t} differ from the root-down fold ({tag})'); return
            # early warning only (not a violation by itself): expression *lists* of the answer that are
            # objects of the specification would be written by a later '+>' lookup
            for s in ans.values():
                for key in ('reaches', 'requires'):
                    if s.get(key) and id(s[key]['stepExpressions']) in spec_containers and res is not None:
                        res.bump('answer_shares_expression_list_with_spec')
    def exposed(tag):
        # what the language graph itself records as the steps of each asset (its step nodes) is the same fold
        for a in lg.assets:
            got = [st.name for st in a.attack_steps]
            if a.name in want and sorted(got) != sorted(k for k, _ in want[a.name]):
                probs.append(f'step nodes of {a.name} in the language graph differ from the root-down fold ({tag})'); return
    ask_all('first queries')
    if not probs: exposed('after construction')
    if not probs and lg._lang_spec != snapshot: probs.append('language specification modified by step lookups')
    if not probs:
        lg.regenerate_graph()
        fac = LanguageClassesFactory(lg)
        try:
            m, _ = build_model(fac, inst)
            AttackGraph(lg, m); g = AttackGraph(lg, m)
        except Exception as e:
            g = None
            if res: res.notes.append('graph generation failed in C03 case: ' + type(e).__name__)
        if g is not None:
            # what the attack graph exposes for an asset is the same fold (a resolver of its own, or a cache keyed by
            # something several specifications share - generated languages all carry one id and version - shows here)
            for a in m.assets:
                got = {n.name: n.attributes for n in g.nodes if n.asset is a}
                if all(isinstance(v, dict) for v in got.values()) and canon_steps(got) != want[str(a.type)]:
                    probs.append(f'attack steps of {a.type} exposed by the attack graph differ from the root-down fold'); break
        if g is not None and not probs:
            # a second release of the language (same assets and associations; redefinitions flipped between '->' and
            # '+>', one more tag on every step) loaded next to the first: an attack graph built from IT for the model
            # whose classes came from the first exposes the fold of the second - whichever language graph the
            # model's classes were generated from
            spec2 = second_release(spec)
            try:
                g2 = AttackGraph(LanguageGraph(copy.deepcopy(spec2)), m)
            except Exception as e:
                g2 = None
                if res: res.notes.append('graph generation for the second release failed in C03 case: ' + type(e).__name__)
            if g2 is not None:
                ref2 = Ref(spec2, inst)
                for a in m.assets:
                    got = {n.name: n.attributes for n in g2.nodes if n.asset is a}
                    if all(isinstance(v, dict) for v in got.values()) and canon_steps(got) != canon_steps(ref2.fold_steps(str(a.type))):
                        probs.append(f'attack steps of {a.type} exposed by an attack graph built from a second release of the language differ from the root-down fold of that release'); break
                if res is not None: res.bump('second_release_graphs')
        ask_all('after regenerating the language graph and building two attack graphs')
        if not probs: exposed('after regenerating the language graph')
        if not probs and lg._lang_spec != snapshot: probs.append('language specification modified by graph generation')
    if probs:
        return Violation(what=probs[0], fingerprint='C03:' + probs[0].split(' (')[0][:60].replace(next((t for t in types if f' {t} ' in probs[0]), '#'), 'T'),
                         replay={'spec': spec, 'inst': inst, 'problems': probs, 'broken_first': broken_first})
    if mo is not None:
        got = {t: m for t, m in zip(types, mo)}
        for t in types:
            if [[k, d] for k, d in got[t]] != want[t]:
                return Violation(what=f'Lean model and implementation disagree on the steps of {t}', fingerprint='C03:model-divergence',
                                 replay={'spec': spec, 'type': t, 'model': got[t], 'impl': want[t]}, no_failing_input=True)
    if gen is not None:
        return gen_check(spec, lg, gen[0], gen[1], res)
    return None

def second_release(spec):
    """the same language with every redefinition of an inherited step flipped between '->' and '+>' and a tag added to
    every step (well-formed whenever `spec` is)"""
    s2 = copy.deepcopy(spec)
    by = {a['name']: a for a in s2['assets']}
    def inherited(a):
        out, t = set(), a['superAsset']
        while t: out |= {st['name'] for st in by[t]['attackSteps']}; t = by[t]['superAsset']
        return out
    for a in s2['assets']:
        inh = inherited(a)
        for st in a['attackSteps']:
            st['tags'] = list(st.get('tags') or []) + ['r2']
            if st.get('reaches') and st['name'] in inh: st['reaches']['overrides'] = not st['reaches']['overrides']
    return s2

def gen_queries(spec, k):
    """the lookups asked of the generated code: every type twice, in an order drawn from the case number"""
    q = [a['name'] for a in spec['assets']] * 2
    random.Random(k).shuffle(q)
    return q

def gen_check(spec, lg, queries, go, res=None):
    """third column: the translated `_get_attacks_for_asset_type` (Py/GenLang/Attacks.lean) was run by the driver on ONE heap
    holding the specification, query after query; the real resolver is asked the same queries of a fresh copy of the
    specification.  Compared: every answer (order included), and whether the specification is unchanged afterwards."""
    if not go.get('loadedIsInput'):
        return genexec.divergence('C03', 'load', 'on the specification read back from the freshly loaded heap', {'spec': spec})
    lg._lang_spec = copy.deepcopy(spec)
    snapshot = copy.deepcopy(lg._lang_spec)
    for k, (t, ga) in enumerate(zip(queries, go['answers'])):
        try: ia = canon_steps(lg._get_attacks_for_asset_type(t))
        except Exception as e: ia = {'error': type(e).__name__}
        if res is not None: res.bump('generated_code_lookups_compared')
        same = (isinstance(ia, dict) and isinstance(ga, dict)) or (isinstance(ga, list) and [[n, d] for n, d in ga] == ia)
        if not same:
            return genexec.divergence('C03', '_get_attacks_for_asset_type', f'on the steps of {t} (query {k} of {queries})',
                                      {'spec': spec, 'queries': queries[:k + 1], 'impl': ia, 'generated': ga})
    if (lg._lang_spec == snapshot) != bool(go.get('specUnchanged')):
        return genexec.divergence('C03', 'spec-unchanged', 'on whether the lookups left the specification unchanged',
                                  {'spec': spec, 'queries': queries, 'impl_unchanged': lg._lang_spec == snapshot,
                                   'generated_unchanged': go.get('specUnchanged')})
    return None

def depth_and_redefs(spec):
    by = {a['name']: a for a in spec['assets']}
    best = 0
    for a in spec['assets']:
        chain = []
        t = a['name']
        while t: chain.append(t); t = by[t]['superAsset']
        if len(chain) >= 3:
            names = [s['name'] for u in chain for s in by[u]['attackSteps']]
            if any(names.count(x) >= 2 for x in names): best = max(best, len(chain))
    return best

def run(seed, tier, lean) -> Result:
    rnd = random.Random(seed)
    res = Result(rule='random languages with inheritance chains up to depth 6 and a mix of absent / -> / +> redefinitions at every level '
                      '(including parents without reaches clause); every asset type is asked three times in shuffled order, before and '
                      'after regenerating the language graph, building the classes and two attack graphs; answers compared with an '
                      'independent root-down fold and with the Lean model, the specification with a snapshot, and object identity of every '
                      'list/dict in the answers against the specification; non-trivial = a chain of depth >= 3 with a step redefined at >= 2 levels')
    n = 400 if tier == 'quick' else 2400
    cases = []
    for i in range(n):
        r = random.Random(rnd.getrandbits(48))
        spec = chain_language(r) if i % 2 else LangGen(r, n_assets=r.randint(3, 7), knobs={'redefine': 0.8}).gen()
        cases.append((spec, gen_model(r, spec), r))
    model = gen = None
    if lean['build_ok']:
        model, gen = genexec.run_both([{'op': 'resolve', 'case': i, 'lang': lang_payload(s), 'types': [a['name'] for a in s['assets']]}
                                       for i, (s, m, r) in enumerate(cases)], 'gen_resolve',
                                      rewrite=lambda q: dict(q, types=gen_queries(cases[q['case']][0], q['case'])))
    for i, (spec, inst, r) in enumerate(cases):
        res.evaluations += 1
        mo = model[i].get('model') if model is not None else None
        go = None
        if gen is not None and mo is not None:
            if 'error' in gen[i]:
                res.violations.append(genexec.driver_error('C03', gen[i]['error'], {'spec': spec}))
            else:
                go = (gen_queries(spec, i), gen[i]['model'])
        from ..common import guarded
        done, v = guarded(res, check_case, spec, inst, mo, r, res, gen=go)
        if not done: continue
        if depth_and_redefs(spec): res.nontrivial.add(canon_hash(spec)); res.bump('depth>=3 with redefinition')
        for a in spec['assets']:
            for s in a['attackSteps']:
                res.bump('reaches:' + ('none' if not s.get('reaches') else ('->' if s['reaches']['overrides'] else '+>')))
        if v: res.violations.append(v)
        if len(res.samples) < 2 and mo: res.samples.append({'types': [a['name'] for a in spec['assets']], 'parents': [a['superAsset'] for a in spec['assets']], 'steps_of_last_type': mo[-1][:3]})
    if not res.samples: res.samples.append({'types': [a['name'] for a in cases[0][0]['assets']]})
    return res

def replay(path):
    r = json.load(open(path))
    v = check_case(r['spec'], r.get('inst') or {'assets': [], 'links': []}, None, random.Random(0), broken_first=r.get('broken_first'))
    print(v.what if v else 'no violation'); print('VIOLATION reproduced' if v else 'not reproduced')
    return 1 if v else 0
