"""C08 — viability/necessity = greatest fixed point, in any node order.
Correspondence: real `calculate_viability_and_necessity` vs the Lean model
`AGraph.calcViab/calcNec` (proved to be the gfp in Props/C08.lean)."""
from __future__ import annotations
import itertools, json, random
from ..common import Result, Violation, run_driver, canon_hash
from ..agbuild import build_graph, gate_of, TTC_KINDS

ASSUMPTIONS = [
    'graphs given to the analysis have converse children/parents lists (C09 invariant) and fresh labels (True, True)',
    'CPython recursion limit not modelled (a propagation chain of ~1000 nodes raises RecursionError)',
    'float comparisons == 1.0 / != 0.0 on defense_status are computed by the harness on the real float',
]
TRUSTED = ['Lean 4.33 kernel', 'axioms: propext, Classical.choice, Quot.sound',
           'hand-written model Model/Apriori.lean + Model/AGraph.lean (tied by this correspondence)',
           'harness/agbuild.py (graph construction), harness/props/c08.py (generators, comparison)']

STATUS_NODES = ('defense', 'exist', 'notExist')

def payload(nodes, case):
    out = []
    for n in nodes:
        d = n.get('def')
        out.append({'type': n['type'], 'children': n['children'], 'parents': n['parents'],
                    'defOne': d == 1.0 if d is not None else False,
                    'defZero': d == 0.0 if d is not None else True,
                    'exist': bool(n.get('exist')), 'gate': gate_of(n.get('ttc', 'none'))})
    return {'op': 'apriori', 'case': case, 'nodes': out, 'order': list(range(len(nodes)))}

def impl(nodes):
    from maltoolbox.attackgraph.analyzers.apriori import calculate_viability_and_necessity
    g, objs = build_graph(nodes)
    try:
        calculate_viability_and_necessity(g)
    except RecursionError:
        return {'error': 'Recursion'}
    return {'viable': [o.is_viable for o in objs], 'necessary': [o.is_necessary for o in objs]}

def rerun_problem(nodes, rnd):
    """analysing the same graph object again: after a complete run, and after a run that stopped half-way on the
    AssertionError of an invalid defense status which the caller then repaired (Props/C08.lean: rerun_is_fresh_run)"""
    from maltoolbox.attackgraph.analyzers.apriori import calculate_viability_and_necessity
    orc = oracle(nodes)
    g, objs = build_graph(nodes)
    labels = lambda: {'viable': [o.is_viable for o in objs], 'necessary': [o.is_necessary for o in objs]}
    defs = [i for i, n in enumerate(nodes) if n['type'] == 'defense']
    aborted = False
    if defs and rnd.random() < 0.7:
        k = rnd.choice(defs); good = objs[k].defense_status
        objs[k].defense_status = rnd.choice([50.0, -1.0, None])
        try:
            calculate_viability_and_necessity(g)
        except (AssertionError, TypeError):
            aborted = True
        except RecursionError:
            return None, False
        objs[k].defense_status = good
    try:
        calculate_viability_and_necessity(g)
        first = labels()
        calculate_viability_and_necessity(g)
    except RecursionError:
        return None, aborted
    if any(first[k] != orc[k] for k in ('viable', 'necessary')):
        return ('after an aborted run and its repair, ' if aborted else '') + 'analysing the graph again does not give the greatest fixed point', aborted
    if labels() != first:
        return 'a second run of the analysis changes the labels', aborted
    return None, aborted

def oracle(nodes):
    """independent reference: greatest fixed point by Kleene iteration from top"""
    n = len(nodes)
    def const(i, which):
        t = nodes[i]['type']; d = nodes[i].get('def'); e = nodes[i].get('exist')
        if which == 'v':
            return {'defense': d != 1.0, 'exist': bool(e), 'notExist': not e}[t]
        return {'defense': d != 0.0, 'exist': not e, 'notExist': bool(e)}[t]
    res = {}
    for which in 'vn':
        v = [True] * n
        for _ in range(n + 2):
            w = []
            for i, nd in enumerate(nodes):
                t = nd['type']
                if t in STATUS_NODES:
                    w.append(const(i, which)); continue
                ps = nd['parents']
                if which == 'v':
                    eff = [v[p] for p in ps]
                    w.append(True if not ps else (any(eff) if t == 'or' else all(eff)))
                else:
                    eff = [gate_of(nodes[p].get('ttc', 'none')) or v[p] for p in ps]
                    w.append(True if not ps else (all(eff) if t == 'or' else any(eff)))
            if w == v: break
            v = w
        res['viable' if which == 'v' else 'necessary'] = v
    return res

def mk_nodes(types, edges, defs, exists, ttcs, rnd=None):
    """edges: list of (parent, child) pairs with multiplicity; list orders optionally shuffled"""
    n = len(types)
    nodes = [{'type': types[i], 'children': [], 'parents': [], 'ttc': ttcs[i]} for i in range(n)]
    for i in range(n):
        if types[i] == 'defense': nodes[i]['def'] = defs[i]
        if types[i] in ('exist', 'notExist'): nodes[i]['exist'] = exists[i]
    for (p, c) in edges:
        nodes[p]['children'].append(c); nodes[c]['parents'].append(p)
    if rnd:
        for nd in nodes:
            rnd.shuffle(nd['children']); rnd.shuffle(nd['parents'])
    return nodes

def permute(nodes, perm, rnd):
    """storage permutation: new position k holds old node perm[k]"""
    inv = {old: new for new, old in enumerate(perm)}
    out = []
    for old in perm:
        nd = dict(nodes[old])
        nd['children'] = [inv[c] for c in nd['children']]; nd['parents'] = [inv[p] for p in nd['parents']]
        rnd.shuffle(nd['children']); rnd.shuffle(nd['parents'])
        out.append(nd)
    return out, inv

VARIANTS_FULL = [('or', None, None), ('and', None, None), ('defense', 0.0, None), ('defense', 0.5, None),
                 ('defense', 1.0, None), ('exist', None, True), ('exist', None, False),
                 ('notExist', None, True), ('notExist', None, False)]

def exhaustive(n, variants, ttc_choices):
    pairs = [(p, c) for p in range(n) for c in range(n)]
    for combo in itertools.product(variants, repeat=n):
        for ttcs in itertools.product(ttc_choices, repeat=n):
            for mask in range(1 << len(pairs)):
                edges = [pairs[k] for k in range(len(pairs)) if mask >> k & 1]
                yield mk_nodes([c[0] for c in combo], edges, [c[1] for c in combo], [c[2] for c in combo], list(ttcs))

def random_graph(rnd, nmax):
    n = rnd.randint(2, nmax)
    types, defs, exists, ttcs = [], [], [], []
    for _ in range(n):
        t = rnd.choices(['or', 'and', 'defense', 'exist', 'notExist'], [4, 4, 2, 1, 1])[0]
        types.append(t); defs.append(rnd.choice([0.0, 0.5, 1.0, 1.0])); exists.append(rnd.random() < 0.5)
        ttcs.append(rnd.choices(['none', 'enabled', 'disabled', 'dist', 'composite'], [4, 1, 1, 3, 1])[0])
    edges = []
    dens = rnd.choice([0.5, 1.0, 1.5, 2.5]) / n
    for p in range(n):
        for c in range(n):
            if rnd.random() < dens and types[c] in ('or', 'and'):
                edges.append((p, c))
                if rnd.random() < 0.05: edges.append((p, c))
    return mk_nodes(types, edges, defs, exists, ttcs, rnd)

def compare(nodes, im, mo):
    """property observables: the two label vectors"""
    diffs = []
    if 'error' in im: return [('error', im['error'])]
    for k in ('viable', 'necessary'):
        for i, (a, b) in enumerate(zip(im[k], mo[k])):
            if a != b: diffs.append((k, i, a, b))
    return diffs

def shrink(nodes, failing):
    """greedy: drop nodes, then edges, while `failing(nodes)` stays true"""
    changed = True
    while changed:
        changed = False
        for i in range(len(nodes)):
            cand = []
            for j, nd in enumerate(nodes):
                if j == i: continue
                m = dict(nd)
                m['children'] = [c - (c > i) for c in nd['children'] if c != i]
                m['parents'] = [p - (p > i) for p in nd['parents'] if p != i]
                cand.append(m)
            if cand and failing(cand):
                nodes = cand; changed = True; break
        if changed: continue
        for i, nd in enumerate(nodes):
            for k, c in enumerate(nd['children']):
                cand = [dict(x, children=list(x['children']), parents=list(x['parents'])) for x in nodes]
                del cand[i]['children'][k]; cand[c]['parents'].remove(i)
                if failing(cand):
                    nodes = cand; changed = True; break
            if changed: break
    return nodes

def fingerprint(nodes, im, orc):
    return 'C08:labels-not-gfp'

def run(seed, tier, lean) -> Result:
    rnd = random.Random(seed)
    res = Result(rule='graphs: exhaustive small (all types x edge sets incl. self-loops x statuses x TTC kinds) '
                      '+ random <= 40 nodes, each under storage permutations; non-trivial = some label differs '
                      'from the default (True, True); distinct by canonical hash of the node list')
    cases = []
    if tier == 'quick':
        cases += list(exhaustive(1, VARIANTS_FULL, ['none', 'dist']))
        cases += list(exhaustive(2, VARIANTS_FULL, ['none', 'dist']))
        nrand, nmax, nperm = 1500, 12, 2
    else:
        cases += list(exhaustive(1, VARIANTS_FULL, list(TTC_KINDS)))
        cases += list(exhaustive(2, VARIANTS_FULL, list(TTC_KINDS)))
        red = [('or', None, None), ('and', None, None), ('defense', 1.0, None), ('exist', None, True)]
        cases += list(exhaustive(3, red, ['none', 'dist']))
        nrand, nmax, nperm = 4000, 30, 3
    nex = len(cases)
    for _ in range(nrand):
        cases.append(random_graph(rnd, nmax))
    res.bump('exhaustive_small', nex); res.bump('random', nrand)
    # permutations of storage order
    perm_of = {}
    base_n = len(cases)
    for b in range(nex // 7, base_n, 1 if tier == 'thorough' and False else 1):
        if b < nex and b % 5: continue
        nodes = cases[b]
        if len(nodes) < 2: continue
        for _ in range(nperm):
            perm = list(range(len(nodes))); rnd.shuffle(perm)
            pn, inv = permute(nodes, perm, rnd)
            perm_of[len(cases)] = (b, perm); cases.append(pn)
    res.bump('permuted', len(cases) - base_n)
    have_driver = lean['build_ok']
    model = run_driver([payload(n, i) for i, n in enumerate(cases)]) if have_driver else None
    impl_out = []
    for i, nodes in enumerate(cases):
        im = impl(nodes); impl_out.append(im)
        res.evaluations += 1
        mo = model[i]['model'] if model else oracle(nodes)
        if 'error' not in im and (not all(im['viable']) or not all(im['necessary'])):
            res.nontrivial.add(canon_hash(nodes))
        if any(c in nodes[p]['children'] for p in range(len(nodes)) for c in [p]): res.bump('self_loop')
        if any(gate_of(n.get('ttc', 'none')) for n in nodes): res.bump('gated')
        d = compare(nodes, im, mo)
        if d:
            def failing(ns):
                i2 = impl(ns); return 'error' in i2 or any(i2[k] != oracle(ns)[k] for k in ('viable', 'necessary'))
            orc = oracle(nodes)
            if failing(nodes):
                small = shrink(nodes, failing)
                res.violations.append(Violation(
                    what=f'labels differ from the greatest fixed point ({len(small)}-node graph)',
                    fingerprint=fingerprint(small, None, None),
                    replay={'nodes': small, 'impl': impl(small), 'gfp': oracle(small), 'original_case': nodes}))
            else:
                res.violations.append(Violation(
                    what='implementation and Lean model disagree but the reference oracle sees a gfp',
                    fingerprint='C08:model-divergence', replay={'nodes': nodes, 'impl': im, 'model': mo, 'gfp': orc},
                    no_failing_input=True))
        if i in perm_of:
            b, perm = perm_of[i]
            bi = impl_out[b]
            if 'error' not in im and 'error' not in bi:
                for k in ('viable', 'necessary'):
                    if [im[k][new] for new in range(len(perm))] != [bi[k][old] for old in perm]:
                        res.violations.append(Violation(
                            what='labels depend on the storage order of the nodes',
                            fingerprint='C08:order-dependent',
                            replay={'nodes': cases[b], 'permuted': nodes, 'perm': perm, 'impl_base': bi, 'impl_perm': im}))
                        break
        if len(res.samples) < 3 and len(nodes) >= 3 and 'error' not in im and not all(im['viable']):
            res.samples.append({'nodes': nodes, 'impl': im, 'model': mo})
    # re-runs on the same graph object (oracle only)
    r2 = random.Random(seed ^ 0xC08)
    for _ in range(600 if tier == 'quick' else 3600):
        nodes = random_graph(r2, 8)
        rs = r2.getrandbits(32)
        bad, aborted = rerun_problem(nodes, random.Random(rs))
        res.evaluations += 1; res.bump('rerun_after_abort' if aborted else 'rerun')
        if bad:
            def failing(ns):
                try: return rerun_problem(ns, random.Random(rs))[0] is not None
                except Exception: return False
            small = shrink(nodes, failing)
            res.violations.append(Violation(what=bad, fingerprint='C08:rerun:' + bad[:40], replay={'rerun_nodes': small, 'rerun_seed': rs, 'problem': bad}))
            break
    if not res.samples:
        res.samples.append({'nodes': cases[-1], 'impl': impl_out[-1]})
    return res

def replay(path):
    r = json.load(open(path))
    if 'rerun_nodes' in r:
        bad, _ = rerun_problem(r['rerun_nodes'], random.Random(r['rerun_seed'])); print(bad)
        print('VIOLATION reproduced' if bad else 'not reproduced'); return 1 if bad else 0
    nodes = r['nodes']
    im, orc = impl(nodes), oracle(nodes)
    print('impl  ', im); print('gfp   ', orc)
    bad = 'error' in im or any(im[k] != orc[k] for k in ('viable', 'necessary'))
    print('VIOLATION reproduced' if bad else 'not reproduced')
    return 1 if bad else 0
