"""C08 — viability/necessity = greatest fixed point, in any node order, from any labels.
Correspondence: real `calculate_viability_and_necessity` vs the Lean model
`AGraph.calcViabFrom/calcNecFrom` (proved to be the gfp in Props/C08.lean) vs an independent gfp oracle."""
from __future__ import annotations
import copy, itertools, json, random, sys
from ..common import Result, Violation, run_driver, canon_hash
from .. import genexec
from ..agbuild import build_graph, gate_of, ttc_fields, opposite_kind, TTC_KINDS, DIST_KINDS, PLAIN_KINDS

ASSUMPTIONS = [
    'graphs given to the analysis have converse children/parents lists (C09 invariant); their is_viable / is_necessary labels are arbitrary',
    'CPython recursion limit not modelled: the Lean functions take fuel |nodes|+1, proved sufficient; the real propagation is recursive and a chain of ~1000 steps raises RecursionError (known finding KF-C08-1, replayed on every run)',
    'float comparisons == 1.0 / != 0.0 on defense_status are computed by the harness on the real float',
]
TRUSTED = ['Lean 4.33 kernel', 'axioms: propext, Classical.choice, Quot.sound',
           'hand-written model Model/Apriori.lean + Model/AGraph.lean (tied by this correspondence)',
           'harness/agbuild.py (graph construction), harness/props/c08.py (generators, comparison)']

STATUS_NODES = ('defense', 'exist', 'notExist')

def payload(nodes, case, labels0=None):
    """`labels0` = (viable, necessary) lists: the labels the nodes carry when the analysis is called"""
    out = []
    for n in nodes:
        d = n.get('def')
        out.append({'type': n['type'], 'children': n['children'], 'parents': n['parents'],
                    'defOne': d == 1.0 if d is not None else False,
                    'defZero': d == 0.0 if d is not None else True,
                    'exist': bool(n.get('exist')), **ttc_fields(n.get('ttc', 'none'))})
    p = {'op': 'apriori', 'case': case, 'nodes': out, 'order': list(range(len(nodes)))}
    if labels0 is not None:
        p['viable0'] = [bool(x) for x in labels0[0]]; p['necessary0'] = [bool(x) for x in labels0[1]]
    return p

def labels0_of(nodes):
    """labels pre-set in the node descriptions ('viable' / 'necessary' keys; build_graph applies them)"""
    if not any('viable' in n or 'necessary' in n for n in nodes):
        return None
    return [n.get('viable', True) for n in nodes], [n.get('necessary', True) for n in nodes]

def impl(nodes):
    from maltoolbox.attackgraph.analyzers.apriori import calculate_viability_and_necessity
    g, objs = build_graph(nodes)
    try:
        calculate_viability_and_necessity(g)
    except RecursionError:
        return {'error': 'Recursion'}
    return {'viable': [o.is_viable for o in objs], 'necessary': [o.is_necessary for o in objs]}

# ---------------------------------------------------------------- histories on one graph object
# A history is a list of steps applied to ONE graph object built from `nodes`:
#   ['calc']                        calculate_viability_and_necessity(graph); the gfp oracle must hold afterwards
#   ['def', i, x] / ['exist', i, b] change a defense / existence status (both directions)
#   ['ttc', i, kind]                assign node.ttc (distribution <-> none / Enabled / composite ...)
#   ['labels', [..], [..]]          overwrite is_viable / is_necessary of every node (as if loaded from a file)
#   ['evaluate', i]                 public evaluate_viability_and_necessity(node)
#   ['propv', i] / ['propn', i]     public propagate_viability_from_node / propagate_necessity_from_node
#   ['abort', i, bad]               give defense i an invalid status, run calc (must raise), restore the status
def apply_history(nodes, steps):
    """run the history on the real code.  Returns (problem | None, calls) where calls = one record per
    completed `calc`: (nodes as they were at the call, labels before, labels after)."""
    from maltoolbox.attackgraph.analyzers import apriori
    cur = copy.deepcopy(nodes)
    g, objs = build_graph(cur)
    labels = lambda: ([o.is_viable for o in objs], [o.is_necessary for o in objs])
    calls = []
    for k, st in enumerate(steps):
        op = st[0]
        try:
            if op == 'calc':
                before = labels()
                apriori.calculate_viability_and_necessity(g)
                after = labels()
                snap = copy.deepcopy(cur)
                calls.append((snap, before, after))
                orc = oracle(snap)
                if list(after[0]) != orc['viable'] or list(after[1]) != orc['necessary']:
                    return (f'after step {k} (analysis no. {len(calls)} of the same graph object) the labels are not '
                            f'the greatest fixed point of the current graph'), calls
            elif op == 'def':
                objs[st[1]].defense_status = st[2]; cur[st[1]]['def'] = st[2]
            elif op == 'exist':
                objs[st[1]].existence_status = st[2]; cur[st[1]]['exist'] = st[2]
            elif op == 'ttc':
                objs[st[1]].ttc = copy.deepcopy(TTC_KINDS[st[2]]); cur[st[1]]['ttc'] = st[2]
            elif op == 'labels':
                for o, v, n in zip(objs, st[1], st[2]):
                    o.is_viable = v; o.is_necessary = n
            elif op == 'evaluate':
                apriori.evaluate_viability_and_necessity(objs[st[1]])
            elif op == 'propv':
                apriori.propagate_viability_from_node(objs[st[1]])
            elif op == 'propn':
                apriori.propagate_necessity_from_node(objs[st[1]])
            elif op == 'abort':
                good = objs[st[1]].defense_status
                objs[st[1]].defense_status = st[2]
                try:
                    apriori.calculate_viability_and_necessity(g)
                    objs[st[1]].defense_status = good
                    return f'step {k}: the analysis accepted the invalid defense status {st[2]!r}', calls
                except (AssertionError, TypeError):
                    pass
                objs[st[1]].defense_status = good
        except RecursionError:
            return None, calls
    return None, calls

def random_history(rnd, nodes):
    n = len(nodes)
    stat = [i for i, nd in enumerate(nodes) if nd['type'] in STATUS_NODES]
    defs = [i for i, nd in enumerate(nodes) if nd['type'] == 'defense']
    steps = []
    if rnd.random() < 0.4:       # labels as loaded from a file, before the first analysis
        steps.append(['labels', [rnd.random() < 0.5 for _ in range(n)], [rnd.random() < 0.5 for _ in range(n)]])
    if defs and rnd.random() < 0.3:
        steps.append(['abort', rnd.choice(defs), rnd.choice([50.0, -1.0, None])])
    steps.append(['calc'])
    for _ in range(rnd.randint(1, 3)):
        for _ in range(rnd.randint(1, 3)):
            r = rnd.random()
            if r < 0.45 and stat:
                i = rnd.choice(stat)
                if nodes[i]['type'] == 'defense':
                    steps.append(['def', i, rnd.choice([0.0, 0.5, 1.0, 1.0, 0.0])])
                else:
                    steps.append(['exist', i, rnd.random() < 0.5])
            elif r < 0.6:
                i = rnd.randrange(n)
                steps.append(['ttc', i, rnd.choice(DIST_KINDS + PLAIN_KINDS)])
            elif r < 0.7:
                steps.append(['labels', [rnd.random() < 0.5 for _ in range(n)], [rnd.random() < 0.5 for _ in range(n)]])
            elif r < 0.8:
                steps.append(['evaluate', rnd.randrange(n)])
            elif r < 0.9:
                steps.append([rnd.choice(['propv', 'propn']), rnd.randrange(n)])
            elif defs:
                steps.append(['abort', rnd.choice(defs), rnd.choice([50.0, -1.0, None])])
        steps.append(['calc'])
    if rnd.random() < 0.3:
        steps.append(['calc'])   # a second run without any change is the identity
    return steps

def shrink_history(nodes, steps, failing):
    """drop steps, then nodes (steps that mention a dropped node go with it), while `failing` stays true"""
    changed = True
    while changed:
        changed = False
        for k in range(len(steps)):
            cand = steps[:k] + steps[k + 1:]
            if failing(nodes, cand):
                steps = cand; changed = True; break
        if changed: continue
        for i in range(len(nodes)):
            if len(nodes) <= 1: break
            cn = []
            for j, nd in enumerate(nodes):
                if j == i: continue
                m = dict(nd)
                m['children'] = [c - (c > i) for c in nd['children'] if c != i]
                m['parents'] = [p - (p > i) for p in nd['parents'] if p != i]
                cn.append(m)
            cs = []
            for st in steps:
                if st[0] in ('def', 'exist', 'ttc', 'evaluate', 'propv', 'propn', 'abort'):
                    if st[1] == i: continue
                    cs.append([st[0], st[1] - (st[1] > i)] + list(st[2:]))
                elif st[0] == 'labels':
                    cs.append(['labels', [x for j, x in enumerate(st[1]) if j != i], [x for j, x in enumerate(st[2]) if j != i]])
                else:
                    cs.append(st)
            if failing(cn, cs):
                nodes, steps = cn, cs; changed = True; break
    return nodes, steps

# ---------------------------------------------------------------- known finding KF-C08-1: recursion
CHAIN_FP = 'impl-crash:RecursionError:apriori-chain'

def chain_nodes(length):
    """an enabled defense followed by a chain of `length` 'or' steps"""
    nodes = [{'type': 'defense', 'def': 1.0, 'children': [1], 'parents': [], 'ttc': 'none'}]
    for i in range(1, length + 1):
        nodes.append({'type': 'or', 'children': [i + 1] if i < length else [], 'parents': [i - 1], 'ttc': 'none'})
    return nodes

def chain_outcome(length):
    """run the real analysis on the chain (plain interpreter recursion limit as found).  Returns the
    fingerprint of the known finding if the analysis dies of RecursionError half-way, else None."""
    from maltoolbox.attackgraph.analyzers.apriori import calculate_viability_and_necessity
    g, objs = build_graph(chain_nodes(length))
    try:
        calculate_viability_and_necessity(g)
    except RecursionError:
        left = sum(1 for o in objs[1:] if o.is_viable)
        return CHAIN_FP, {'chain': length, 'recursion_limit': sys.getrecursionlimit(),
                          'steps_left_viable_although_below_an_enabled_defense': left}
    return None, {'chain': length, 'all_unviable': all(not o.is_viable for o in objs[1:])}

def check_witness(w):
    """replay of a listed known finding (harness/run.py calls this on every run)"""
    if 'chain' in w:
        return chain_outcome(w['chain'])[0]
    if 'history_nodes' in w:
        bad, _ = apply_history(w['history_nodes'], w['history'])
        return HISTORY_FP if bad else None
    return None

HISTORY_FP = 'C08:rerun:labels-not-gfp'

def oracle(nodes):
    """independent reference: greatest fixed point by Kleene iteration from top"""
    n = len(nodes)
    def const(i, which):
        t = nodes[i]['type']; d = nodes[i].get('def'); e = nodes[i].get('exist')
        if which == 'v':
            return {'defense': d != 1.0, 'exist': bool(e), 'notExist': not e}[t]
        return {'defense': d != 0.0, 'exist': not e, 'notExist': bool(e)}[t]
    res = {}
    for which in 'vn':
        v = [True] * n
        for _ in range(n + 2):
            w = []
            for i, nd in enumerate(nodes):
                t = nd['type']
                if t in STATUS_NODES:
                    w.append(const(i, which)); continue
                ps = nd['parents']
                if which == 'v':
                    eff = [v[p] for p in ps]
                    w.append(True if not ps else (any(eff) if t == 'or' else all(eff)))
                else:
                    eff = [gate_of(nodes[p].get('ttc', 'none')) or v[p] for p in ps]
                    w.append(True if not ps else (all(eff) if t == 'or' else any(eff)))
            if w == v: break
            v = w
        res['viable' if which == 'v' else 'necessary'] = v
    return res

def mk_nodes(types, edges, defs, exists, ttcs, rnd=None):
    """edges: list of (parent, child) pairs with multiplicity; list orders optionally shuffled"""
    n = len(types)
    nodes = [{'type': types[i], 'children': [], 'parents': [], 'ttc': ttcs[i]} for i in range(n)]
    for i in range(n):
        if types[i] == 'defense': nodes[i]['def'] = defs[i]
        if types[i] in ('exist', 'notExist'): nodes[i]['exist'] = exists[i]
    for (p, c) in edges:
        nodes[p]['children'].append(c); nodes[c]['parents'].append(p)
    if rnd:
        for nd in nodes:
            rnd.shuffle(nd['children']); rnd.shuffle(nd['parents'])
    return nodes

def permute(nodes, perm, rnd):
    """storage permutation: new position k holds old node perm[k]"""
    inv = {old: new for new, old in enumerate(perm)}
    out = []
    for old in perm:
        nd = dict(nodes[old])
        nd['children'] = [inv[c] for c in nd['children']]; nd['parents'] = [inv[p] for p in nd['parents']]
        rnd.shuffle(nd['children']); rnd.shuffle(nd['parents'])
        out.append(nd)
    return out, inv

VARIANTS_FULL = [('or', None, None), ('and', None, None), ('defense', 0.0, None), ('defense', 0.5, None),
                 ('defense', 1.0, None), ('exist', None, True), ('exist', None, False),
                 ('notExist', None, True), ('notExist', None, False)]

def exhaustive(n, variants, ttc_choices):
    pairs = [(p, c) for p in range(n) for c in range(n)]
    for combo in itertools.product(variants, repeat=n):
        for ttcs in itertools.product(ttc_choices, repeat=n):
            for mask in range(1 << len(pairs)):
                edges = [pairs[k] for k in range(len(pairs)) if mask >> k & 1]
                yield mk_nodes([c[0] for c in combo], edges, [c[1] for c in combo], [c[2] for c in combo], list(ttcs))

RANDOM_TTC = ['none', 'empty', 'enabled', 'disabled', 'dist', 'bernoulli', 'composite', 'subtraction',
              'multiplication', 'division', 'exponentiation', 'composite_enabled', 'number']
RANDOM_TTC_W = [6, 1, 2, 2, 4, 1, 3, 1, 1, 1, 1, 1, 3]

def late_ttc(nodes, rnd, share=0.34):
    """for about a third of the nodes: construct the node object with a TTC of the other sort and assign the
    intended one to the public field afterwards (agbuild.build_graph: 'ttc0')"""
    for nd in nodes:
        if rnd.random() < share:
            nd['ttc0'] = opposite_kind(nd.get('ttc', 'none'), rnd.randrange(16))
    return nodes

def stale_labels(nodes, rnd):
    """labels the nodes carry before the analysis is called (as if loaded from a file)"""
    for nd in nodes:
        nd['viable'] = rnd.random() < 0.5; nd['necessary'] = rnd.random() < 0.5
    return nodes

def random_graph(rnd, nmax):
    n = rnd.randint(2, nmax)
    types, defs, exists, ttcs = [], [], [], []
    # unnecessary parents (disabled defenses, existing assets' exist steps and whatever they feed) with a TTC
    # matter for 'and' children: bias some graphs towards them
    many_unnecessary = rnd.random() < 0.4
    for _ in range(n):
        t = rnd.choices(['or', 'and', 'defense', 'exist', 'notExist'], [4, 4, 2, 1, 1])[0]
        types.append(t)
        defs.append(rnd.choice([0.0, 0.0, 0.0, 0.5, 1.0] if many_unnecessary else [0.0, 0.5, 1.0, 1.0]))
        exists.append(rnd.random() < (0.8 if many_unnecessary and t == 'exist' else 0.5))
        ttcs.append(rnd.choices(RANDOM_TTC, RANDOM_TTC_W)[0])
    edges = []
    dens = rnd.choice([0.5, 1.0, 1.5, 2.5]) / n
    for p in range(n):
        for c in range(n):
            if rnd.random() < dens and types[c] in ('or', 'and'):
                edges.append((p, c))
                if rnd.random() < 0.05: edges.append((p, c))
    nodes = late_ttc(mk_nodes(types, edges, defs, exists, ttcs, rnd), rnd)
    for nd in nodes:
        # tags do not enter the analysis: a suppressed defense is labelled from its status like any other (the
        # query layer is what looks at 'suppress')
        if nd['type'] == 'defense' and rnd.random() < 0.3: nd['tags'] = ['suppress']
        elif rnd.random() < 0.05: nd['tags'] = [rnd.choice(['suppress', 'hidden'])]
    return nodes

def compare(nodes, im, mo):
    """property observables: the two label vectors"""
    diffs = []
    if 'error' in im: return [('error', im['error'])]
    for k in ('viable', 'necessary'):
        for i, (a, b) in enumerate(zip(im[k], mo[k])):
            if a != b: diffs.append((k, i, a, b))
    return diffs

def shrink(nodes, failing):
    """greedy: drop nodes, then edges, while `failing(nodes)` stays true"""
    changed = True
    while changed:
        changed = False
        for i in range(len(nodes)):
            cand = []
            for j, nd in enumerate(nodes):
                if j == i: continue
                m = dict(nd)
                m['children'] = [c - (c > i) for c in nd['children'] if c != i]
                m['parents'] = [p - (p > i) for p in nd['parents'] if p != i]
                cand.append(m)
            if cand and failing(cand):
                nodes = cand; changed = True; break
        if changed: continue
        for i, nd in enumerate(nodes):
            for k, c in enumerate(nd['children']):
                cand = [dict(x, children=list(x['children']), parents=list(x['parents'])) for x in nodes]
                del cand[i]['children'][k]; cand[c]['parents'].remove(i)
                if failing(cand):
                    nodes = cand; changed = True; break
            if changed: break
    return nodes

def fingerprint(nodes, im, orc):
    return 'C08:labels-not-gfp'

# TTC kinds of the exhaustive families
QUICK_KINDS = ['none', 'dist']
NONAME_KINDS = ['none', 'composite', 'number', 'empty', 'enabled']     # TTCs without a 'name' key, {} and a pseudo-distribution
THOROUGH_KINDS = ['none', 'empty', 'enabled', 'disabled', 'dist', 'composite', 'number']
# node variants under which a TTC matters: steps fed by unnecessary status nodes
VARIANTS_UNNEC = [('or', None, None), ('and', None, None), ('defense', 0.0, None), ('exist', None, True)]

def run(seed, tier, lean) -> Result:
    rnd = random.Random(seed)
    res = Result(rule='graphs: exhaustive small (all types x edge sets incl. self-loops x statuses x TTC kinds incl. '
                      'composite / number / {} ) + random <= 40 nodes (13 TTC kinds, a third of the TTCs assigned after '
                      'construction, a fifth with pre-set labels), each under storage permutations; histories on one '
                      'graph object (status / TTC changes in both directions, pre-set labels, public evaluate_* / '
                      'propagate_* calls, aborted runs between analyses) with the gfp oracle after every analysis; '
                      'non-trivial = some label differs from the default (True, True); distinct by canonical hash')
    cases = []
    if tier == 'quick':
        cases += list(exhaustive(1, VARIANTS_FULL, QUICK_KINDS))
        cases += list(exhaustive(2, VARIANTS_FULL, QUICK_KINDS))
        nex_old = len(cases)
        cases += list(exhaustive(1, VARIANTS_UNNEC, NONAME_KINDS))
        cases += list(exhaustive(2, VARIANTS_UNNEC, NONAME_KINDS))
        nrand, nmax, nperm, nhist = 1500, 12, 2, 1500
    else:
        cases += list(exhaustive(1, VARIANTS_FULL, THOROUGH_KINDS))
        cases += list(exhaustive(2, VARIANTS_FULL, THOROUGH_KINDS))
        nex_old = len(cases)
        red = [('or', None, None), ('and', None, None), ('defense', 1.0, None), ('exist', None, True)]
        cases += list(exhaustive(3, red, ['none', 'dist']))
        nrand, nmax, nperm, nhist = 4000, 30, 3, 9000
    nex = len(cases)
    # exhaustive cases: every third one gets a TTC assigned after construction, on one of its nodes
    for k in range(0, nex, 3):
        nd = cases[k][(k // 3) % len(cases[k])]
        nd['ttc0'] = opposite_kind(nd.get('ttc', 'none'), k // 3)
    for _ in range(nrand):
        g = random_graph(rnd, nmax)
        if rnd.random() < 0.2: stale_labels(g, rnd)
        cases.append(g)
    res.bump('exhaustive_small', nex); res.bump('random', nrand)
    # permutations of storage order
    perm_of = {}
    base_n = len(cases)
    for b in range(nex_old // 7, base_n):
        if b < nex and b % 5: continue
        nodes = cases[b]
        if len(nodes) < 2: continue
        for _ in range(nperm):
            perm = list(range(len(nodes))); rnd.shuffle(perm)
            pn, inv = permute(nodes, perm, rnd)
            perm_of[len(cases)] = (b, perm); cases.append(pn)
    res.bump('permuted', len(cases) - base_n)
    have_driver = lean['build_ok']
    model = gen = None
    if have_driver:
        # third column: the GENERATED `calculate_viability_and_necessity` (Py/Gen/Apriori.lean) on the same graphs
        model, gen = genexec.run_both([payload(n, i, labels0_of(n)) for i, n in enumerate(cases)], 'gen_apriori')
    gen_reported = False
    impl_out = []
    for i, nodes in enumerate(cases):
        im = impl(nodes); impl_out.append(im)
        res.evaluations += 1
        mo = model[i]['model'] if model else oracle(nodes)
        if 'error' not in im and (not all(im['viable']) or not all(im['necessary'])):
            res.nontrivial.add(canon_hash(nodes))
        if any(c in nodes[p]['children'] for p in range(len(nodes)) for c in [p]): res.bump('self_loop')
        if any(gate_of(n.get('ttc', 'none')) for n in nodes): res.bump('gated')
        if any(n.get('ttc', 'none') in DIST_KINDS and 'name' not in TTC_KINDS[n['ttc']] for n in nodes): res.bump('ttc_without_name')
        if any('ttc0' in n for n in nodes): res.bump('ttc_assigned_after_construction')
        if labels0_of(nodes): res.bump('preset_labels')
        d = compare(nodes, im, mo)
        if gen is not None and not d and not gen_reported:
            go = gen[i].get('model') or {'error': gen[i].get('error')}
            res.bump('generated_code_graphs_compared')
            if 'error' not in im and ('error' in go or compare(nodes, im, go)):
                gen_reported = True
                res.violations.append(genexec.divergence('C08', 'calculate_viability_and_necessity', f'on the labels of a {len(nodes)}-node graph',
                                                         {'nodes': nodes, 'impl': im, 'generated': go, 'hand_model': mo}))
        if d:
            def failing(ns):
                i2 = impl(ns); return 'error' in i2 or any(i2[k] != oracle(ns)[k] for k in ('viable', 'necessary'))
            orc = oracle(nodes)
            if failing(nodes):
                small = shrink(nodes, failing)
                res.violations.append(Violation(
                    what=f'labels differ from the greatest fixed point ({len(small)}-node graph)',
                    fingerprint=fingerprint(small, None, None),
                    replay={'nodes': small, 'impl': impl(small), 'gfp': oracle(small), 'original_case': nodes}))
            else:
                res.violations.append(Violation(
                    what='implementation and Lean model disagree but the reference oracle sees a gfp',
                    fingerprint='C08:model-divergence', replay={'nodes': nodes, 'impl': im, 'model': mo, 'gfp': orc},
                    no_failing_input=True))
        if i in perm_of:
            b, perm = perm_of[i]
            bi = impl_out[b]
            if 'error' not in im and 'error' not in bi:
                for k in ('viable', 'necessary'):
                    if [im[k][new] for new in range(len(perm))] != [bi[k][old] for old in perm]:
                        res.violations.append(Violation(
                            what='labels depend on the storage order of the nodes',
                            fingerprint='C08:order-dependent',
                            replay={'nodes': cases[b], 'permuted': nodes, 'perm': perm, 'impl_base': bi, 'impl_perm': im}))
                        break
        if len(res.samples) < 3 and len(nodes) >= 3 and 'error' not in im and not all(im['viable']):
            res.samples.append({'nodes': nodes, 'impl': im, 'model': mo})
    # histories on one graph object: status / TTC changes, pre-set labels, public evaluate / propagate calls and
    # aborted runs between analyses; the gfp oracle after every analysis, the Lean model (started from the labels
    # the implementation had before the call) for every analysis
    r2 = random.Random(seed ^ 0xC08)
    hist_calls = []
    reported = False
    for h in range(nhist):
        nodes = random_graph(r2, 8 if h % 4 else 14)
        steps = FIXED_HISTORIES[h][1] if h < len(FIXED_HISTORIES) else random_history(r2, nodes)
        if h < len(FIXED_HISTORIES): nodes = FIXED_HISTORIES[h][0]
        bad, calls = apply_history(nodes, steps)
        res.evaluations += 1; res.bump('history'); res.bump('history_analyses', len(calls))
        for st in steps: res.bump('history_step_' + st[0])
        if len(calls) > 1 and any(not all(c[2][0]) or not all(c[2][1]) for c in calls):
            res.nontrivial.add(canon_hash([nodes, steps]))
        hist_calls += calls
        if bad and not reported:
            reported = True
            failing = lambda ns, ss: apply_history(ns, ss)[0] is not None
            sn, ss = shrink_history(nodes, steps, failing)
            res.violations.append(Violation(what=apply_history(sn, ss)[0] or bad, fingerprint=HISTORY_FP,
                                            replay={'history_nodes': sn, 'history': ss, 'problem': bad,
                                                    'original_nodes': nodes, 'original_history': steps}))
    if have_driver and hist_calls:
        mod2 = run_driver([payload(snap, i, before) for i, (snap, before, after) in enumerate(hist_calls)])
        for (snap, before, after), m in zip(hist_calls, mod2):
            mo = m['model']
            if list(after[0]) != mo['viable'] or list(after[1]) != mo['necessary']:
                orc = oracle(snap)
                res.violations.append(Violation(
                    what='implementation and Lean model disagree on an analysis started from given labels',
                    fingerprint='C08:model-divergence' if (list(after[0]) == orc['viable'] and list(after[1]) == orc['necessary']) else HISTORY_FP + ':call',
                    replay={'nodes': snap, 'labels_before': before, 'impl': {'viable': after[0], 'necessary': after[1]},
                            'model': mo, 'gfp': orc},
                    no_failing_input=(list(after[0]) == orc['viable'] and list(after[1]) == orc['necessary'])))
                break
    # known finding KF-C08-1: the propagation is recursive; a long chain dies of RecursionError half-way
    fp, info = chain_outcome(3000)
    res.evaluations += 1; res.bump('recursion_chain')
    if fp:
        res.violations.append(Violation(
            what='calculate_viability_and_necessity raises RecursionError on a chain of 3000 steps below an enabled '
                 'defense and leaves the deeper steps with their default labels', fingerprint=fp, replay=info))
    if not res.samples:
        res.samples.append({'nodes': cases[-1], 'impl': impl_out[-1]})
    return res

def _fixed_histories():
    """the three repaired re-run defects as fixed scenarios (run first in every seed)"""
    one = [{'type': 'defense', 'def': 1.0, 'children': [1], 'parents': [], 'ttc': 'none'},
           {'type': 'or', 'children': [], 'parents': [0], 'ttc': 'none'}]
    two = [{'type': 'defense', 'def': 1.0, 'children': [2], 'parents': [], 'ttc': 'none'},
           {'type': 'defense', 'def': 1.0, 'children': [2], 'parents': [], 'ttc': 'none'},
           {'type': 'or', 'children': [], 'parents': [0, 1], 'ttc': 'none'}]
    twon = [{'type': 'defense', 'def': 0.0, 'children': [2], 'parents': [], 'ttc': 'none'},
            {'type': 'defense', 'def': 0.0, 'children': [2], 'parents': [], 'ttc': 'none'},
            {'type': 'and', 'children': [], 'parents': [0, 1], 'ttc': 'none'}]
    ttc = [{'type': 'exist', 'exist': True, 'children': [1], 'parents': [], 'ttc': 'none'},
           {'type': 'or', 'children': [2], 'parents': [0], 'ttc': 'none'},
           {'type': 'and', 'children': [], 'parents': [1], 'ttc': 'none'}]
    return [
        (one, [['calc'], ['def', 0, 0.5], ['calc'], ['def', 0, 1.0], ['calc']]),
        (two, [['calc'], ['def', 1, 0.0], ['calc'], ['def', 1, 1.0], ['calc']]),
        (twon, [['calc'], ['def', 1, 1.0], ['calc'], ['def', 1, 0.0], ['calc']]),
        (one, [['labels', [False, False], [False, False]], ['calc']]),
        (two, [['labels', [True, False, False], [False, False, False]], ['def', 1, 0.0], ['calc']]),
        (ttc, [['calc'], ['ttc', 1, 'composite'], ['calc'], ['ttc', 1, 'enabled'], ['calc'], ['ttc', 1, 'number'], ['calc'],
               ['ttc', 1, 'empty'], ['calc']]),
        (one, [['calc'], ['def', 0, 0.5], ['evaluate', 0], ['evaluate', 1], ['calc']]),
    ]
FIXED_HISTORIES = _fixed_histories()

def replay(path):
    r = json.load(open(path))
    if 'chain' in r:
        fp, info = chain_outcome(r['chain']); print(info)
        print('VIOLATION reproduced' if fp else 'not reproduced'); return 1 if fp else 0
    if 'history_nodes' in r:
        bad, calls = apply_history(r['history_nodes'], r['history']); print(bad)
        for snap, before, after in calls: print('  analysis: labels before', before, 'after', after, 'gfp', oracle(snap))
        print('VIOLATION reproduced' if bad else 'not reproduced'); return 1 if bad else 0
    nodes = r['nodes']
    if 'labels_before' in r:
        for nd, v, n in zip(nodes, *r['labels_before']): nd['viable'] = v; nd['necessary'] = n
    im, orc = impl(nodes), oracle(nodes)
    print('impl  ', im); print('gfp   ', orc)
    bad = 'error' in im or any(im[k] != orc[k] for k in ('viable', 'necessary'))
    print('VIOLATION reproduced' if bad else 'not reproduced')
    return 1 if bad else 0
