"""The third column of the correspondence runs: the GENERATED Lean code (`lean/MalVerif/Py/Gen*/*.lean`, what the
translators make of the current Python source) executed by the driver on the same inputs as the real code and the
hand-written model (driver ops `gen_ag_hist`, `gen_model_hist`, `gen_resolve`, `gen_apriori`).

What it checks is the first arrow of the second tie — *translator + prelude say what CPython does* — also outside the
invariants under which the tie theorems are proved (error paths, inconsistent graphs, odd arguments).

Reporting rule (DESIGN.md §I.2): generated != impl while hand model == impl and the oracle passes  =>
`VIOLATION ... no-failing-input-found` with fingerprint `<pid>:generated-code-divergence:<op>`: the trusted base of the
second tie is broken although the property holds on the input.  If the oracle fails too, it is an ordinary violation."""
from __future__ import annotations
import json
from .common import Violation, run_driver

_ttc_cache: dict = {}
def _ttc(t):
    """the `ttc` dictionary is compared as a value (the generated side re-renders it from its `PyDictS`)"""
    if t is None or t == 'null': return t
    r = _ttc_cache.get(t)
    if r is None:
        r = _ttc_cache[t] = json.dumps(json.loads(t), sort_keys=True, separators=(',', ':'))
    return r

def ag_obs(o, canon_obs):
    """property-level view of an attack-graph observation, `ttc` texts normalised"""
    if o is None: return None
    c = canon_obs(o)
    for n in c['nodes']:
        if len(n) > 7 and n[7][2] != 'null':
            n[7] = list(n[7]); n[7][2] = _ttc(n[7][2])
    return c

def err_class(e):
    """the harness catches the real exception by the classes the API documents (`except LookupError`), the driver prints
    the exact class the translated code raised: KeyError / IndexError are LookupErrors"""
    return 'LookupError' if e in ('KeyError', 'IndexError') else e

def ag_step_same(op, st, a, go, canon_obs, canon_out) -> bool:
    """impl step `st` (already canonicalised as `a` = [err, out, obs]) against the generated-code step `go`: error class,
    query result, canonical state of the graph and of the other side of a deep copy"""
    if st['err'] != err_class(go['err']) or a[1] != canon_out(op, go['out']): return False
    g = canon_obs(go['obs'])
    if g != a[2] and ag_obs(go['obs'], canon_obs) != ag_obs(st['obs'], canon_obs): return False
    if (st['other'] is None) != (go['other'] is None): return False
    if st['other'] is not None and ag_obs(go['other'], canon_obs) != ag_obs(st['other'], canon_obs): return False
    return True

def run_both(hand_payloads: list[dict], gen_op: str, rewrite=None, every: int = 1) -> tuple[list, list]:
    """one driver batch for the hand-model payloads and their generated-code twins (same payload, other `op`);
    `every = k`: only every k-th case gets a twin (the others: `None`) - keeps the cost of the third column bounded"""
    gen_payloads, idx = [], []
    for i, p in enumerate(hand_payloads):
        if i % every: continue
        q = dict(p); q['op'] = gen_op
        if rewrite: q = rewrite(q)
        gen_payloads.append(q); idx.append(i)
    out = run_driver(hand_payloads + gen_payloads)
    # the answers are a few hundred thousand small containers that live until the end of the run: keep the cyclic
    # collector from walking them again and again while the real code runs (measured: C05 quick 27 s -> 18 s)
    import gc
    gc.collect(); gc.freeze()
    gen = [None] * len(hand_payloads)
    for i, o in zip(idx, out[len(hand_payloads):]): gen[i] = o
    return out[:len(hand_payloads)], gen

def divergence(pid: str, op: str, what: str, replay: dict) -> Violation:
    return Violation(what=f'the GENERATED Lean code (translation of the current source) and the implementation disagree {what}; '
                          f'the hand-written model agrees with the implementation and the direct oracle sees no violation: '
                          f'a translator rule or a prelude convention does not say what CPython does',
                     fingerprint=f'{pid}:generated-code-divergence:{op}', replay=replay, no_failing_input=True)

def driver_error(pid: str, err: str, replay: dict) -> Violation:
    return Violation(what=f'driver rejected a case for the generated code: {err}', fingerprint=f'{pid}:generated-code-driver-error',
                     replay=replay, no_failing_input=True)

# ---------------------------------------------------------------------------------------------------------------------
# "wild" attack-graph histories: OUTSIDE the invariants under which the ties are proved.  Only the implementation and the
# generated code are compared (the hand model is total and assumes live handles); what is exercised is the prelude:
# `list.remove` / `del d[k]` raising, first-occurrence removal, membership on references, `str(None)` in a full name,
# the order in which `remove_node` / `remove_attacker` touch things before they raise.
WILD = {'add_node': 6, 'add_node_dup': 1, 'link': 6, 'remove_node': 3, 'add_attacker': 3, 'remove_attacker': 2, 'compromise': 5,
        'undo': 3, 'attach': 1, 'set_labels': 1, 'prune': 1, 'lookup': 1, 'surface': 1, 'trav': 1, 'add_attacker_bad': 1,
        'add_attacker_again': 1, 'add_node_again': 1}

def wild_history(rnd, length):
    """an ordinary history with operations on REMOVED nodes / attackers, one-sided edges, re-added removed objects and
    repeated removals sprinkled in"""
    from .aghist import Gen
    g = Gen(rnd, WILD, nmax=rnd.choice([4, 6, 8]), rich=rnd.random() < 0.3)
    ops = []
    while len(ops) < length:
        before = len(g.ops)
        g.gen(before + 1)                     # one more ordinary operation (the first call: the initial nodes too) ...
        g.ops.pop()                           # ... without the lookup that `gen` appends at the end
        ops.extend(g.ops[before:])
        if rnd.random() < 0.35:
            nn, na = g.nrefs, g.arefs
            anyn = lambda: rnd.randrange(nn) if nn else None
            anya = lambda: rnd.randrange(na) if na else None
            deadn = lambda: rnd.choice(g.dead_n) if g.dead_n else anyn()
            deada = lambda: rnd.choice(g.dead_a) if g.dead_a else anya()
            k = rnd.choice(['link1', 'link1', 'remove_dead_node', 'compromise_dead', 'undo_any', 'remove_dead_attacker', 'readd_dead_node',
                            'link_dead', 'query_dead', 'readd_dead_attacker'])
            op = None
            if k == 'link1' and nn: op = {'k': 'link1', 'p': anyn(), 'c': anyn(), 'side': rnd.choice(['child', 'parent'])}
            elif k == 'link_dead' and nn: op = {'k': 'link', 'p': deadn(), 'c': anyn()}
            elif k == 'remove_dead_node' and nn: op = {'k': 'remove_node', 'n': deadn()}
            elif k == 'compromise_dead' and nn and na:
                op = {'k': 'compromise', 'a': rnd.choice([deada(), anya()]), 'n': rnd.choice([deadn(), anyn()]), 'side': rnd.choice(['attacker', 'node'])}
            elif k == 'undo_any' and nn and na: op = {'k': 'undo', 'a': anya(), 'n': anyn(), 'side': rnd.choice(['attacker', 'node'])}
            elif k == 'remove_dead_attacker' and na: op = {'k': 'remove_attacker', 'a': deada()}
            elif k == 'readd_dead_node' and nn: op = {'k': 'add_node_again', 'n': deadn(), 'id': rnd.choice([None, None, rnd.randint(0, 12)])}
            elif k == 'readd_dead_attacker' and na:
                op = {'k': 'add_attacker_again', 'a': deada(), 'id': rnd.choice([None, rnd.randint(0, 6)]), 'entry': [], 'reached': []}
            elif k == 'query_dead' and nn and na:
                op = rnd.choice([{'k': 'trav', 'a': deada(), 'n': anyn()}, {'k': 'surface', 'a': deada()}, {'k': 'trav', 'a': anya(), 'n': deadn()}])
            if op: op['wild'] = k; ops.append(op)
    return ops

def run_wild(pid, seed, n, res):
    """impl vs generated code on wild histories.  A history ends at the first operation after which the heap of the real
    objects is not what a clean rejection leaves (an exception half-way through a mutator: the `Except` monad of the
    translation drops the heap, so nothing can be compared after it) or at the first exception the API does not declare."""
    import random
    from .aghist import Impl, canon_obs, canon_out
    rnd = random.Random(seed ^ 0x9E4EC)
    hists = [wild_history(random.Random(rnd.getrandbits(48)), rnd.randint(8, 40)) for _ in range(n)]
    gen = run_driver([{'op': 'gen_ag_hist', 'case': i, 'ops': h} for i, h in enumerate(hists)])
    for hi, ops in enumerate(hists):
        res.evaluations += 1; res.bump('wild_histories')
        if 'error' in gen[hi]:
            res.violations.append(driver_error(pid, gen[hi]['error'], {'ops': ops})); continue
        im = Impl(); prev = None
        def handles_ok(op):
            nn, na = len(im.nodes), len(im.atts)
            ns = [op[k] for k in ('n', 'p', 'c') if k in op] + [l[0] for l in op.get('labels', [])] + \
                 (list(op.get('cur', [])) + list(op.get('nodes', [])) if op['k'] == 'update_surface' else [])
            return all(x < nn for x in ns) and ('a' not in op or op['a'] < na)
        def has_twin(op):
            # `list.remove` / `in` compare with ==, and the dataclasses compare field by field: an attacker (node) object
            # that is value-equal to ANOTHER object stands for that one in CPython, while the translated heap compares
            # references (the convention under which the ties are proved: distinct objects differ in some field).  Such a
            # pair can only arise here, outside the invariants (a removed attacker whose name and id a later one took).
            def twin(x, pool):
                for y in pool:
                    if y is x: continue
                    try:
                        if y == x: return True
                    except RecursionError:
                        return True
                return False
            if 'a' in op and twin(im.atts[op['a']], im.atts): return True
            return any(twin(im.nodes[op[k]], im.nodes) for k in ('n', 'p', 'c') if k in op)
        for i, op in enumerate(ops):
            if not handles_ok(op):               # a handle the prediction of the generator got wrong (after a wild operation)
                res.bump('wild_history_cut:handle'); break
            if has_twin(op):
                res.bump('wild_history_cut:value-equal twin objects'); break
            try:
                st = im.step(op)
            except Exception as e:               # TypeError / AttributeError …: outside what the preludes model (sentinels)
                res.bump(f'wild_history_cut:{type(e).__name__}'); break
            go = gen[hi]['model'][i]
            res.bump('wild_steps_compared')
            if 'wild' in op: res.bump('wild:' + op['wild'] + (' -> ' + st['err'] if st['err'] else ''))
            a = [st['err'], canon_out(op, st['out']), canon_obs(st['obs'])]
            if st['err'] is not None and (op['k'] not in ('add_node', 'add_node_again', 'add_attacker', 'add_attacker_again')
                                          or (prev is not None and a[2] != prev)):
                # a mutator that may have raised half-way (everything but the add_* calls, which check before they change
                # anything; also where only objects outside the graph were touched and the observable state looks unchanged):
                # only the fact and the class of the exception can be compared; the history ends here
                if err_class(go['err']) != st['err']:
                    res.violations.append(divergence(pid, op['k'], f'on the exception of step {i} ({op["k"]}) of a history outside the invariants',
                        {'ops': ops[:i + 1], 'impl_err': st['err'], 'generated_err': go['err']}))
                res.bump('wild_history_cut:raised-half-way'); break
            if not ag_step_same(op, st, a, go, canon_obs, canon_out):
                res.violations.append(divergence(pid, op['k'], f'after step {i} ({op["k"]}) of a history outside the invariants',
                    {'ops': ops[:i + 1], 'impl': [st['err'], st['out'], st['obs']], 'generated': [go['err'], go['out'], go['obs']]}))
                break
            prev = a[2]

# ---------------------------------------------------------------------------------------------------------------------
# round two (notes/NOTES_genexec2.md): graph GENERATION by the generated code (driver op `gen_generate`: generated
# `lg__generate_graph` + `model_add_*` / `model__from_dict` + `graph___init__` in the environment `PyW.evalEnvOf`)
def generate_payload(i, lang, inst, **kw):
    return dict({'op': 'gen_generate', 'case': i, 'lang': lang, 'inst': inst}, **kw)

def _gen_nodes(gg):
    """the node list of a `gen_generate` answer in the form of `genrun.graph_obs` (defense as float)"""
    keys = ('id', 'full_name', 'asset', 'name', 'type', 'ttc', 'tags', 'mitre', 'defense', 'exist')
    return [{k: (n[k] if k != 'defense' or n[k] is None else float(n[k])) for k in keys} for n in gg['nodes']]

def generate_cmp(g: dict, im: dict, edges: str = 'exact') -> tuple:
    """`g` = `model` part of a `gen_generate` answer, `im` = observation of the real `AttackGraph` (`genrun.graph_obs`, or
    `{'error': class}`).  Returns (problem | None, drift) — problem: error class, node list (exact: order, ids, every attribute)
    or edge SET differs; drift: names of the order / multiplicity differences of the children / parents lists (`edges='exact'`
    turns these into a problem too)."""
    from .genrun import ERRMAP
    if 'error' in g or 'error' in im:
        ge, ie = g.get('error'), im.get('error')
        ge = ERRMAP.get(ge, ge)
        if ie is not None: ie = ie.split(':')[0]          # (`impl_generate` appends the message to a class it does not know)
        return (None if ge == ie else f'on the outcome: generated code {ge or "returns"}, implementation {ie or "returns"}'), []
    gg = g['graph']
    gn = _gen_nodes(gg)
    if gn != im['nodes']:
        k = next((i for i, (a, b) in enumerate(zip(gn, im['nodes'])) if a != b), min(len(gn), len(im['nodes'])))
        return f'on the node list (first difference at position {k}: generated {gn[k] if k < len(gn) else None}, implementation {im["nodes"][k] if k < len(im["nodes"]) else None})', []
    drift = []
    for key in ('edges', 'parent_edges'):
        a, b = [tuple(e) for e in gg[key]], [tuple(e) for e in im.get(key, im['edges'])]
        if a == b: continue
        if set(a) != set(b):
            return f'on the {"child" if key == "edges" else "parent"} relation: generated only {sorted(set(a) - set(b))[:4]}, implementation only {sorted(set(b) - set(a))[:4]}', []
        drift.append(key + (':multiplicity' if sorted(a) != sorted(b) else ':order'))
    if drift and edges == 'exact':
        return f'on the order / multiplicity of the children / parents lists ({", ".join(drift)})', drift
    return None, drift

MAX_EDGES = 4000
def generate_column(pid: str, res, items: list, edges: str, lookups: bool = False) -> list:
    """The third column of the generation checks, run AFTER the real code: `items` = [(spec, inst, im, extra)] for the cases
    the check found nothing wrong with (`im` = observation of the real graph or `{'error': ..}`, `extra` = further payload
    fields such as lookup keys `ids` / `names`, and under `_lookups` the answers of the real graph, `_replay` more replay data).
    Cases whose real graph has more than MAX_EDGES list entries are left out (an asset on both sides of one association object
    multiplies the entries of the children lists — 32 912 for 11 nodes in one C02 case —; the generated code builds them all,
    but every heap update of the compiled closure heap costs a walk over the earlier ones: 40 s against 0.7 s of CPython)."""
    from .langgen import lang_payload, inst_payload
    todo = []
    for it in items:
        if 'error' not in it[2] and len(it[2]['edges']) > MAX_EDGES: res.bump('generated_code_skipped:graph-too-large')
        else: todo.append(it)
    lp = {}
    out = run_driver([generate_payload(k, lp.setdefault(id(s), lang_payload(s)), inst_payload(m),
                                       **{a: b for a, b in x.items() if not a.startswith('_')}) for k, (s, m, im, x) in enumerate(todo)], case_limit=60)
    vs = []
    for (spec, inst, im, x), o in zip(todo, out):
        rep = dict({'spec': spec, 'inst': inst}, **x.get('_replay', {}))
        if 'skipped' in o:
            res.bump('generated_code_skipped:no answer within the per-case limit'); continue
        if 'error' in o:
            vs.append(driver_error(pid, o['error'], rep)); continue
        g = o['model']
        prob, dr = generate_cmp(g, im, edges=edges)
        res.bump('generated_code_graphs_compared')
        if 'graph' in g:
            res.bump('generated_code_nodes_compared', len(g['graph']['nodes'])); res.bump('generated_code_edges_compared', len(g['graph']['edges']))
        else: res.bump('generated_code_errors_compared')
        for d in dr: res.bump('generated_code_drift:' + d)
        op = '_generate_graph'
        if not prob and lookups and 'graph' in g:
            gg = g['graph']
            res.bump('generated_code_lookups_compared', len(x['ids']) + len(x['names']))
            if g.get('lookups') != x['_lookups']:
                prob, op = 'on get_node_by_id / get_node_by_full_name of the generated graph', 'get_node_by'
            elif [e[0] for e in gg['idIdx']] != [n['id'] for n in gg['nodes']] or [e[0] for e in gg['nameIdx']] != [n['full_name'] for n in gg['nodes']] \
                    or gg['next'][0] != len(gg['nodes']):
                prob = 'on the indexes of the graph (generated code: keys of _id_to_node / _full_name_to_node, next_node_id)'
        if prob:
            vs.append(divergence(pid, op, prob, dict(rep, impl=im, impl_lookups=x.get('_lookups'), generated=g)))
    return vs

def generate_measure(cases: list, edges: str = 'set') -> dict:
    """seeded-defect experiment (tools/genexec_seeded.py) for the generation checks: `cases` = [(spec, inst, churn_seed | None,
    member_p)]; implementation (possibly mutated) vs hand model (`gen`) vs regenerated code (`gen_generate`)"""
    import random
    from .langgen import lang_payload, inst_payload
    from .genrun import impl_generate, model_nodes_canon
    st = {'cases': 0, 'impl_ne_hand': 0, 'gen_follows_impl': 0, 'gen_ne_impl': 0, 'impl_crash': 0, 'skipped_large': 0, 'examples': []}
    ims, names0 = [], {}
    for i, (s, m, cs, mp) in enumerate(cases):
        # the names the objects are constructed with (`None`, duplicates): the (mutated) model chooses the final names, which
        # `impl_generate` writes back into `m`; the hand model is asked about the final names, the generated `add_asset` renames itself
        if any(a['name'] is None for a in m['assets']) or len({a['name'] for a in m['assets']}) < len(m['assets']):
            names0[i] = [a['name'] for a in m['assets']]
        try: ims.append(impl_generate(s, m, churn=None if cs is None else random.Random(cs), member_p=mp))
        except BaseException as e: ims.append({'crash': type(e).__name__})
        for a in m['assets']:
            if a['name'] is None: a['name'] = f"{a['type']}:{a['id']}"
    hand = run_driver([{'op': 'gen', 'case': i, 'lang': lang_payload(s), 'inst': inst_payload(m)} for i, (s, m, _, _) in enumerate(cases)])
    todo = [i for i, im in enumerate(ims) if 'crash' not in im and ('error' in im or len(im['edges']) <= MAX_EDGES)]
    gen = dict(zip(todo, run_driver([generate_payload(i, lang_payload(cases[i][0]), inst_payload(cases[i][1]),
                                                      **({'names0': names0[i]} if i in names0 else {})) for i in todo])))
    for i, (s, m, cs, mp) in enumerate(cases):
        st['cases'] += 1
        im = ims[i]
        if 'crash' in im: st['impl_crash'] += 1; st['examples'].append(['impl-crash', im['crash']]); continue
        if i not in gen: st['skipped_large'] += 1; continue
        if 'error' in hand[i] or 'error' in gen[i]:
            st['examples'].append(['driver-error', [hand[i].get('error'), gen[i].get('error')]]); continue
        mo, g = hand[i]['model'], gen[i]['model']
        if 'error' in mo or 'error' in im: hsame = mo.get('error') == im.get('error')
        else:
            hsame = model_nodes_canon(mo['nodes']) == im['nodes'] and set(map(tuple, mo['edges'])) == set(map(tuple, im['edges'])) \
                    and set(map(tuple, im['edges'])) == set(map(tuple, im.get('parent_edges', im['edges'])))
            # (the hand model lists every edge once per link; the multiplicities of the real lists - which the generated code
            # reproduces - are not part of C01 / C02 and are not compared on this side)
        # the oracle of C02 on the names: full names pairwise distinct (the hand model is asked about the names the - possibly
        # mutated - model chose, so a naming defect shows only here)
        if 'error' not in im and len({n['full_name'] for n in im['nodes']}) < len(im['nodes']): hsame = False
        prob, _ = generate_cmp(g, im, edges=edges)
        if prob:
            st['gen_ne_impl'] += 1; st['examples'].append(['gen!=impl', {'spec': s, 'inst': m, 'churn_seed': cs, 'what': prob}])
        if not hsame:
            st['impl_ne_hand'] += 1
            if not prob:
                st['gen_follows_impl'] += 1
                st['examples'].append(['gen=impl!=hand', {'impl_error': im.get('error'), 'hand_error': mo.get('error'),
                                                          'n_edges': [len(im.get('edges', [])), len(mo.get('edges', []))]}])
    return st
# genexec2 / serialisers (notes/NOTES_genexec2_serial.md): the DOCUMENTS of the generated `_to_dict` functions against the
# dictionaries the real `_to_dict()` returns, key order included.  Lean's `Json` sorts object keys, so the driver renders a
# Python value ordered: dictionary = ["d", [[key, value], ...]] (int keys as numbers, str keys as strings), list =
# ["l", [...]], a `ttc` dictionary = ["t", [[key, text], ...]] (`PyDictS`: the value under `name` is the string, any other
# value its JSON text), a non-empty `extras` dictionary = ["j", canonical JSON text].
class _Extras(dict):
    """an `extras` dictionary of the generated side: kept as canonical JSON text there (`.text`), so the order of its keys
    (and of the keys of nested dictionaries) carries no information - compared through the canonical text of the real one"""

class _Rec(dict):
    """a dictionary with a fixed key set of the generated side (a record of the prelude): the order of ITS keys is not
    represented by the translation - compared as a set of items (the values again with order)"""

class _BadFloat:
    def __init__(self, t): self.t = t
    def __repr__(self): return f'<float text {self.t!r} is not canonical>'

def ag_doc_decode(j):
    """ordered rendering of the driver -> Python value (dictionaries in the order of the generated document)"""
    if isinstance(j, list):
        tag = j[0]
        if tag == 'd': return {k: ag_doc_decode(v) for k, v in j[1]}
        if tag == 'r': return _Rec((k, ag_doc_decode(v)) for k, v in j[1])
        if tag == 'f':
            try: return float(j[1]) if repr(float(j[1])) == j[1] else _BadFloat(j[1])
            except ValueError: return _BadFloat(j[1])
        if tag == 'l': return [ag_doc_decode(v) for v in j[1]]
        if tag == 't': return {k: (v if k == 'name' else json.loads(v)) for k, v in j[1]}
        if tag == 'j':
            e = _Extras(json.loads(j[1])); e.text = j[1]
            return e
        raise ValueError(f'bad ordered rendering {j!r:.80}')
    return j

def ag_doc_encode(doc):
    """a REAL attack-graph document (what `_to_dict()` returned / the file layer loaded) in the ordered rendering, for the
    generated `_from_dict` (driver op `gen_ag_fromdict`)"""
    from .langgen import jtxt
    def atom(k, v):
        if isinstance(v, dict):
            if k == 'ttc': return ['t', [[a, b if (a == 'name' and isinstance(b, str)) else json.dumps(b, separators=(',', ':'))] for a, b in v.items()]]
            if k == 'extras' and v: return ['j', jtxt(v)]
            return ['d', [[a, b] for a, b in v.items()]]
        if isinstance(v, list): return ['l', list(v)]
        return v
    return ['d', [[top, ['d', [[name, ['d', [[k, atom(k, v)] for k, v in entry.items()]]] for name, entry in entries.items()]]]
                  for top, entries in doc.items()]]

def doc_same(real, gen, ordered=True, relax=()) -> bool:
    """the generated document is the real one: same keys IN THE SAME ORDER (`ordered`), keys and scalars of the same Python
    type (1, 1.0, True, '1' are four different things), lists element by element.  Below a key listed in `relax`, and inside
    an `extras` value of the generated side, dictionaries are compared without order."""
    if isinstance(gen, _Extras):
        # the convention of the heaps: an `extras` dictionary IS its canonical JSON text (`langgen.jtxt`: sorted keys, keys that
        # are not strings tagged, `1` / `1.0` / `true` distinct)
        from .langgen import jtxt
        return isinstance(real, dict) and jtxt(real) == gen.text
    if isinstance(real, dict):
        if not isinstance(gen, dict) or len(real) != len(gen): return False
        kr, kg = list(real), list(gen)
        if ordered and not isinstance(gen, _Rec):
            if any(type(a) is not type(b) or a != b for a, b in zip(kr, kg)): return False
        elif {(type(a), a) for a in kr} != {(type(b), b) for b in kg}: return False
        return all(doc_same(real[k], gen[k], ordered and k not in relax, relax) for k in kr)
    if isinstance(real, (list, tuple)):
        return isinstance(gen, (list, tuple)) and len(real) == len(gen) and all(doc_same(a, b, ordered, relax) for a, b in zip(real, gen))
    return type(real) is type(gen) and real == gen

def doc_first_difference(real, gen, path='') -> str:
    """where two documents differ first (for the replay file)"""
    if isinstance(real, dict) and isinstance(gen, dict):
        if isinstance(gen, (_Rec, _Extras)) and {(type(k).__name__, k) for k in real} == {(type(k).__name__, k) for k in gen}:
            gen = {k: gen[k] for k in real}
        if [(type(k).__name__, k) for k in real] != [(type(k).__name__, k) for k in gen]:
            return f'{path}: keys {list(real)!r:.160} (impl) vs {list(gen)!r:.160} (generated)'
        for k in real:
            d = doc_first_difference(real[k], gen[k], f'{path}/{k}')
            if d: return d
        return ''
    if isinstance(real, list) and isinstance(gen, list) and len(real) == len(gen):
        for i, (a, b) in enumerate(zip(real, gen)):
            d = doc_first_difference(a, b, f'{path}[{i}]')
            if d: return d
        return ''
    return '' if (type(real) is type(gen) and real == gen) else f'{path}: {real!r:.120} (impl) vs {gen!r:.120} (generated)'

def ag_doc_compare(real, gen_rendered, res=None, ttc_touched=True):
    """-> None when the generated `_to_dict` document is the real one, else a description of the first difference.  The
    order of the keys INSIDE a `ttc` value is compared too; where only that differs it is counted and accepted (the heap of
    the generated side is built from the canonical `ttc` text of the operation: after the harness wrote `ttc['touched']`
    the real dictionary has the new key last, the canonical text has it in sorted position - glue, not translation;
    `ttc_touched`: the history contains such a write - otherwise the inner order must agree too)."""
    if isinstance(gen_rendered, dict) and 'error' in gen_rendered:
        return 'the generated _to_dict raises ' + str(gen_rendered['error'])
    gen = ag_doc_decode(gen_rendered)
    if doc_same(real, gen): return None
    if ttc_touched and doc_same(real, gen, relax=('ttc',)):
        if res is not None: res.bump('generated_code_documents_ttc_inner_key_order_differs(glue)')
        return None
    return doc_first_difference(real, gen) or 'documents differ (order inside extras / ttc)'

def ag_exact_obs(o):
    """an observation of `Impl.obs` / `obsH` with the `ttc` texts normalised, list orders KEPT"""
    if o is None: return None
    c = dict(o); c['nodes'] = [list(n) for n in o['nodes']]
    for n in c['nodes']:
        if len(n) > 7 and n[7][2] != 'null':
            n[7] = list(n[7]); n[7][2] = _ttc(n[7][2])
    return c

def m_doc_encode(x, key=None):
    """a REAL instance-model document (what `Model._to_dict()` returned / the file layer loaded / a hand-edited one) in the
    ordered rendering, for the generated `Model._from_dict` (driver op `gen_load_doc`): dictionaries with their key order and
    key types, an `extras` dictionary as canonical JSON text, floats as their canonical text; a number under `defenses` is
    what `float(...)` makes of it (the call `_from_dict` applies to it)"""
    from .langgen import jtxt
    if isinstance(x, dict):
        if key == 'extras': return ['j', jtxt(x)]
        if key == 'defenses':
            return ['d', [[k, ['f', repr(float(v))] if isinstance(v, (int, float)) and not isinstance(v, bool) else m_doc_encode(v)] for k, v in x.items()]]
        return ['d', [[k, m_doc_encode(v, k)] for k, v in x.items()]]
    if isinstance(x, (list, tuple)): return ['l', [m_doc_encode(v) for v in x]]
    if isinstance(x, float): return ['f', repr(x)]
    return x

def m_doc_compare(real, gen_rendered):
    """-> None when the generated `Model._to_dict` document is the real one (key order of every dictionary whose keys are
    computed; key SET of the fixed-key dictionaries; key and value types), else where they differ first"""
    if isinstance(gen_rendered, dict) and 'error' in gen_rendered:
        return 'the generated _to_dict raises ' + str(gen_rendered['error'])
    gen = ag_doc_decode(gen_rendered)
    if doc_same(real, gen): return None
    return doc_first_difference(real, gen) or 'documents differ (inside extras)'
