"""The third column of the correspondence runs: the GENERATED Lean code (`lean/MalVerif/Py/Gen*/*.lean`, what the
translators make of the current Python source) executed by the driver on the same inputs as the real code and the
hand-written model (driver ops `gen_ag_hist`, `gen_model_hist`, `gen_resolve`, `gen_apriori`).

What it checks is the first arrow of the second tie — *translator + prelude say what CPython does* — also outside the
invariants under which the tie theorems are proved (error paths, inconsistent graphs, odd arguments).

Reporting rule (DESIGN.md §I.2): generated != impl while hand model == impl and the oracle passes  =>
`VIOLATION ... no-failing-input-found` with fingerprint `<pid>:generated-code-divergence:<op>`: the trusted base of the
second tie is broken although the property holds on the input.  If the oracle fails too, it is an ordinary violation."""
from __future__ import annotations
import json
from .common import Violation, run_driver

_ttc_cache: dict = {}
def _ttc(t):
    """the `ttc` dictionary is compared as a value (the generated side re-renders it from its `PyDictS`)"""
    if t is None or t == 'null': return t
    r = _ttc_cache.get(t)
    if r is None:
        r = _ttc_cache[t] = json.dumps(json.loads(t), sort_keys=True, separators=(',', ':'))
    return r

def ag_obs(o, canon_obs):
    """property-level view of an attack-graph observation, `ttc` texts normalised"""
    if o is None: return None
    c = canon_obs(o)
    for n in c['nodes']:
        if len(n) > 7 and n[7][2] != 'null':
            n[7] = list(n[7]); n[7][2] = _ttc(n[7][2])
    return c

def ag_step_same(op, st, a, go, canon_obs, canon_out) -> bool:
    """impl step `st` (already canonicalised as `a` = [err, out, obs]) against the generated-code step `go`: error class,
    query result, canonical state of the graph and of the other side of a deep copy"""
    if st['err'] != go['err'] or a[1] != canon_out(op, go['out']): return False
    g = canon_obs(go['obs'])
    if g != a[2] and ag_obs(go['obs'], canon_obs) != ag_obs(st['obs'], canon_obs): return False
    if (st['other'] is None) != (go['other'] is None): return False
    if st['other'] is not None and ag_obs(go['other'], canon_obs) != ag_obs(st['other'], canon_obs): return False
    return True

def run_both(hand_payloads: list[dict], gen_op: str, rewrite=None) -> tuple[list, list]:
    """one driver batch for the hand-model payloads and their generated-code twins (same payload, other `op`)"""
    gen_payloads = []
    for p in hand_payloads:
        q = dict(p); q['op'] = gen_op
        if rewrite: q = rewrite(q)
        gen_payloads.append(q)
    out = run_driver(hand_payloads + gen_payloads)
    return out[:len(hand_payloads)], out[len(hand_payloads):]

def divergence(pid: str, op: str, what: str, replay: dict) -> Violation:
    return Violation(what=f'the GENERATED Lean code (translation of the current source) and the implementation disagree {what}; '
                          f'the hand-written model agrees with the implementation and the direct oracle sees no violation: '
                          f'a translator rule or a prelude convention does not say what CPython does',
                     fingerprint=f'{pid}:generated-code-divergence:{op}', replay=replay, no_failing_input=True)

def driver_error(pid: str, err: str, replay: dict) -> Violation:
    return Violation(what=f'driver rejected a case for the generated code: {err}', fingerprint=f'{pid}:generated-code-driver-error',
                     replay=replay, no_failing_input=True)
