"""./check <property> [quick|thorough]  — entry point of every registered check"""
from __future__ import annotations
import importlib, os, sys, time, traceback
from . import common

def _round(args):
    """one round of the thorough tier in a worker process: own scratch directory, own seed"""
    pid, seed, lean = args
    common._scratch = None
    os.environ['VERIF_SCRATCH_BASE'] = _round.base
    common.enter_scratch()
    mod = importlib.import_module(f'harness.props.{pid.lower()}')
    try:
        return mod.run(seed=seed, tier='thorough', lean=lean)
    except Exception as e:
        tb = traceback.extract_tb(e.__traceback__)
        inrepo = [f for f in tb if f.filename.startswith(common.REPO + os.sep)]
        r = common.Result(rule='aborted', evaluations=1)
        if inrepo:
            where = f'{os.path.relpath(inrepo[-1].filename, common.REPO)}:{inrepo[-1].name}'
            r.violations.append(common.Violation(
                what=f'the implementation raised {type(e).__name__}: {str(e)[:200]} in {where} on a generated well-formed case',
                fingerprint=f'impl-crash:{type(e).__name__}:{where}',
                replay={'traceback': traceback.format_exception(type(e), e, e.__traceback__)[-12:], 'case': dict(common.CURRENT), 'seed': seed}))
        else:
            r.notes.append('harness error in a thorough round: ' + ''.join(traceback.format_exception(type(e), e, e.__traceback__))[-800:])
            r.harness_error = True
        return r

def thorough_rounds(mod, seed, lean, rounds):
    """the thorough tier: `rounds` independent runs (6 x the quick size each, larger graphs / more hash seeds where the
    module distinguishes the tiers) with different seeds, in parallel worker processes; results are merged"""
    import multiprocessing as mp
    pid = mod.__name__.split('.')[-1].upper()
    _round.base = common.scratch()
    seeds = [seed] + [seed * 1000003 + 7919 * k for k in range(1, rounds)]
    with mp.get_context('fork').Pool(min(rounds, max(2, (os.cpu_count() or 4) - 2))) as pool:
        parts = pool.map(_round, [(pid, s, lean) for s in seeds])
    res = parts[0]
    for r in parts[1:]:
        res.evaluations += r.evaluations; res.nontrivial |= r.nontrivial; res.drift += r.drift
        res.violations += r.violations; res.notes += r.notes; res.traces_validated += r.traces_validated
        for k, v in r.distribution.items(): res.distribution[k] = res.distribution.get(k, 0) + v
    if any(getattr(r, 'harness_error', False) for r in parts):
        print('\n'.join(n for r in parts for n in r.notes if n.startswith('harness error'))[:3000]); sys.exit(2)
    res.notes.append(f'thorough tier: {rounds} rounds with seeds {seeds}')
    return res

def main(argv):
    if len(argv) < 2:
        print('usage: check <Cnn> [quick|thorough] [--replay file]'); return 2
    pid = argv[1]
    tier = os.environ.get('VERIF_TIER') or 'quick'
    replay = None
    rest = argv[2:]
    while rest:
        a = rest.pop(0)
        if a in ('quick', 'thorough'): tier = a
        elif a == '--replay': replay = rest.pop(0)
    seed = int(os.environ.get('VERIF_SEED', '0') or 0)
    t0 = time.time()
    common.enter_scratch()
    mod = importlib.import_module(f'harness.props.{pid.lower()}')
    if replay:
        # a failure may need the code under test to log at DEBUG (every fourth case of a check does): try both
        common.LOG_MODE = 'off'
        rc = mod.replay(replay)
        if rc == 0:
            common.LOG_MODE = 'debug'
            rc = mod.replay(replay)
        return rc
    lean = common.lean_side(pid, tier)
    try:
        if tier == 'thorough' and int(os.environ.get('VERIF_THOROUGH_ROUNDS', '8')) > 1:
            res = thorough_rounds(mod, seed, lean, int(os.environ.get('VERIF_THOROUGH_ROUNDS', '8')))
        else:
            res = mod.run(seed=seed, tier=tier, lean=lean)
    except Exception as e:
        # safety net: the real code raised somewhere the harness does not expect an exception (on the unchanged
        # tree it never does).  Reported with the case the harness was working on.
        tb = traceback.extract_tb(e.__traceback__)
        inrepo = [f for f in tb if f.filename.startswith(common.REPO + os.sep)]
        if not inrepo:
            raise
        last = inrepo[-1]
        where = f'{os.path.relpath(last.filename, common.REPO)}:{last.name}'
        res = common.Result(rule='aborted: the implementation raised on a generated case', evaluations=1)
        res.samples.append({'crash': where})
        res.violations.append(common.Violation(
            what=f'the implementation raised {type(e).__name__}: {str(e)[:200]} in {where} on a generated well-formed case',
            fingerprint=f'impl-crash:{type(e).__name__}:{where}',
            replay={'traceback': traceback.format_exception(type(e), e, e.__traceback__)[-12:], 'case': dict(common.CURRENT)}))
    # the translated-code tie no longer checks against the current source: search harder for a failing input
    tie = lean.get('tie') or {}
    if tie.get('status') in ('broken', 'untranslatable') and not [v for v in res.violations if not v.no_failing_input] \
            and not [v for v in res.violations if v.fingerprint.endswith('no-termination')]:      # (searching on would only hang again)
        extra = 4 if tier == 'quick' else 8
        more = 0
        for k in range(1, extra + 1):
            r2 = mod.run(seed=seed + 7919 * k, tier=tier, lean=lean)
            more += r2.evaluations
            res.evaluations += r2.evaluations; res.nontrivial |= r2.nontrivial; res.drift += r2.drift
            res.violations += r2.violations
            if [v for v in r2.violations if not v.no_failing_input]: break
        res.escalation = {'reason': f'translator tie {tie.get("status")}', 'extra_seeds_run': k, 'extra_cases': more,
                          'failing_input_found': bool([v for v in res.violations if not v.no_failing_input])}
        print(f'NOTE property={pid}: the theorems about the translated code no longer check against the current source '
              f'({tie.get("status")}: {str(tie.get("detail"))[:200]}); searched {more} further cases, '
              f'{"found a failing input" if res.escalation["failing_input_found"] else "no failing input: the verdict rests on the hand-written model and its correspondence"}')
    # listed known findings: replay each witness on the real code on every run
    for k in common.load_known().get('findings', []):
        if k.get('property') == pid and 'witness' in k and hasattr(mod, 'check_witness'):
            try:
                fp = mod.check_witness(k['witness'])
            except Exception as e:
                # the stored witness cannot even be replayed on this tree (the code under test raises on it): that is not
                # the listed finding; whatever broke is reported by the run itself
                fp = f'witness-replay-raised:{type(e).__name__}'
            if fp == k['fingerprint']:
                res.violations.append(common.Violation(what=k['what'], fingerprint=fp, replay=k['witness']))
            else:
                res.notes.append(f'known finding {k.get("id")} no longer reproduces on its witness (got {fp})')
    if common.DRIVER_SKIPPED:
        res.bump('cases left to the Python oracle: the compiled model did not answer within its per-case limit', len(common.DRIVER_SKIPPED))
    if common.LOG_COUNT['DEBUG']:
        res.bump('histories / generations run with the toolbox logging at DEBUG', common.LOG_COUNT['DEBUG'])
        res.bump('histories / generations run at the default log level', common.LOG_COUNT['default'])
    return common.finish(pid, tier, seed, lean, res, mod.ASSUMPTIONS, mod.TRUSTED, t0,
                         getattr(mod, 'PARTIAL', ''))

if __name__ == '__main__':
    try:
        sys.exit(main(sys.argv))
    except SystemExit:
        raise
    except BaseException:
        traceback.print_exc()
        sys.exit(2)
