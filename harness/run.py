"""./check <property> [quick|thorough]  — entry point of every registered check"""
from __future__ import annotations
import importlib, os, sys, time, traceback
from . import common

def main(argv):
    if len(argv) < 2:
        print('usage: check <Cnn> [quick|thorough] [--replay file]'); return 2
    pid = argv[1]
    tier = os.environ.get('VERIF_TIER') or 'quick'
    replay = None
    rest = argv[2:]
    while rest:
        a = rest.pop(0)
        if a in ('quick', 'thorough'): tier = a
        elif a == '--replay': replay = rest.pop(0)
    seed = int(os.environ.get('VERIF_SEED', '0') or 0)
    t0 = time.time()
    common.enter_scratch()
    mod = importlib.import_module(f'harness.props.{pid.lower()}')
    if replay:
        return mod.replay(replay)
    lean = common.lean_side(pid, tier)
    res = mod.run(seed=seed, tier=tier, lean=lean)
    # listed known findings: replay each witness on the real code on every run
    for k in common.load_known().get('findings', []):
        if k.get('property') == pid and 'witness' in k and hasattr(mod, 'check_witness'):
            fp = mod.check_witness(k['witness'])
            if fp == k['fingerprint']:
                res.violations.append(common.Violation(what=k['what'], fingerprint=fp, replay=k['witness']))
            else:
                res.notes.append(f'known finding {k.get("id")} no longer reproduces on its witness (got {fp})')
    return common.finish(pid, tier, seed, lean, res, mod.ASSUMPTIONS, mod.TRUSTED, t0,
                         getattr(mod, 'PARTIAL', ''))

if __name__ == '__main__':
    try:
        sys.exit(main(sys.argv))
    except SystemExit:
        raise
    except BaseException:
        traceback.print_exc()
        sys.exit(2)
