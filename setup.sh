#!/bin/bash
# builds the Lean library (models, proofs) and the compiled driver; offline
set -e
cd "$(dirname "$0")/lean"
lake build 2>&1 | tail -5
test -x .lake/build/bin/driver
