import MalVerif.Py.TieClassesTop
import MalVerif.Py.TieClassesSig
import MalVerif.Py.TieClassesPreFix
import MalVerif.Props.C06
import MalVerif.Proofs.InheritLemmas
/-!
# C06 for the *translated* class factory (`maltoolbox/language/classes_factory.py`)

"For every language, the generated classes expose exactly the language's asset types - each with the defenses it
defines or inherits, defaulting to 1 when the defense is declared Enabled and to 0 otherwise - and its association
types with their two fields (associations sharing a name remain distinguishable). …"

The theorems below are about `Py/GenClasses/Factory.lean` — the Lean text generated from the Python source on every
run — and say: the JSON schema that the translated `_create_classes` leaves in `self.json_schema` (the input of
`python_jsonschema_objects`, whose validation is the assumed behaviour `okDefense` / `okMember` / `okCount` of the
hand model), *read back* through the abstraction of `Py/AbsClasses.lean`, is the class table of the hand model
(`MS.defensesOf`, `MS.assocClasses` of `Model/MState.lean`, about which `Props/C06.lean` proves the rest of C06).

`Built pjs lg s`: the constructor of the factory (`json_schema = {}`, then `_create_classes()`) returned, leaving `s`.
`RepLG lg L` (`Py/AbsClasses.lean`): the language graph `lg` is the one of the language `L`.
-/
namespace MalVerif.PropsGen.C06
open MalVerif MalVerif.MS MalVerif.Py MalVerif.Py.Classes MalVerif.Py.Classes.Gen
open MalVerif.Py.Visitor (V)

/-- `LanguageClassesFactory(lang_graph)` returned and left the factory object `s` -/
def Built (pjs : Pjs) (lg : LG) (s : Self) : Prop := factory_create_classes pjs lg {} = .ok s

/-- no defense of the language is named like one of the two fixed properties `id` / `type` of an asset class -/
def NoReservedDefenseL (L : Lang) : Prop :=
  ∀ a ∈ L.assets, ∀ e ∈ L.foldSteps a.name, e.2.type = "defense" → e.1 ≠ "id" ∧ e.1 ≠ "type"

/-- asset names are pairwise distinct -/
def AssetNamesDistinct (L : Lang) : Prop := (L.assets.map (·.name)).Nodup

/-- class names of the associations are pairwise distinct (see `class_names_distinct` for when) -/
def ClassNamesDistinct (L : Lang) : Prop := ((assocClasses L).map (·.cls)).Nodup

/-! ### helpers -/

theorem rep_names_nodup {lg : LG} {L : Lang} (h : RepLG lg L) (hn : AssetNamesDistinct L) :
    (lg.assets.map (fun x => (lg.asset x).name)).Nodup := by rw [h.assets]; exact hn

theorem built_parts {pjs : Pjs} {lg : LG} {s : Self} (hb : Built pjs lg s) :
    ∃ ra, assetPart lg = .ok ra ∧ s.json_schema = schemaOf ra (assocPart lg) :=
  create_classes_schema pjs lg {} s hb

theorem built_asset_names {pjs : Pjs} {lg : LG} {L : Lang} {s : Self} (h : RepLG lg L) (hb : Built pjs lg s)
    (hn : AssetNamesDistinct L) : schemaAssetNames s.json_schema = lg.assets.map (fun x => (lg.asset x).name) := by
  obtain ⟨ra, hra, hs⟩ := built_parts hb
  unfold schemaAssetNames
  rw [hs, assetDefs_schemaOf]
  exact assetPart_names lg ra hra (rep_names_nodup h hn)

/-- every element of the left list has a partner in the right list -/
theorem all2_mem_left {α β} (p : α → β → Bool) : ∀ (l : List α) (m : List β), all2 p l m = true → ∀ x ∈ l,
    ∃ y ∈ m, p x y = true
  | [], _, _, _, hx => nomatch hx
  | _ :: _, [], h, _, _ => by simp [all2] at h
  | a :: as, b :: bs, h, x, hx => by
    simp only [all2, Bool.and_eq_true] at h
    rcases List.mem_cons.1 hx with rfl | hx
    · exact ⟨b, List.mem_cons_self, h.1⟩
    · obtain ⟨y, hy, hp⟩ := all2_mem_left p as bs h.2 x hx
      exact ⟨y, List.mem_cons_of_mem _ hy, hp⟩

/-- the TTC of a step object of a represented language graph is `None` or a dictionary: the factory can read it -/
theorem repStep_ttcOk (st : LGStep) (e : String × StepDecl) (h : repStep st e = true) : ttcOk st.ttc = true := by
  unfold repStep at h
  unfold ttcOk
  cases hs : st.ttc <;> rw [hs] at h <;> simp_all [Visitor.truthy, Visitor.isDict]

/-! ### asset classes -/

/-- **the generated classes expose exactly the language's asset types**: the asset classes of the schema are the
declared asset types, in declaration order -/
theorem asset_classes_exact (pjs : Pjs) (lg : LG) (L : Lang) (s : Self) (h : RepLG lg L) (hb : Built pjs lg s)
    (hn : AssetNamesDistinct L) : schemaAssetNames s.json_schema = L.assets.map (·.name) := by
  rw [built_asset_names h hb hn, h.assets]

/-- **each with the defenses it defines or inherits, defaulting to 1 when declared Enabled and to 0 otherwise**: the
defenses of the asset class of `a`, with their defaults, are `defensesOf L a.name` of the hand model -/
theorem defenses_exact_translated (pjs : Pjs) (lg : LG) (L : Lang) (s : Self) (h : RepLG lg L) (hb : Built pjs lg s)
    (hn : AssetNamesDistinct L) (hr : NoReservedDefenseL L) (a : AssetDecl) (ha : a ∈ L.assets) :
    schemaDefenses s.json_schema a.name = some (defensesOf L a.name) := by
  obtain ⟨ra, hra, hs⟩ := built_parts hb
  have hmem : a.name ∈ lg.assets.map (fun x => (lg.asset x).name) := by
    rw [h.assets]; exact List.mem_map.2 ⟨a, ha, rfl⟩
  obtain ⟨x, hx, hxn⟩ := List.mem_map.1 hmem
  obtain ⟨ps, hps, hl⟩ := assetPart_lookup lg ra hra (rep_names_nodup h hn) x hx
  have hsteps := h.steps x hx
  have hnames := repSteps_names _ _ hsteps
  have hnd : ((lg.asset x).attack_steps.map (·.name)).Nodup := by
    rw [hnames]; exact foldSteps_keys_nodup L _
  have hres : NoReservedDefense (lg.asset x).attack_steps := by
    intro st hst htype
    obtain ⟨e, he, hrep⟩ := all2_mem_left repStep _ _ hsteps st hst
    obtain ⟨he1, he2, _⟩ := repStep_spec _ _ hrep
    have he1 := he1.symm
    have he2 := he2.symm
    rw [hxn] at he
    have := hr a ha e he (by rw [he2]; exact htype)
    rw [he1] at this; exact this
  unfold schemaDefenses
  rw [hs, assetDefs_schemaOf, ← hxn, hl]
  show some ((propsOf (assetEntry lg (lg.asset x) ps)).filterMap defenseOfProp) = _
  have hp : propsOf (assetEntry lg (lg.asset x) ps) = ps := by
    unfold assetEntry; cases (lg.asset x).super_assets.isEmpty <;> rfl
  rw [hp, assetProps_defenses _ ps hps hnd hres, repLG_defenses lg L h x hx]

/-- the same, spelled out with `Props/C06.defenses_exact`: `d` is a defense of the class of `a` with default `v` iff
the type defines or inherits a defense `d`, and `v` is 1 when that is declared `Enabled` and 0 otherwise -/
theorem defense_default_iff (pjs : Pjs) (lg : LG) (L : Lang) (s : Self) (h : RepLG lg L) (hb : Built pjs lg s)
    (hn : AssetNamesDistinct L) (hr : NoReservedDefenseL L) (a : AssetDecl) (ha : a ∈ L.assets) (d v : String) :
    (∃ ds, schemaDefenses s.json_schema a.name = some ds ∧ (d, v) ∈ ds) ↔
      ∃ decl, (d, decl) ∈ L.foldSteps a.name ∧ decl.type = "defense" ∧
        v = (if decl.ttcName = some "Enabled" then "1.0" else "0.0") := by
  rw [defenses_exact_translated pjs lg L s h hb hn hr a ha, ← MalVerif.C06.defenses_exact]
  constructor
  · rintro ⟨ds, hds, hm⟩; cases hds; exact hm
  · intro hm; exact ⟨_, rfl, hm⟩

/-- the constructor on an ARBITRARY language graph: it returns iff the library accepts the schema and no defense
carries a TTC that is true but not a dictionary (`defense.ttc.get('name')` would raise AttributeError on it; the
attribute is annotated `dict`, and `_generate_graph` only stores `None` or dictionaries there).  Since fix 6addd5c
nothing else is left: a dictionary without the key `name` - a composite TTC - is read as "not Enabled" -/
theorem built_iff_raw (pjs : Pjs) (lg : LG) :
    (∃ s, Built pjs lg s) ↔
      (∀ x ∈ lg.assets, ∀ st ∈ (lg.asset x).attack_steps, st.type = "defense" → ttcOk st.ttc = true) ∧
      ∀ ra, assetPart lg = .ok ra → ∃ b, pjs.ObjectBuilder (schemaOf ra (assocPart lg)) = .ok b ∧
        ∃ ns, pjs.build_classes b (V.bool false) = .ok ns := by
  unfold Built
  rw [create_classes_ok_iff]
  constructor
  · rintro ⟨ra, hra, hb⟩
    refine ⟨fun x hx => (assetProps_ok_iff _).1 ((assetPart_ok_iff lg).1 ⟨ra, hra⟩ x hx), ?_⟩
    intro ra' hra'
    rw [hra] at hra'; cases hra'; exact hb
  · rintro ⟨hok, hb⟩
    obtain ⟨ra, hra⟩ := (assetPart_ok_iff lg).2 (fun x hx => (assetProps_ok_iff _).2 (hok x hx))
    exact ⟨ra, hra, hb ra hra⟩

/-- on the language graph of a language the schema can always be built (no condition on the TTCs) -/
theorem schema_always_built (lg : LG) (L : Lang) (h : RepLG lg L) : ∃ ra, assetPart lg = .ok ra := by
  apply (assetPart_ok_iff lg).2
  intro x hx
  apply (assetProps_ok_iff _).2
  intro st hst _
  obtain ⟨e, _, hrep⟩ := all2_mem_left repStep _ _ (h.steps x hx) st hst
  exact repStep_ttcOk st e hrep

/-- **the constructor returns iff the library accepts the schema** (language graph of a language; since fix 6addd5c
no condition on the TTCs of the defenses is left) -/
theorem built_iff (pjs : Pjs) (lg : LG) (L : Lang) (h : RepLG lg L) :
    (∃ s, Built pjs lg s) ↔
      ∃ ra, assetPart lg = .ok ra ∧ ∃ b, pjs.ObjectBuilder (schemaOf ra (assocPart lg)) = .ok b ∧
        ∃ ns, pjs.build_classes b (V.bool false) = .ok ns := by
  unfold Built
  exact create_classes_ok_iff pjs lg {}

/-- with a library that accepts every schema the constructor returns for every language -/
theorem built_of_accepting_library (pjs : Pjs) (lg : LG) (L : Lang) (h : RepLG lg L)
    (hacc : ∀ schema, ∃ b, pjs.ObjectBuilder schema = .ok b ∧ ∃ ns, pjs.build_classes b (V.bool false) = .ok ns) :
    ∃ s, Built pjs lg s := by
  obtain ⟨ra, hra⟩ := schema_always_built lg L h
  exact (built_iff pjs lg L h).2 ⟨ra, hra, hacc _⟩

/-- **a defense with a composite TTC** (or a number: any TTC without a single distribution name, `ttcName = none`)
**gets the default 0** - the repaired code (fix 6addd5c) does not raise on it -/
theorem composite_ttc_defense_defaults_to_zero (pjs : Pjs) (lg : LG) (L : Lang) (s : Self) (h : RepLG lg L)
    (hb : Built pjs lg s) (hn : AssetNamesDistinct L) (hr : NoReservedDefenseL L) (a : AssetDecl) (ha : a ∈ L.assets)
    (d : String) (decl : StepDecl) (hd : (d, decl) ∈ L.foldSteps a.name) (ht : decl.type = "defense")
    (hc : decl.ttcName = none) :
    ∃ ds, schemaDefenses s.json_schema a.name = some ds ∧ (d, "0.0") ∈ ds :=
  (defense_default_iff pjs lg L s h hb hn hr a ha d "0.0").2 ⟨decl, hd, ht, by rw [hc]; rfl⟩

/-! ### association classes -/

/-- **and its association types with their two fields**: the class of a declaration - found under the declaration's
name with the class name of the hand model (`name`, or `name_Left_Right` when the name is shared) - has the declared
field names, the declared end types as item types and `maxItems` = the declared maxima (none = unbounded) -/
theorem assoc_class_translated (pjs : Pjs) (lg : LG) (L : Lang) (s : Self) (h : RepLG lg L) (hb : Built pjs lg s)
    (hn : AssetNamesDistinct L) (hc : ClassNamesDistinct L) (d : AssocDecl) (hd : d ∈ L.assocs)
    (hf : d.leftField ≠ d.rightField) :
    schemaClassAt s.json_schema d.name (className L d) = some (classOf L d) := by
  obtain ⟨ra, hra, hs⟩ := built_parts hb
  obtain ⟨i, hi, rfl⟩ := List.mem_iff_getElem.1 hd
  unfold schemaClassAt
  rw [built_asset_names h hb hn, hs, assocDefs_schemaOf]
  exact assocPart_class h hc i hi hf

/-- the association classes of the schema are exactly the classes of the declarations (by class name) -/
theorem assoc_classes_exact (pjs : Pjs) (lg : LG) (L : Lang) (s : Self) (h : RepLG lg L) (hb : Built pjs lg s)
    (k : String) : k ∈ flatKeys (assocDefs s.json_schema) ↔ ∃ c ∈ assocClasses L, c.cls = k := by
  obtain ⟨ra, hra, hs⟩ := built_parts hb
  rw [hs, assocDefs_schemaOf, assocPart_flatKeys]
  have hlen := rep_assoc_length h
  constructor
  · rintro ⟨a, ha, rfl⟩
    obtain ⟨i, hi, rfl⟩ := List.mem_iff_getElem.1 ha
    have hi' : i < L.assocs.length := hlen ▸ hi
    refine ⟨classOf L L.assocs[i], (MalVerif.C06.mem_assocClasses L _).2 ⟨_, List.getElem_mem hi', rfl⟩, ?_⟩
    exact (rep_slotCls h (rep_assoc_get h i hi hi')).symm
  · rintro ⟨c, hc, rfl⟩
    obtain ⟨d, hd, rfl⟩ := (MalVerif.C06.mem_assocClasses L c).1 hc
    obtain ⟨i, hi, rfl⟩ := List.mem_iff_getElem.1 hd
    have hi' : i < lg.associations.length := hlen ▸ hi
    exact ⟨lg.associations[i], List.getElem_mem hi', rep_slotCls h (rep_assoc_get h i hi' hi)⟩

/-- when class names are pairwise distinct: declarations pairwise different in (name, left asset, right asset) and
no association name / left asset name containing an underscore (`Props/C06.assoc_classes_distinct`) -/
theorem class_names_distinct (L : Lang) (hu : ∀ a ∈ L.assocs, NoUnderscore a.name ∧ NoUnderscore a.leftAsset)
    (ht : (L.assocs.map (fun a => (a.name, a.leftAsset, a.rightAsset))).Nodup) : ClassNamesDistinct L := by
  unfold ClassNamesDistinct
  rw [assocClasses_eq_map, List.map_map]
  have hp : L.assocs.Pairwise (fun a b => (a.name, a.leftAsset, a.rightAsset) ≠ (b.name, b.leftAsset, b.rightAsset)) :=
    List.pairwise_map.1 ht
  apply List.pairwise_map.2
  exact hp.imp_of_mem (fun {a b} ha hb hne => MalVerif.C06.assoc_classes_distinct L hu a b ha hb hne)

/-- **associations sharing a name remain distinguishable**: two declarations that differ in name, left or right
asset are found under different class names, each with its own fields (naming hypothesis of `Props/C06`) -/
theorem shared_names_distinguishable (pjs : Pjs) (lg : LG) (L : Lang) (s : Self) (h : RepLG lg L) (hb : Built pjs lg s)
    (hn : AssetNamesDistinct L) (hu : ∀ a ∈ L.assocs, NoUnderscore a.name ∧ NoUnderscore a.leftAsset)
    (ht : (L.assocs.map (fun a => (a.name, a.leftAsset, a.rightAsset))).Nodup)
    (d d' : AssocDecl) (hd : d ∈ L.assocs) (hd' : d' ∈ L.assocs)
    (hne : (d.name, d.leftAsset, d.rightAsset) ≠ (d'.name, d'.leftAsset, d'.rightAsset))
    (hf : d.leftField ≠ d.rightField) (hf' : d'.leftField ≠ d'.rightField) :
    className L d ≠ className L d' ∧
    schemaClassAt s.json_schema d.name (className L d) = some (classOf L d) ∧
    schemaClassAt s.json_schema d'.name (className L d') = some (classOf L d') :=
  ⟨MalVerif.C06.assoc_classes_distinct L hu d d' hd hd' hne,
   assoc_class_translated pjs lg L s h hb hn (class_names_distinct L hu ht) d hd hf,
   assoc_class_translated pjs lg L s h hb hn (class_names_distinct L hu ht) d' hd' hf'⟩

/-- the translated `get_association_by_signature` returns the class name of the hand model for the signature of every
declaration (a shared name must be shared by declarations with at least two different class names) -/
theorem signature_lookup_translated (pjs : Pjs) (lg : LG) (L : Lang) (s : Self) (h : RepLG lg L) (hb : Built pjs lg s)
    (hc : ClassNamesDistinct L) (d : AssocDecl) (hd : d ∈ L.assocs) :
    factory_get_association_by_signature lg s d.name d.leftAsset d.rightAsset = .ok (className L d) := by
  obtain ⟨ra, hra, hs⟩ := built_parts hb
  obtain ⟨i, hi, rfl⟩ := List.mem_iff_getElem.1 hd
  have hlen := rep_assoc_length h
  have hi' : i < lg.associations.length := hlen ▸ hi
  have hr := rep_assoc_get h i hi' hi
  have hnd' : (L.assocs.map (className L)).Nodup := by
    have := hc; unfold ClassNamesDistinct at this
    rw [assocClasses_eq_map, List.map_map] at this; exact this
  have h2 : isDup lg lg.associations[i] = true →
      ∃ b ∈ lg.associations, b.name = lg.associations[i].name ∧ subName lg b ≠ subName lg lg.associations[i] := by
    intro hdup
    -- the name occurs at a second position `j`; the class names at `i` and `j` differ
    have hcnt : (lg.associations.filter (fun b => b.name == lg.associations[i].name)).length > 1 := by
      unfold isDup at hdup; simpa using hdup
    have hex : ∃ j, ∃ hj : j < lg.associations.length, j ≠ i ∧ lg.associations[j].name = lg.associations[i].name := by
      apply Classical.byContradiction
      intro hno
      have hall : ∀ j (hj : j < lg.associations.length), lg.associations[j].name = lg.associations[i].name → j = i := by
        intro j hj hnm
        apply Classical.byContradiction
        intro hji; exact hno ⟨j, hj, hji, hnm⟩
      -- at most one position carries the name: the filtered list has length ≤ 1
      have : ∀ (l : List LGAssoc) (off : Nat), (∀ k (hk : k < l.length), l[k].name = lg.associations[i].name → off + k = i) →
          (l.filter (fun b => b.name == lg.associations[i].name)).length ≤ 1 := by
        intro l
        induction l with
        | nil => intro _ _; simp
        | cons y ys ih =>
          intro off hk
          rw [List.filter_cons]
          by_cases hy : y.name = lg.associations[i].name
          · have h0 := hk 0 (by simp) hy
            have hrest : (ys.filter (fun b => b.name == lg.associations[i].name)).length = 0 := by
              rw [List.length_eq_zero_iff, List.filter_eq_nil_iff]
              intro b hbm hbn
              obtain ⟨k, hk', rfl⟩ := List.mem_iff_getElem.1 hbm
              have := hk (k + 1) (by simpa using hk') (by simpa using hbn)
              omega
            simp [hy, hrest]
          · have : (y.name == lg.associations[i].name) = false := by simpa using hy
            rw [this]
            exact ih (off + 1) (fun k hk' hnm => by
              have := hk (k + 1) (by simpa using hk') (by simpa using hnm); omega)
      have := this lg.associations 0 (fun k hk hnm => by have := hall k hk hnm; omega)
      omega
    obtain ⟨j, hj, hji, hnm⟩ := hex
    have hj' : j < L.assocs.length := hlen ▸ hj
    refine ⟨lg.associations[j], List.getElem_mem hj, hnm, ?_⟩
    intro hsub
    have hdj : isDup lg lg.associations[j] = true := (isDup_congr lg lg.associations[i] lg.associations[j] hnm).trans hdup
    have hs1 : slotCls lg lg.associations[j] = slotCls lg lg.associations[i] := by
      unfold slotCls; rw [hdj, hdup]; simpa using hsub
    rw [rep_slotCls h (rep_assoc_get h j hj hj'), rep_slotCls h hr] at hs1
    exact hji ((List.getElem_inj (i := j) (j := i) (h₀ := by simpa using hj') (h₁ := by simpa using hi) hnd').1
      (by simpa using hs1))
  have hsig := signature_of_assoc lg (finalGroup "LanguageAsset" ra) s.ns
    (if (assocPart lg).1.isEmpty then none else some (assocPart lg).1) lg.associations[i] (List.getElem_mem hi') h2
  have hself : s = Self.mk (skel (finalGroup "LanguageAsset" ra)
      (group "LanguageAssociation" (if (assocPart lg).1.isEmpty then none else some (assocPart lg).1) (assocPart lg).2))
      s.ns := by
    cases s with
    | mk js ns => simp only at hs; subst hs; rfl
  rw [hself]
  have hr' := hr
  unfold repAssoc repField at hr'
  simp only [Bool.and_eq_true, beq_iff_eq] at hr'
  rw [hr'.1.1, hr'.1.2.1.1.2, hr'.2.1.1.2, rep_slotCls h hr] at hsig
  exact hsig

/-- **`maxItems` = the declared maximum, 0 included** (fix 6ddb0c4): a field declared with maximum 0 takes no member -/
theorem max_zero_translated (pjs : Pjs) (lg : LG) (L : Lang) (s : Self) (h : RepLG lg L) (hb : Built pjs lg s)
    (hn : AssetNamesDistinct L) (hc : ClassNamesDistinct L) (d : AssocDecl) (hd : d ∈ L.assocs)
    (hf : d.leftField ≠ d.rightField) (h0 : d.leftMax = some 0) :
    ∃ c, schemaClassAt s.json_schema d.name (className L d) = some c ∧ c.lmax = some 0 ∧
      ∀ n, okCount c.lmax n = true ↔ n = 0 := by
  refine ⟨classOf L d, assoc_class_translated pjs lg L s h hb hn hc d hd hf, h0, fun n => ?_⟩
  show okCount d.leftMax n = true ↔ n = 0
  rw [h0]; simp [okCount]

/-- KF-C06-1 reproduced by the translated code: a declaration whose two ends carry the same field name gets a class
with a single field - the right end's, with the right end's type and maximum - so it is not one of the hand model's
two-field classes; the left end is lost -/
theorem same_field_name_one_field (pjs : Pjs) (lg : LG) (L : Lang) (s : Self) (h : RepLG lg L) (hb : Built pjs lg s)
    (hn : AssetNamesDistinct L) (hc : ClassNamesDistinct L) (d : AssocDecl) (hd : d ∈ L.assocs)
    (hf : d.leftField = d.rightField) :
    schemaClassAt s.json_schema d.name (className L d) = none ∧
    ∃ e spec, entryAt (assocDefs s.json_schema) d.name (className L d) = some e ∧
      propsOf e = [(d.rightField, spec)] ∧
      fieldOf (schemaAssetNames s.json_schema) (d.rightField, spec) = some (d.rightField, d.rightAsset, d.rightMax) := by
  obtain ⟨ra, hra, hs⟩ := built_parts hb
  obtain ⟨i, hi, rfl⟩ := List.mem_iff_getElem.1 hd
  obtain ⟨e, spec, he, hp, hfo, hcl⟩ := assocPart_same_field h hc i hi hf
  have hnames := built_asset_names h hb hn
  refine ⟨?_, e, spec, ?_, hp, ?_⟩
  · unfold schemaClassAt
    rw [hnames, hs, assocDefs_schemaOf, he]
    exact hcl
  · rw [hs, assocDefs_schemaOf]; exact he
  · rw [hnames]; exact hfo

/-! ### the naming hypothesis is needed (the counterexamples of `Props/C06`, with their asset types declared) -/

/-- `Demo.cex1` with assets: the association name `A_X_Y` collides with the composed name of `A` between `X` and `Y` -/
def cexNames : Lang :=
  { assets := [{ name := "X" }, { name := "Y" }, { name := "Z" }, { name := "P" }, { name := "Q" }],
    assocs := MS.Demo.cex1.assocs }

/-- `Demo.cex2` with assets: `A_X_Y_Z` is `A` between `X_Y` and `Z` and between `X` and `Y_Z` -/
def cexLeft : Lang :=
  { assets := [{ name := "X_Y" }, { name := "Z" }, { name := "X" }, { name := "Y_Z" }],
    assocs := MS.Demo.cex2.assocs }

theorem cexNames_rep : RepLG (lgOfLang cexNames) cexNames := ⟨by decide, by decide, by decide⟩
theorem cexLeft_rep : RepLG (lgOfLang cexLeft) cexLeft := ⟨by decide, by decide, by decide⟩

/-- without the hypothesis on association names two declarations get the same class name in the schema built by the
translated factory (the left asset names have no underscore, the declarations differ) -/
theorem underscore_in_name_collides (pjs : Pjs) (s : Self) (hb : Built pjs (lgOfLang cexNames) s) :
    (∀ a ∈ cexNames.assocs, NoUnderscore a.leftAsset) ∧
    (cexNames.assocs.map (fun a => (a.name, a.leftAsset, a.rightAsset))).Nodup ∧
    ¬ (flatKeys (assocDefs s.json_schema)).Nodup := by
  obtain ⟨ra, _, hs⟩ := built_parts hb
  rw [hs, assocDefs_schemaOf]
  refine ⟨by unfold NoUnderscore; decide, by decide, by decide⟩

/-- without the hypothesis on left asset names two different declarations end up in ONE class: the second overwrites
the first (the association names have no underscore) -/
theorem underscore_in_left_asset_collides (pjs : Pjs) (s : Self) (hb : Built pjs (lgOfLang cexLeft) s) :
    (∀ a ∈ cexLeft.assocs, NoUnderscore a.name) ∧
    (cexLeft.assocs.map (fun a => (a.name, a.leftAsset, a.rightAsset))).Nodup ∧
    flatKeys (assocDefs s.json_schema) = ["A_X_Y_Z"] ∧ cexLeft.assocs.length = 2 := by
  obtain ⟨ra, _, hs⟩ := built_parts hb
  rw [hs, assocDefs_schemaOf]
  refine ⟨by unfold NoUnderscore; decide, by decide, by decide, rfl⟩

/-! ### the hypotheses are satisfiable: `Demo.lang` of `Props/C06` (inheritance, an inherited Enabled defense, two
associations sharing the name `Link`) -/

/-- a library that accepts every schema -/
def anyPjs : Pjs := { ObjectBuilder := fun s => pure s, build_classes := fun b _ => pure b }

theorem demo_rep : RepLG (lgOfLang MS.Demo.lang) MS.Demo.lang := ⟨by decide, by decide, by decide⟩

example : AssetNamesDistinct MS.Demo.lang := by unfold AssetNamesDistinct; decide
example : NoReservedDefenseL MS.Demo.lang := by unfold NoReservedDefenseL; decide
example : ClassNamesDistinct MS.Demo.lang := by unfold ClassNamesDistinct; decide
example : ∀ d ∈ MS.Demo.lang.assocs, d.leftField ≠ d.rightField := by decide
example : (MS.Demo.lang.assocs.map (fun a => (a.name, a.leftAsset, a.rightAsset))).Nodup := by decide

/-- the constructor returns on the language graph of `Demo.lang` -/
theorem demo_built : ∃ s, Built anyPjs (lgOfLang MS.Demo.lang) s :=
  built_of_accepting_library _ _ _ demo_rep (fun _ => ⟨_, rfl, _, rfl⟩)

/-- … and what the theorems say of it: asset classes, the defenses of `Host` (one inherited and Enabled), the class of
the second `Link`, the signature lookup -/
example : ∀ s, Built anyPjs (lgOfLang MS.Demo.lang) s →
    schemaAssetNames s.json_schema = ["Base", "Host", "Net"] ∧
    schemaDefenses s.json_schema "Host" = some [("hardened", "1.0"), ("patched", "0.0")] ∧
    schemaClassAt s.json_schema "Link" "Link_Host_Host" =
      some { cls := "Link_Host_Host", lf := "peers", ltype := "Host", lmax := none, rf := "peerOf", rtype := "Host", rmax := none } ∧
    factory_get_association_by_signature (lgOfLang MS.Demo.lang) s "Link" "Host" "Net" = .ok "Link_Host_Net" := by
  intro s hb
  have hn : AssetNamesDistinct MS.Demo.lang := by unfold AssetNamesDistinct; decide
  have hc : ClassNamesDistinct MS.Demo.lang := by unfold ClassNamesDistinct; decide
  have hr : NoReservedDefenseL MS.Demo.lang := by unfold NoReservedDefenseL; decide
  refine ⟨asset_classes_exact _ _ _ s demo_rep hb hn, ?_, ?_, ?_⟩
  · exact defenses_exact_translated _ _ _ s demo_rep hb hn hr MS.Demo.lang.assets[1] (List.getElem_mem _)
  · exact assoc_class_translated _ _ _ s demo_rep hb hn hc MS.Demo.lang.assocs[1] (List.getElem_mem _) (by decide)
  · exact signature_lookup_translated _ _ _ s demo_rep hb hc MS.Demo.lang.assocs[0] (List.getElem_mem _)

/-! ### the defect repaired by 6addd5c -/

/-- a language graph with one asset type `Host` whose defense `d` carries a composite TTC (a dictionary without the
key `name`, as the compiler produces for `Exponential(1.0) + Exponential(2.0)`) -/
def compositeTtcGraph : LG :=
  let fn (n a : String) : V := V.dict [("type", V.str "function"), ("name", V.str n), ("arguments", V.list [V.num a])]
  let ttc : V := V.dict [("type", V.str "addition"), ("lhs", fn "Exponential" "1.0"), ("rhs", fn "Exponential" "2.0")]
  { asset := fun _ => { name := "Host", attack_steps := [{ name := "d", type := "defense", ttc := ttc }] },
    assets := [0] }

/-- the defenses (with defaults) of class `t` in the schema a constructor call leaves; `none` when it raised -/
def defensesAfter (r : M Self) (t : String) : Option (List (String × String)) :=
  match r with
  | .ok s => schemaDefenses s.json_schema t
  | .error _ => none

/-- the repaired code (the generated `factory_create_classes`) builds the class of `Host` with `d` defaulting to 0 -/
theorem composite_ttc_witness :
    defensesAfter (factory_create_classes anyPjs compositeTtcGraph {}) "Host" = some [("d", "0.0")] := by
  decide

/-- **witness of the defect**: the pre-fix code (`Py/TieClassesPreFix.lean`: `defense.ttc['name']`) raises KeyError
on the same language graph - classes could not be generated for a language with such a defense -/
theorem pre_fix_composite_ttc_raises :
    PreFix.create_classes anyPjs compositeTtcGraph {} = .error (.py .keyError) := rfl

/-- a TTC that is true but not a dictionary (the number 3) -/
def numberTtcGraph : LG :=
  { asset := fun _ => { name := "Host", attack_steps := [{ name := "d", type := "defense", ttc := V.int 3 }] },
    assets := [0] }

/-- what is left on an arbitrary graph: `.get` on such a TTC raises (AttributeError) -/
example : ¬ ∃ s, Built anyPjs numberTtcGraph s := by
  rw [built_iff_raw]
  intro h
  have := h.1 0 List.mem_cons_self _ List.mem_cons_self rfl
  cases this

end MalVerif.PropsGen.C06
