import MalVerif.Py.TieNodes
import MalVerif.Props.C02
/-!
# C02 for the *generated* first loop of `AttackGraph._generate_graph`

"Generating an attack graph yields exactly one node for every pair (asset in the model, attack step that the
asset's type defines or inherits) and no other node; each node carries that step's type, TTC, tags and MITRE info,
a defense status equal to the asset's current value of that defense, and, for existence / non-existence steps, a
status telling whether the step's requirement expression reaches at least one asset in the model.  Node ids are
unique, full names (asset name ':' step name) are unique, and lookup by id or by full name returns precisely that
node."

The code is `MalVerif/Py/Gen/Nodes.lean: graph__generate_graph_nodes` (the loop `for asset in self.model.assets:`,
regenerated from `maltoolbox/attackgraph/attackgraph.py` on every run), run in the environment `genEnvOf L m atts`
(`Py/AbsGen.lean`: the model's assets, the attack steps `L.foldSteps` of their types, the assets' defense values)
from a heap whose graph containers are empty (`FreshGraph`: what `__init__` / `regenerate_graph` set up).

`FirstLoop L m atts s s'`: for every sufficiently large recursion budget of the step-expression evaluator the loop
returns the heap `s'`.  `first_loop_returns` is totality (whenever the hand model's `genNodes` succeeds — i.e.
every exist / notExist step has a requirement whose evaluation succeeds, `C02.exist_steps_have_requirement`);
the other theorems describe `s'`.  The new nodes are the references `s.nfresh + j`, `j` the position of the pair
`(a, sn, d)` in `nodeSpecs L m` (model order, then the order of the inheritance fold).
-/
namespace MalVerif.PropsGen.C02
open MalVerif MalVerif.Py MalVerif.Py.Gen MalVerif.Py.Tie

/-- the translated first loop, started on `s`, returns `s'` (for every sufficiently large recursion budget) -/
def FirstLoop (L : Lang) (m : Inst) (atts : List PyAttackerInfo) (s s' : H) : Prop :=
  ∃ F, ∀ fuel, F ≤ fuel → graph__generate_graph_nodes s (genEnvOf L m atts fuel) = .ok s'

/-- what every theorem below assumes: asset ids are distinct, the hand model's node generation returns `ns`, the
loop was started on a heap `s` with empty graph containers and returned `s'` -/
structure Setting (L : Lang) (m : Inst) (atts : List PyAttackerInfo) (ns : List GNode) (s s' : H) : Prop where
  ids : (m.assets.map (·.id)).Nodup
  gen : genNodes L m = .ok ns
  fresh : FreshGraph s
  run : FirstLoop L m atts s s'

/-- **totality**: the loop returns whenever the hand model's node generation does (and the result does not depend
on the recursion budget) -/
theorem first_loop_returns (L : Lang) (m : Inst) (atts : List PyAttackerInfo) (hid : (m.assets.map (·.id)).Nodup)
    (ns : List GNode) (h : genNodes L m = .ok ns) (s : H) (hs : FreshGraph s) :
    ∃ s', FirstLoop L m atts s s' := by
  obtain ⟨F, hF⟩ := nodes_tie L m atts hid ns h
  exact ⟨nodesHeap L m ns s, F, fun fuel hf => (hF fuel hf s hs).1⟩

/-- the heap is the one described by the tie (`TN.Post`) -/
theorem setting_post {L : Lang} {m : Inst} {atts : List PyAttackerInfo} {ns : List GNode} {s s' : H}
    (S : Setting L m atts ns s s') : TN.Post s.nfresh (nodeSpecs L m) ns s s' := by
  obtain ⟨F, hF⟩ := nodes_tie L m atts S.ids ns S.gen
  obtain ⟨F', hF'⟩ := S.run
  have h1 := (hF (max F F') (Nat.le_max_left _ _) s S.fresh)
  have h2 := hF' (max F F') (Nat.le_max_right _ _)
  rw [h2] at h1
  have e : s' = nodesHeap L m ns s := Except.ok.inj h1.1
  rw [e]
  exact h1.2

/-- **one node per pair, in loop order, and no other node**: the node list after the loop consists of one new
reference per pair of `nodeSpecs L m`, and the `j`-th new node belongs to the asset and carries the step name of
the `j`-th pair — the pairs being exactly (asset of the model, step its type defines or inherits)
(`C02.spec_mem_iff`) -/
theorem nodes_are_the_pairs {L : Lang} {m : Inst} {atts : List PyAttackerInfo} {ns : List GNode} {s s' : H}
    (S : Setting L m atts ns s s') :
    s'.nodes = List.range' s.nfresh (nodeSpecs L m).length ∧
    (∀ j (hj : j < (nodeSpecs L m).length),
      (s'.n (s.nfresh + j)).asset = some (assetObj (nodeSpecs L m)[j].1) ∧
      (s'.n (s.nfresh + j)).name = (nodeSpecs L m)[j].2.1) ∧
    (∀ a sn d, (a, sn, d) ∈ nodeSpecs L m ↔ a ∈ m.assets ∧ (sn, d) ∈ L.foldSteps a.type) := by
  have P := setting_post S
  have hlen := MalVerif.C02.length_eq L m ns S.gen
  refine ⟨?_, fun j hj => ?_, fun a sn d => MalVerif.C02.spec_mem_iff L m a sn d⟩
  · rw [P.nodes, S.fresh.nodes, List.nil_append, TN.post_nodes L m ns S.gen, hlen]
  · rw [P.objs j hj (hlen ▸ hj)]
    exact ⟨rfl, rfl⟩

/-- **what a node carries**: the node of the `j`-th pair `(a, sn, d)` has the step's type, TTC, tags and MITRE
info, the resolved step dictionary as `attributes`, the id `j`, no edges, no attackers, and is viable and
necessary -/
theorem node_carries {L : Lang} {m : Inst} {atts : List PyAttackerInfo} {ns : List GNode} {s s' : H}
    (S : Setting L m atts ns s s') (j : Nat) (hj : j < (nodeSpecs L m).length) :
    let d := (nodeSpecs L m)[j].2.2
    let o := s'.n (s.nfresh + j)
    o.type = d.type ∧ o.ttc = ttcDict d.ttc d.ttcName ∧ o.tags = d.tags ∧ o.mitre_info = d.mitre ∧
    o.attributes = some (attribsOf d) ∧ o.id = some (Int.ofNat j) ∧
    o.children = [] ∧ o.parents = [] ∧ o.compromised_by = [] ∧ o.is_viable = true ∧ o.is_necessary = true := by
  have P := setting_post S
  have hlen := MalVerif.C02.length_eq L m ns S.gen
  intro d o
  have ho : o = _ := P.objs j hj (hlen ▸ hj)
  rw [S.fresh.nextId] at ho
  rw [ho]
  refine ⟨rfl, rfl, rfl, rfl, rfl, ?_, rfl, rfl, rfl, rfl, rfl⟩
  show some ((0 : Int) + (j : Int)) = _
  rw [Int.zero_add]; rfl

/-- **defense status = the asset's current value of that defense**: the node of a pair `(a, sn, d)` with
`d.type = "defense"` carries `getattr(asset, sn)` — the value recorded for the asset in the model, else the
default of the defense; the other nodes carry none -/
theorem defense_status_is_asset_value {L : Lang} {m : Inst} {atts : List PyAttackerInfo} {ns : List GNode}
    {s s' : H} (S : Setting L m atts ns s s') (j : Nat) (hj : j < (nodeSpecs L m).length) (fuel : Nat) :
    let a := (nodeSpecs L m)[j].1
    let sn := (nodeSpecs L m)[j].2.1
    let d := (nodeSpecs L m)[j].2.2
    (d.type = "defense" →
      (s'.n (s.nfresh + j)).defense_status = (genEnvOf L m atts fuel).getattr_asset (assetObj a) sn ∧
      (s'.n (s.nfresh + j)).defense_status = some (floatOf (TN.defenseText a sn d))) ∧
    (d.type ≠ "defense" → (s'.n (s.nfresh + j)).defense_status = none) := by
  have P := setting_post S
  have hlen := MalVerif.C02.length_eq L m ns S.gen
  intro a sn d
  have ho := P.objs j hj (hlen ▸ hj)
  have hsp := TN.specOK_of_mem L m S.ids _ (List.getElem_mem hj)
  constructor
  · intro ht
    have h2 : (s'.n (s.nfresh + j)).defense_status = some (floatOf (TN.defenseText a sn d)) := by
      rw [ho]
      show (if d.type = "defense" then some (floatOf (TN.defenseText a sn d)) else none) = _
      rw [if_pos ht]
    refine ⟨?_, h2⟩
    rw [h2]
    show _ = defenseValue L m (assetObj a) sn
    unfold defenseValue
    have e1 : m.find (assetObj a).id = some a := hsp.1
    have e2 : (L.foldSteps (assetObj a).type).find? (fun e => e.1 = sn) = some (sn, d) := hsp.2
    rw [e1, e2]
    rfl
  · intro ht
    rw [ho]
    show (if d.type = "defense" then some (floatOf (TN.defenseText a sn d)) else none) = _
    rw [if_neg ht]

/-- **existence status**: the node of an exist / notExist step tells whether the step's (first) requirement
expression, evaluated from the asset, reaches at least one asset of the model; other nodes have no status -/
theorem existence_status_meaning {L : Lang} {m : Inst} {atts : List PyAttackerInfo} {ns : List GNode} {s s' : H}
    (S : Setting L m atts ns s s') (j : Nat) (hj : j < (nodeSpecs L m).length) :
    let a := (nodeSpecs L m)[j].1
    let d := (nodeSpecs L m)[j].2.2
    ((d.type = "exist" ∨ d.type = "notExist") → ∀ e es r, d.requires = some (e :: es) →
      eval L m e [a.id] = .ok r → (s'.n (s.nfresh + j)).existence_status = some (!r.1.isEmpty)) ∧
    (¬ (d.type = "exist" ∨ d.type = "notExist") → (s'.n (s.nfresh + j)).existence_status = none) := by
  have P := setting_post S
  have hlen := MalVerif.C02.length_eq L m ns S.gen
  intro a d
  have ho := P.objs j hj (hlen ▸ hj)
  have hx : (s'.n (s.nfresh + j)).existence_status = (ns[j]'(hlen ▸ hj)).exist := by rw [ho]; rfl
  rw [hx]
  exact MalVerif.C02.exist_status_meaning L m ns S.gen j a (nodeSpecs L m)[j].2.1 d (ns[j]'(hlen ▸ hj))
    (by rw [List.getElem?_eq_getElem hj]) (by rw [List.getElem?_eq_getElem (hlen ▸ hj)])

/-- the new references are `s.nfresh + j` -/
theorem mem_nodes_iff {L : Lang} {m : Inst} {atts : List PyAttackerInfo} {ns : List GNode} {s s' : H}
    (S : Setting L m atts ns s s') (r : Nat) :
    r ∈ s'.nodes ↔ ∃ j, j < (nodeSpecs L m).length ∧ r = s.nfresh + j := by
  rw [(nodes_are_the_pairs S).1, List.mem_range'_1]
  constructor
  · rintro ⟨h1, h2⟩; exact ⟨r - s.nfresh, by omega, by omega⟩
  · rintro ⟨j, hj, rfl⟩; exact ⟨Nat.le_add_right _ _, by omega⟩

/-- **exactly one node for every pair**: every asset of the model and every step its type defines or inherits has
one and only one node -/
theorem exactly_one_node {L : Lang} {m : Inst} {atts : List PyAttackerInfo} {ns : List GNode} {s s' : H}
    (S : Setting L m atts ns s s') (a : IAsset) (ha : a ∈ m.assets) (sn : String) (d : StepDecl)
    (hs : (sn, d) ∈ L.foldSteps a.type) :
    ∃ r ∈ s'.nodes, ((s'.n r).asset = some (assetObj a) ∧ (s'.n r).name = sn) ∧
      ∀ r' ∈ s'.nodes, (s'.n r').asset = some (assetObj a) ∧ (s'.n r').name = sn → r' = r := by
  have hN := nodes_are_the_pairs S
  have hmem : (a, sn, d) ∈ nodeSpecs L m := (MalVerif.C02.spec_mem_iff L m a sn d).2 ⟨ha, hs⟩
  obtain ⟨j, hj, hje⟩ := List.getElem_of_mem hmem
  refine ⟨s.nfresh + j, (mem_nodes_iff S _).2 ⟨j, hj, rfl⟩, ?_, ?_⟩
  · have := hN.2.1 j hj
    rw [hje] at this
    exact this
  · intro r' hr' hh
    obtain ⟨j', hj', rfl⟩ := (mem_nodes_iff S _).1 hr'
    have h' := hN.2.1 j' hj'
    rw [h'.1, h'.2] at hh
    have hnd := MalVerif.C02.pairs_nodup L m S.ids
    have e1 : (nodeSpecs L m)[j'].1.id = a.id := by
      have := Option.some.inj hh.1
      exact congrArg PyAssetObj.id this
    have hlm : j' < ((nodeSpecs L m).map (fun p => (p.1.id, p.2.1))).length := by rw [List.length_map]; exact hj'
    have hlm2 : j < ((nodeSpecs L m).map (fun p => (p.1.id, p.2.1))).length := by rw [List.length_map]; exact hj
    have : ((nodeSpecs L m).map (fun p => (p.1.id, p.2.1)))[j'] = ((nodeSpecs L m).map (fun p => (p.1.id, p.2.1)))[j] := by
      rw [List.getElem_map, List.getElem_map, hje, e1, hh.2]
    rw [(List.getElem_inj hnd).1 this]

/-- **no other node**: every node of the graph belongs to an asset of the model and a step of its type -/
theorem no_other_node {L : Lang} {m : Inst} {atts : List PyAttackerInfo} {ns : List GNode} {s s' : H}
    (S : Setting L m atts ns s s') (r : NRef) (hr : r ∈ s'.nodes) :
    ∃ a ∈ m.assets, ∃ sn d, (sn, d) ∈ L.foldSteps a.type ∧
      (s'.n r).asset = some (assetObj a) ∧ (s'.n r).name = sn ∧ d.name = sn := by
  obtain ⟨j, hj, rfl⟩ := (mem_nodes_iff S _).1 hr
  have h' := (nodes_are_the_pairs S).2.1 j hj
  rcases hpe : (nodeSpecs L m)[j] with ⟨a, sn, d⟩
  rw [hpe] at h'
  have hm : (a, sn, d) ∈ nodeSpecs L m := hpe ▸ List.getElem_mem hj
  obtain ⟨ha, hs⟩ := (MalVerif.C02.spec_mem_iff L m a sn d).1 hm
  exact ⟨a, ha, sn, d, hs, h'.1, h'.2, foldSteps_key_eq_name L a.type (sn, d) hs⟩

/-- **node ids are unique** — they are the positions in the node list -/
theorem ids_unique {L : Lang} {m : Inst} {atts : List PyAttackerInfo} {ns : List GNode} {s s' : H}
    (S : Setting L m atts ns s s') :
    (∀ j, j < (nodeSpecs L m).length → (s'.n (s.nfresh + j)).id = some (Int.ofNat j)) ∧
    ∀ r ∈ s'.nodes, ∀ r' ∈ s'.nodes, (s'.n r).id = (s'.n r').id → r = r' := by
  have hid : ∀ j, j < (nodeSpecs L m).length → (s'.n (s.nfresh + j)).id = some (Int.ofNat j) :=
    fun j hj => (node_carries S j hj).2.2.2.2.2.1
  refine ⟨hid, ?_⟩
  intro r hr r' hr' he
  obtain ⟨j, hj, rfl⟩ := (mem_nodes_iff S _).1 hr
  obtain ⟨j', hj', rfl⟩ := (mem_nodes_iff S _).1 hr'
  rw [hid j hj, hid j' hj'] at he
  have : (j : Int) = (j' : Int) := Option.some.inj he
  rw [Int.ofNat.inj this]

/-- the full name of the node of the `j`-th pair is `asset name ':' step name` -/
theorem full_name_eq {L : Lang} {m : Inst} {atts : List PyAttackerInfo} {ns : List GNode} {s s' : H}
    (S : Setting L m atts ns s s') (j : Nat) (hj : j < (nodeSpecs L m).length) :
    node_full_name s' (s.nfresh + j) = (nodeSpecs L m)[j].1.name ++ ":" ++ (nodeSpecs L m)[j].2.1 := by
  have h' := (nodes_are_the_pairs S).2.1 j hj
  rw [TN.full_name_of_asset s' _ _ h'.1, h'.2]
  rfl

/-- **full names are unique** when asset names are distinct and step names contain no colon -/
theorem full_names_unique {L : Lang} {m : Inst} {atts : List PyAttackerInfo} {ns : List GNode} {s s' : H}
    (S : Setting L m atts ns s s') (hnames : (m.assets.map (·.name)).Nodup)
    (hcolon : ∀ a ∈ m.assets, ∀ e ∈ L.foldSteps a.type, ':' ∉ e.1.toList) :
    ∀ r ∈ s'.nodes, ∀ r' ∈ s'.nodes, node_full_name s' r = node_full_name s' r' → r = r' := by
  intro r hr r' hr' he
  obtain ⟨j, hj, rfl⟩ := (mem_nodes_iff S _).1 hr
  obtain ⟨j', hj', rfl⟩ := (mem_nodes_iff S _).1 hr'
  rw [full_name_eq S j hj, full_name_eq S j' hj'] at he
  have hlen := MalVerif.C02.length_eq L m ns S.gen
  have hnd := MalVerif.C02.fullNames_nodup L m ns hnames hcolon S.gen
  have hfn : ∀ i (hi : i < (nodeSpecs L m).length), (ns[i]'(hlen ▸ hi)).fullName =
      (nodeSpecs L m)[i].1.name ++ ":" ++ (nodeSpecs L m)[i].2.1 := by
    intro i hi
    have := TN.node_at L m ns S.gen i hi (hlen ▸ hi)
    unfold GNode.fullName
    rw [this.2.2.1, this.2.2.2.1]
  have h1 : j < (ns.map GNode.fullName).length := by rw [List.length_map, hlen]; exact hj
  have h2 : j' < (ns.map GNode.fullName).length := by rw [List.length_map, hlen]; exact hj'
  have : (ns.map GNode.fullName)[j] = (ns.map GNode.fullName)[j'] := by
    rw [List.getElem_map, List.getElem_map, hfn j hj, hfn j' hj', he]
  rw [(List.getElem_inj hnd).1 this]

/-- **lookup by id returns precisely that node** -/
theorem lookup_by_id_exact {L : Lang} {m : Inst} {atts : List PyAttackerInfo} {ns : List GNode} {s s' : H}
    (S : Setting L m atts ns s s') (q : Int) (r : NRef) :
    graph_get_node_by_id s' q = some r ↔ r ∈ s'.nodes ∧ (s'.n r).id = some q := by
  have P := setting_post S
  have hlen := MalVerif.C02.length_eq L m ns S.gen
  have hs0 : graph_get_node_by_id s q = none := by
    show MalVerif.Py.dictGet s._id_to_node q = none
    rw [S.fresh.ids]; rfl
  rw [TN.post_lookup_id P q, hs0, Option.or_none]
  constructor
  · intro hf
    obtain ⟨n, hfn, hr⟩ := Option.map_eq_some_iff.1 hf
    have h1 : Int.ofNat n.id = q := by simpa using List.find?_some hfn
    have h2 : n ∈ ns := List.mem_reverse.1 (List.mem_of_find?_eq_some hfn)
    obtain ⟨j, hj, hje⟩ := List.getElem_of_mem h2
    have hnid : n.id = j := hje ▸ (TN.node_at L m ns S.gen j (hlen ▸ hj) hj).1
    rw [← hr, hnid]
    refine ⟨(mem_nodes_iff S _).2 ⟨j, hlen ▸ hj, rfl⟩, ?_⟩
    rw [(ids_unique S).1 j (hlen ▸ hj), ← h1, hnid]
  · rintro ⟨hr, hq⟩
    obtain ⟨j, hj, rfl⟩ := (mem_nodes_iff S _).1 hr
    rw [(ids_unique S).1 j hj] at hq
    have hq' : Int.ofNat j = q := Option.some.inj hq
    have hj' : j < ns.length := hlen ▸ hj
    have hnj := (TN.node_at L m ns S.gen j hj hj').1
    cases hf : ns.reverse.find? (fun n => Int.ofNat n.id = q) with
    | none =>
      have := List.find?_eq_none.1 hf ns[j] (List.mem_reverse.2 (List.getElem_mem hj'))
      simp [hnj] at this
      exact absurd hq' this
    | some n =>
      have h1 : Int.ofNat n.id = q := by simpa using List.find?_some hf
      have : n.id = j := Int.ofNat.inj (h1.trans hq'.symm)
      rw [Option.map_some, this]

/-- **lookup by full name returns precisely that node** (full names being unique: distinct asset names, no colon
in step names) -/
theorem lookup_by_full_name_exact {L : Lang} {m : Inst} {atts : List PyAttackerInfo} {ns : List GNode} {s s' : H}
    (S : Setting L m atts ns s s') (hnames : (m.assets.map (·.name)).Nodup)
    (hcolon : ∀ a ∈ m.assets, ∀ e ∈ L.foldSteps a.type, ':' ∉ e.1.toList) (key : String) (r : NRef) :
    graph_get_node_by_full_name s' key = some r ↔ r ∈ s'.nodes ∧ node_full_name s' r = key := by
  have P := setting_post S
  have hlen := MalVerif.C02.length_eq L m ns S.gen
  have hnd := MalVerif.C02.fullNames_nodup L m ns hnames hcolon S.gen
  have hs0 : graph_get_node_by_full_name s key = none := by
    show MalVerif.Py.dictGet s._full_name_to_node key = none
    rw [S.fresh.names]; rfl
  have hfn : ∀ i (hi : i < ns.length), node_full_name s' (s.nfresh + i) = ns[i].fullName := by
    intro i hi
    have := TN.node_at L m ns S.gen i (hlen ▸ hi) hi
    rw [full_name_eq S i (hlen ▸ hi)]
    unfold GNode.fullName
    rw [this.2.2.1, this.2.2.2.1]
  rw [TN.post_lookup_name P key, hs0, Option.or_none]
  constructor
  · intro hf
    obtain ⟨n, hn, hr⟩ := Option.map_eq_some_iff.1 hf
    obtain ⟨h2, h1⟩ := (MalVerif.C02.lookup_name_correct ns key n hnd).1 hn
    obtain ⟨j, hj, hje⟩ := List.getElem_of_mem h2
    have hnid : n.id = j := hje ▸ (TN.node_at L m ns S.gen j (hlen ▸ hj) hj).1
    rw [← hr, hnid]
    exact ⟨(mem_nodes_iff S _).2 ⟨j, hlen ▸ hj, rfl⟩, by rw [hfn j hj, hje, h1]⟩
  · rintro ⟨hr, hk⟩
    obtain ⟨j, hj, rfl⟩ := (mem_nodes_iff S _).1 hr
    have hj' : j < ns.length := hlen ▸ hj
    rw [hfn j hj'] at hk
    rw [(MalVerif.C02.lookup_name_correct ns key ns[j] hnd).2 ⟨List.getElem_mem hj', hk⟩, Option.map_some,
      (TN.node_at L m ns S.gen j hj hj').1]

/-- lookup of a full name that no node has returns `None` (no hypothesis on names) -/
theorem lookup_by_full_name_none {L : Lang} {m : Inst} {atts : List PyAttackerInfo} {ns : List GNode} {s s' : H}
    (S : Setting L m atts ns s s') (key : String) :
    graph_get_node_by_full_name s' key = none ↔ ∀ r ∈ s'.nodes, node_full_name s' r ≠ key := by
  have P := setting_post S
  have hlen := MalVerif.C02.length_eq L m ns S.gen
  have hs0 : graph_get_node_by_full_name s key = none := by
    show MalVerif.Py.dictGet s._full_name_to_node key = none
    rw [S.fresh.names]; rfl
  have hfn : ∀ i (hi : i < ns.length), node_full_name s' (s.nfresh + i) = ns[i].fullName := by
    intro i hi
    have := TN.node_at L m ns S.gen i (hlen ▸ hi) hi
    rw [full_name_eq S i (hlen ▸ hi)]
    unfold GNode.fullName
    rw [this.2.2.1, this.2.2.2.1]
  rw [TN.post_lookup_name P key, hs0, Option.or_none, Option.map_eq_none_iff, MalVerif.C02.lookup_name_none]
  constructor
  · intro h r hr
    obtain ⟨j, hj, rfl⟩ := (mem_nodes_iff S _).1 hr
    rw [hfn j (hlen ▸ hj)]
    exact h _ (List.getElem_mem _)
  · intro h n hn
    obtain ⟨j, hj, hje⟩ := List.getElem_of_mem hn
    have := h _ ((mem_nodes_iff S _).2 ⟨j, hlen ▸ hj, rfl⟩)
    rw [hfn j hj, hje] at this
    exact this

/-! ### the hypotheses are satisfiable: the demo language and model of `Props/C02.lean` (two hosts, one with an
explicit defense value, a data asset, inherited steps, an exist and a notExist step), started from the empty heap -/

def demoNs : List GNode := match genNodes MalVerif.C02.demoL MalVerif.C02.demoM with | .ok ns => ns | .error _ => []

theorem demo_gen : genNodes MalVerif.C02.demoL MalVerif.C02.demoM = .ok demoNs := by
  unfold demoNs
  cases h : genNodes MalVerif.C02.demoL MalVerif.C02.demoM with
  | ok ns => rfl
  | error e =>
    have : (genNodes MalVerif.C02.demoL MalVerif.C02.demoM).toBool = true := by decide
    rw [h] at this; cases this

/-- on the demo model the loop returns from the empty heap, and `Setting` holds of the result -/
example : ∃ s', Setting MalVerif.C02.demoL MalVerif.C02.demoM [] demoNs {} s' := by
  have hid : (MalVerif.C02.demoM.assets.map (·.id)).Nodup := by decide
  have hf : FreshGraph {} := ⟨rfl, rfl, rfl, rfl⟩
  obtain ⟨s', hs'⟩ := first_loop_returns MalVerif.C02.demoL MalVerif.C02.demoM [] hid demoNs demo_gen {} hf
  exact ⟨s', hid, demo_gen, hf, hs'⟩

/-- … with ten nodes, and the hypotheses of `full_names_unique` / `lookup_by_full_name_exact` hold there -/
example : (nodeSpecs MalVerif.C02.demoL MalVerif.C02.demoM).length = 10 := by decide
example : (MalVerif.C02.demoM.assets.map (·.name)).Nodup := by decide
example : ∀ a ∈ MalVerif.C02.demoM.assets, ∀ e ∈ MalVerif.C02.demoL.foldSteps a.type, ':' ∉ e.1.toList := by decide

end MalVerif.PropsGen.C02
