import MalVerif.Py.TieWrapperEnv
import MalVerif.Py.TieWrapperGen
import MalVerif.Py.TieWrapperRoundTrip
import MalVerif.Py.TieWrapperPipe
import MalVerif.PropsGen.C07
/-!
# C16 for the *translated* pipeline `create_attack_graph` (wrappers.py, regenerated on every run)

C16: "Generating an attack graph twice from the same language and model - in the same process, or in fresh processes
with different hash seeds, or through the create_attack_graph wrapper from files - gives identical serialized graphs
(node ids, names, attributes, edges).  Generation and analysis leave the model's serialized form and the language
specification unchanged, and two graphs built from the same model share no node."

The theorems are about `MalVerif.PyW.Gen.create_attack_graph` (`Py/GenWrapper/Wrapper.lean`), whose callees are the
GENERATED functions of the other translation domains (prelude `Py/PreludeWrapper.lean`):

* `wrapper_generates_model_graph` — (i) on files that load, the wrapper is the hand model's `genGraph` of the loaded
  language and model (heap `genHeap`), followed by the optional attachment / analysis stages;
  `wrapper_graph_is_canonical` — ids are positions, names / attributes / edges are those of `canonView`.
* `same_contents_same_graph`, `same_document_in_any_store` — (ii) the result is a function of the *contents* of the
  two files; the serialized document (`_to_dict` of the `agserial` domain) does not depend on the object store the
  run allocates in (a fresh process, or a process that already built graphs).
* `inputs_undisturbed` — (iii) whatever the flags, the model heap inside the returned graph is the loaded one,
  bit for bit (so its `_to_dict` is the same), the asset / association objects of the language graph are
  untouched, and the specification it holds reads as before, cell by cell.
* `two_graphs_share_no_node` — (iv) a second run in the same process allocates new node objects only and leaves
  the first graph's nodes as they were.

Fresh processes and hash seeds are runtime behaviour (observed by `harness/props/c16.py`); the Lean functions have no
hidden state, which is the content of `same_contents_same_graph`.
-/
namespace MalVerif.PropsGen.C16
open MalVerif MalVerif.PyW MalVerif.PyW.Gen MalVerif.PyW.Tie

/-- the hypotheses of a run: quiet logs, a language file that loads to the language graph `lg`, a model file that
loads — with the classes of that language graph — to the model `m`; both heaps well-formed; pjs `==` relates no two
different objects -/
structure Run (w : WEnv) (lf mf : String) (lg : Py.LType.TH) (m : PyM.H) : Prop where
  quiet : QuietLogs w
  lang : PyW.Tie.loadLang w lf = .ok lg
  model : model_load_from_file w mf ⟨lg⟩ = .ok m
  eqid : PyM.EqId w.menv
  langOK : LangOK lg
  modelOK : ModelOK m

/-- the run with another recursion budget of the step-expression evaluator -/
def withFuel (w : WEnv) (k : Nat) : WEnv := { w with evalFuel := k }

theorem Run.withFuel {w : WEnv} {lf mf : String} {lg : Py.LType.TH} {m : PyM.H} (r : Run w lf mf lg m) (k : Nat) :
    Run (withFuel w k) lf mf lg m :=
  ⟨⟨r.quiet.lang, r.quiet.model⟩, r.lang, r.model, r.eqid, r.langOK, r.modelOK⟩

/-- ids of the loaded model are distinct (from `ModelOK`) -/
theorem ids_nodup {m : PyM.H} (h : ModelOK m) : ((instOf m).assets.map (·.id)).Nodup := by
  have := h.ids_nodup
  unfold instOf
  rw [List.map_map]
  exact this

/-- **(i) the translated wrapper = the hand model's `genGraph` + the optional stages.**  When the hand model
generates `(ns, es)` from the language and the model the files hold, then — for every sufficiently large recursion
budget — the wrapper returns what `postStages` (attachment if requested, analysis if requested: `attach_stage_tie`,
`analysis_stage_tie`) makes of the graph object whose heap is `genHeap … ns es` in the store of the process, which
keeps the loaded model and the language graph. -/
theorem wrapper_generates_model_graph {w : WEnv} {lf mf : String} {lg : Py.LType.TH} {m : PyM.H}
    (r : Run w lf mf lg m) (ns : List GNode) (es : List (Nat × Nat))
    (hg : genGraph (langOf lg) (instOf m) = .ok (ns, es)) (attach ana : Bool) :
    ∃ F, ∀ k, F ≤ k →
      create_attack_graph (withFuel w k) lf mf attach ana =
        postStages (withFuel w k) attach ana
          { h := Py.Tie.genHeap (langOf lg) (instOf m) ns es (Py.Tie.resetG w.gstore)
            lang_graph := lgAfter lg m, model := m } := by
  obtain ⟨F, hF⟩ := create_attack_graph_tie (langOf lg) (instOf m) (attackersOf m) (ids_nodup r.modelOK) ns es hg w.gstore
  refine ⟨F, fun k hk => ?_⟩
  have r' := r.withFuel k
  exact hF (withFuel w k) lf mf attach ana lg m r'.quiet rfl hk r'.lang r'.model
    (evalEnvOf_eq (withFuel w k) lg m r'.eqid r'.modelOK r'.langOK)

/-- **… and the graph it returns (no attachment, no analysis) is the canonical one**: everything observable of it
without comparing object identities — per node, in list order: id (= position), type, name, TTC, asset, attributes,
status, labels, MITRE info, tags, and the *ids* of children and parents; the lookups by id and by full name; the id
counters — is `canonView` of the hand model's graph, whatever the store held before. -/
theorem wrapper_graph_is_canonical {w : WEnv} {lf mf : String} {lg : Py.LType.TH} {m : PyM.H}
    (r : Run w lf mf lg m) (ns : List GNode) (es : List (Nat × Nat))
    (hg : genGraph (langOf lg) (instOf m) = .ok (ns, es)) :
    ∃ F, ∀ k, F ≤ k → ∃ g, create_attack_graph (withFuel w k) lf mf false false = .ok g ∧
      Py.Tie.graphView g.h = Py.Tie.canonView (langOf lg) (instOf m) ns es ∧ g.model = m := by
  obtain ⟨F, hF⟩ := wrapper_generates_model_graph r ns es hg false false
  obtain ⟨hn, he⟩ := MalVerif.C16.gen_reads_model _ _ (ns, es) hg
  refine ⟨F, fun k hk => ⟨_, hF k hk, ?_, rfl⟩⟩
  exact Py.Tie.TRF.graphView_genHeap ⟨ids_nodup r.modelOK, hn, he, (Py.Tie.resetG_reset _).fresh⟩
    (Py.Tie.resetG_reset _)

/-- **(ii-a) same contents ⇒ same graph**: two runs with the same interpreter parameters and stores, in which the
file layer delivers the same specification for the language paths and the same document for the model paths — the
paths, `.mar` archive or `.mal` source, yaml or json may differ — return the same graph object or raise the same
exception; in particular `_to_dict` of the two results is the same document. -/
theorem same_contents_same_graph (w1 w2 : WEnv) (hp : SameParams w1 w2) (hq1 : QuietLogs w1) (hq2 : QuietLogs w2)
    (lf1 lf2 mf1 mf2 : String) (hs : loadSpec w1 lf1 = loadSpec w2 lf2) (hd : loadDoc w1 mf1 = loadDoc w2 mf2)
    (attach ana : Bool) (fuel : Nat) :
    create_attack_graph w1 lf1 mf1 attach ana = create_attack_graph w2 lf2 mf2 attach ana ∧
    (create_attack_graph w1 lf1 mf1 attach ana).map (fun g => Py.Gen.graph__to_dict fuel g.h) =
      (create_attack_graph w2 lf2 mf2 attach ana).map (fun g => Py.Gen.graph__to_dict fuel g.h) := by
  have h := wrapper_depends_on_contents w1 w2 hp hq1 hq2 lf1 lf2 mf1 mf2 hs hd attach ana
  exact ⟨h, by rw [h]⟩

/-- the run in another node store (another process, or the same process later) -/
def inStore (w : WEnv) (s : Py.H) : WEnv := { w with gstore := s }

/-- **(ii-b) same document in any store**: generate from the same files once in a process whose node store is `s1`
and once in one whose node store is `s2` (a fresh interpreter has `{}`; after a first generation the store holds that
graph's objects): both runs return, and `_to_dict` of the two graphs is the *same* Python-level document — node ids,
names, attributes, edges —, although the node objects live at different references. -/
theorem same_document_in_any_store {w : WEnv} {lf mf : String} {lg : Py.LType.TH} {m : PyM.H}
    (r : Run w lf mf lg m) (ns : List GNode) (es : List (Nat × Nat))
    (hg : genGraph (langOf lg) (instOf m) = .ok (ns, es)) (s1 s2 : Py.H) :
    ∃ F, ∀ k, F ≤ k → ∃ g1 g2,
      create_attack_graph (withFuel (inStore w s1) k) lf mf false false = .ok g1 ∧
      create_attack_graph (withFuel (inStore w s2) k) lf mf false false = .ok g2 ∧
      ∀ fuel, Py.Gen.graph__to_dict fuel g1.h = Py.Gen.graph__to_dict fuel g2.h := by
  have r1 : Run (inStore w s1) lf mf lg m := ⟨⟨r.quiet.lang, r.quiet.model⟩, r.lang, r.model, r.eqid, r.langOK, r.modelOK⟩
  have r2 : Run (inStore w s2) lf mf lg m := ⟨⟨r.quiet.lang, r.quiet.model⟩, r.lang, r.model, r.eqid, r.langOK, r.modelOK⟩
  obtain ⟨F1, hF1⟩ := wrapper_generates_model_graph r1 ns es hg false false
  obtain ⟨F2, hF2⟩ := wrapper_generates_model_graph r2 ns es hg false false
  obtain ⟨hn, he⟩ := MalVerif.C16.gen_reads_model _ _ (ns, es) hg
  refine ⟨max F1 F2, fun k hk => ⟨_, _, hF1 k (by omega), hF2 k (by omega), fun fuel => ?_⟩⟩
  exact to_dict_genHeap_store_independent
    ⟨ids_nodup r.modelOK, hn, he, (Py.Tie.resetG_reset _).fresh⟩
    ⟨ids_nodup r.modelOK, hn, he, (Py.Tie.resetG_reset _).fresh⟩
    (Py.Tie.resetG_reset _) (Py.Tie.resetG_reset _) fuel

/-- **(ii-b′) the same for the whole pipeline, any flags**: with attachment and / or analysis requested, the two runs
— one in the node store `s1`, one in `s2` — either raise the same exception or both return, and then `_to_dict` of the
two graphs is the same document for every unrolling budget (attacker ids, entry points, reached steps, viability and
necessity labels included): `attach_attackers` and `calculate_viability_and_necessity` commute with the renaming of
references (`attach_sim`, `calculate_sim`). -/
theorem same_document_in_any_store_all_stages {w : WEnv} {lf mf : String} {lg : Py.LType.TH} {m : PyM.H}
    (r : Run w lf mf lg m) (ns : List GNode) (es : List (Nat × Nat))
    (hg : genGraph (langOf lg) (instOf m) = .ok (ns, es)) (s1 s2 : Py.H) (attach ana : Bool) :
    ∃ F, ∀ k, F ≤ k →
      match create_attack_graph (withFuel (inStore w s1) k) lf mf attach ana,
            create_attack_graph (withFuel (inStore w s2) k) lf mf attach ana with
      | .ok g1, .ok g2 => ∀ fuel, Py.Gen.graph__to_dict fuel g1.h = Py.Gen.graph__to_dict fuel g2.h
      | .error e1, .error e2 => e1 = e2
      | _, _ => False := by
  have r1 : Run (inStore w s1) lf mf lg m := ⟨⟨r.quiet.lang, r.quiet.model⟩, r.lang, r.model, r.eqid, r.langOK, r.modelOK⟩
  have r2 : Run (inStore w s2) lf mf lg m := ⟨⟨r.quiet.lang, r.quiet.model⟩, r.lang, r.model, r.eqid, r.langOK, r.modelOK⟩
  obtain ⟨F1, hF1⟩ := wrapper_generates_model_graph r1 ns es hg attach ana
  obtain ⟨F2, hF2⟩ := wrapper_generates_model_graph r2 ns es hg attach ana
  obtain ⟨hn, he⟩ := MalVerif.C16.gen_reads_model _ _ (ns, es) hg
  refine ⟨max F1 F2, fun k hk => ?_⟩
  rw [hF1 k (by omega), hF2 k (by omega)]
  simp only [show (inStore w s1).gstore = s1 from rfl, show (inStore w s2).gstore = s2 from rfl]
  have e1 := postStages_heap (withFuel (inStore w s1) k) attach ana
    { h := Py.Tie.genHeap (langOf lg) (instOf m) ns es (Py.Tie.resetG s1), lang_graph := lgAfter lg m, model := m }
  have e2 := postStages_heap (withFuel (inStore w s2) k) attach ana
    { h := Py.Tie.genHeap (langOf lg) (instOf m) ns es (Py.Tie.resetG s2), lang_graph := lgAfter lg m, model := m }
  have hp := pipeline_doc_store_independent
    (L := langOf lg) (m := instOf m) (ns := ns) (es := es) (s1 := Py.Tie.resetG s1) (s2 := Py.Tie.resetG s2)
    ⟨ids_nodup r.modelOK, hn, he, (Py.Tie.resetG_reset _).fresh⟩
    ⟨ids_nodup r.modelOK, hn, he, (Py.Tie.resetG_reset _).fresh⟩
    (Py.Tie.resetG_reset _) (Py.Tie.resetG_reset _) (evalEnvOf (withFuel w k) (lgAfter lg m) m) attach ana
  have henv1 : evalEnvOf (withFuel (inStore w s1) k) (lgAfter lg m) m = evalEnvOf (withFuel w k) (lgAfter lg m) m := rfl
  have henv2 : evalEnvOf (withFuel (inStore w s2) k) (lgAfter lg m) m = evalEnvOf (withFuel w k) (lgAfter lg m) m := rfl
  simp only [henv1] at e1
  simp only [henv2] at e2
  revert e1 e2 hp
  generalize postStages (withFuel (inStore w s1) k) attach ana _ = x1
  generalize postStages (withFuel (inStore w s2) k) attach ana _ = x2
  generalize pipeline attach ana _ (Py.Tie.genHeap (langOf lg) (instOf m) ns es (Py.Tie.resetG s1)) = p1
  generalize pipeline attach ana _ (Py.Tie.genHeap (langOf lg) (instOf m) ns es (Py.Tie.resetG s2)) = p2
  intro hp e1 e2
  cases x1 <;> cases x2 <;> cases p1 <;> cases p2 <;>
    simp only [Except.map, liftGraph, Except.ok.injEq, Except.error.injEq, reduceCtorEq] at e1 e2 <;>
    simp only [WD2.ERel] at hp
  all_goals first
    | exact hp.elim
    | (subst e1; subst e2; exact hp)
    | (subst e1; subst e2; rw [hp])

/-- **(iii) inputs undisturbed**: for ANY flags, a run that returns `g` keeps, inside `g`, the model heap exactly as
`load_from_file` returned it (the translated graph methods receive the model only as a read-only environment), so the
translated `Model._to_dict` writes the same document before and after; the asset and association objects of the
language graph are untouched; and the specification heap — which `_get_attacks_for_asset_type` does write to, it
allocates the copies it returns — reads as the same specification, has the same top-level lists and has every cell
that existed before unchanged. -/
theorem inputs_undisturbed {w : WEnv} {lf mf : String} {lg : Py.LType.TH} {m : PyM.H}
    (r : Run w lf mf lg m) (attach ana : Bool) (g : WGraph)
    (h : create_attack_graph w lf mf attach ana = .ok g) :
    g.model = m ∧
    (∀ env, PyM.Gen.model__to_dict g.model env = PyM.Gen.model__to_dict m env) ∧
    g.lang_graph.g = lg.g ∧
    Py.LSpec.absLang g.lang_graph.spec = Py.LSpec.absLang lg.spec ∧
    g.lang_graph.spec.assets = lg.spec.assets ∧
    (∀ i < lg.spec.stepD.length, g.lang_graph.spec.stepD[i]? = lg.spec.stepD[i]?) ∧
    (∀ i < lg.spec.reachD.length, g.lang_graph.spec.reachD[i]? = lg.spec.reachD[i]?) ∧
    (∀ i < lg.spec.exprL.length, g.lang_graph.spec.exprL[i]? = lg.spec.exprL[i]?) := by
  rw [create_attack_graph_eq w r.quiet, r.lang] at h
  simp only [Except.bind, newFactory, r.model] at h
  cases h0 : genStage w lg m with
  | error e => rw [h0] at h; cases h
  | ok g0 =>
    rw [h0] at h
    obtain ⟨k1, k2⟩ := postStages_keeps w attach ana g0 g h
    have hg0 : g0.lang_graph = lgAfter lg m ∧ g0.model = m := by
      unfold genStage at h0
      rw [newAttackGraph_eq] at h0
      cases hx : liftGraph (Py.Gen.graph__generate_graph (Py.Tie.resetG w.gstore) (evalEnvOf w lg m)) with
      | error e =>
        rw [hx] at h0
        cases e <;> first | cases h0 | (rename_i x; cases x <;> cases h0)
      | ok hh => rw [hx] at h0; cases h0; exact ⟨rfl, rfl⟩
    obtain ⟨t1, t2, t3, t4, t5, t6⟩ := attacks_threaded lg r.langOK (m.assets.map (fun r => (m.a r).type))
    have hm : g.model = m := k2.trans hg0.2
    have hl : g.lang_graph = lgAfter lg m := k1.trans hg0.1
    exact ⟨hm, fun env => by rw [hm], by rw [hl]; rfl, by rw [hl]; exact t1, by rw [hl]; exact t3,
      by rw [hl]; exact t4, by rw [hl]; exact t5, by rw [hl]; exact t6⟩

/-- **(iv) two graphs built in one process share no node**: run the wrapper (generation only) in a process, then run
it again — on the same files or any others — in the process as the first run left it: no node of the second graph is a
node of the first, and the second run leaves every node object of the first graph exactly as it was. -/
theorem two_graphs_share_no_node {w w' : WEnv} {lf mf lf' mf' : String} {lg lg' : Py.LType.TH} {m m' : PyM.H}
    (r : Run w lf mf lg m) (ns : List GNode) (es : List (Nat × Nat))
    (hg : genGraph (langOf lg) (instOf m) = .ok (ns, es))
    (hw' : ∀ s, Run (inStore w' s) lf' mf' lg' m') (ns' : List GNode) (es' : List (Nat × Nat))
    (hg' : genGraph (langOf lg') (instOf m') = .ok (ns', es')) :
    ∃ F, ∀ k, F ≤ k → ∃ g1 g2,
      create_attack_graph (withFuel w k) lf mf false false = .ok g1 ∧
      create_attack_graph (withFuel (inStore w' g1.h) k) lf' mf' false false = .ok g2 ∧
      (∀ x ∈ g1.h.nodes, x ∉ g2.h.nodes) ∧ (∀ x ∈ g1.h.nodes, g2.h.n x = g1.h.n x) := by
  obtain ⟨F1, hF1⟩ := wrapper_generates_model_graph r ns es hg false false
  let h1 := Py.Tie.genHeap (langOf lg) (instOf m) ns es (Py.Tie.resetG w.gstore)
  obtain ⟨F2, hF2⟩ := wrapper_generates_model_graph (hw' h1) ns' es' hg' false false
  obtain ⟨hn, he⟩ := MalVerif.C16.gen_reads_model _ _ (ns, es) hg
  obtain ⟨hn', he'⟩ := MalVerif.C16.gen_reads_model _ _ (ns', es') hg'
  refine ⟨max F1 F2, fun k hk => ⟨_, _, hF1 k (by omega), hF2 k (by omega), ?_⟩⟩
  exact two_graphs_disjoint
    ⟨ids_nodup r.modelOK, hn, he, (Py.Tie.resetG_reset _).fresh⟩
    ⟨ids_nodup (hw' h1).modelOK, hn', he', (Py.Tie.resetG_reset _).fresh⟩

/-- **(ii-c) in-process model or its file**: a model heap `s` and the heap `s'` obtained by writing `s` with the
translated `Model._to_dict`, passing the document through a yaml / json file (`f.rt`) and reading it with the
translated `Model._from_dict` — `PropsGen.C07.roundtrip_partial` proves `Ser.SameModel` of the two under its
hypotheses — generate the *same* attack graph: the
hand model's `genGraph` of the two instance models is equal (the explicit defense lists may differ — a value equal to
the default is not written —, the effective values do not), hence by `wrapper_generates_model_graph` /
`same_document_in_any_store` so are the graphs and documents the translated pipeline produces from them. -/
theorem model_through_file_same_graph (L : Lang) (s s' : PyM.H) (hsm : Ser.SameModel L (PyM.abs s') (PyM.abs s)) :
    genGraph L (instOf s') = genGraph L (instOf s) := genGraph_roundtrip L s s' hsm

/-! ## Non-vacuity: the whole translated pipeline, run by the kernel

`w0`: a file layer with one language (as `lang.mar` and as `lang.mal`) and one model document (as `m.yml` and as
`m.json`): `Host {| access -> nets.reach, # patched}`, `Net {| reach}`, association `Link`; host `h` (id 7, `patched`
set to 0.0), a net given by the type-only shorthand (id 0, generated name `Net:0`), one link, attacker `eve` on
`h:access`. -/

def L0 : Lang :=
  { assets := [{ name := "Host", steps := [
                  { name := "access", type := "or", reaches := some { overrides := true, exprs := [Expr.collect (.field "nets") (.step "reach")] } },
                  { name := "patched", type := "defense", ttc := "{}", ttcName := some "Enabled" }] },
               { name := "Net", steps := [{ name := "reach", type := "or" }] }],
    assocs := [{ name := "Link", leftAsset := "Host", leftField := "hosts", rightAsset := "Net", rightField := "nets" }] }

def doc0 : PyM.PyDoc :=
  { metadata := some { name := some "demo" },
    assets := some [(.i 7, .dict { name := some "h", type := some "Host", defenses := some [("patched", "0.0")] }),
                    (.i 0, .str "Net")],
    associations := some [[("Link", .fields [("hosts", .list [.i 7]), ("nets", .list [.i 0])])]],
    attackers := some [(.i 1, { name := some "eve", entry_points := some [(.i 7, { attack_steps := some ["access"] })] })] }

def w0 : WEnv :=
  { read_mar := fun p => if p = "lang.mar" then .ok (Py.LSpec.loadPy L0) else .error .badZipFile
    compile_mal := fun p => if p = "lang.mal" then .ok (Py.LSpec.loadPy L0) else .error .fileError
    load_yaml := fun p => if p = "m.yml" then .ok doc0 else .error .fileError
    load_json := fun p => if p = "m.json" then .ok doc0 else .error .fileError
    evalFuel := 5, recLimit := 20
    menv := { eqA := fun _ _ => false, eqL := fun _ _ => false, whileFuel := 10 } }

/-- what the examples look at: per node (list order) full name, id, children, viability; per attacker name and entry
points -/
def obs (g : Except WErr WGraph) : Option (List (String × List Nat × Bool) × List (String × List Nat)) :=
  g.toOption.map (fun g =>
    (g.h.nodes.map (fun r => (Py.Gen.node_full_name g.h r, (g.h.n r).children, (g.h.n r).is_viable)),
     g.h.attackers.map (fun a => ((g.h.a a).name, (g.h.a a).entry_points))))

example : QuietLogs w0 := ⟨rfl, rfl⟩
example : PyM.EqId w0.menv := ⟨fun _ _ h => (by cases h), fun _ _ h => (by cases h)⟩

/-- the whole pipeline from the archive and the json file: three nodes, the edge `h:access → Net:0:reach`, the
attacker attached to `h:access`, every step viable (the defense is disabled) -/
example : obs (create_attack_graph w0 "lang.mar" "m.json" true true) =
    some ([("h:access", [2], true), ("h:patched", [], true), ("Net:0:reach", [], true)], [("eve", [0])]) := by
  decide +kernel

/-- `lang.mar` is not there: the `.mal` source is compiled instead; yaml instead of json: the same graph
(`same_contents_same_graph` applies: both paths deliver the same contents) -/
example : obs (create_attack_graph w0 "lang.mal" "m.yml" true true) =
    obs (create_attack_graph w0 "lang.mar" "m.json" true true) := by decide +kernel

/-- an unknown extension is a `ValueError`; a language file that is neither an archive nor compiles is the compiler's
error -/
example :
    (match create_attack_graph w0 "lang.mar" "m.txt" true true with | .error .valueError => true | _ => false) = true ∧
    (match create_attack_graph w0 "nope" "m.json" true true with | .error .fileError => true | _ => false) = true := by
  decide +kernel

/-- a second run in the same process (the store holds the first graph): the second graph's nodes are the references
3, 4, 5 — none shared —, with the ids 0, 1, 2 again, its edge is `3 → 5`, the first graph's edge still `0 → 2`, and
`_to_dict` returns for both (the two documents are equal by `same_document_in_any_store` / `to_dict_renamed`) -/
example :
    (match create_attack_graph w0 "lang.mar" "m.json" false false with
     | .ok g1 =>
       (match create_attack_graph (inStore w0 g1.h) "lang.mar" "m.json" false false with
        | .ok g2 => decide (g1.h.nodes = [0, 1, 2] ∧ g2.h.nodes = [3, 4, 5] ∧ (g2.h.n 3).children = [5] ∧
            (g2.h.n 0).children = [2] ∧ g2.h.nodes.map (fun r => (g2.h.n r).id) = [some 0, some 1, some 2] ∧
            (Py.Gen.graph__to_dict 3 g1.h).toOption.isSome ∧ (Py.Gen.graph__to_dict 3 g2.h).toOption.isSome)
        | .error _ => false)
     | .error _ => false) = true := by decide +kernel

/-- the hypotheses of the theorems are met by this run: the model `load_from_file` returns satisfies `ModelOK`
(checked on the heap the kernel computes), its instance model is what the file says, and the hand model generates a
graph from it -/
example :
    (match (PyW.Tie.loadLang w0 "lang.mar").bind (fun lg => model_load_from_file w0 "m.json" ⟨lg⟩) with
     | .ok m => decide ((instOf m).assets.map (fun a => (a.id, a.name, a.type, a.defenses)) =
                    [(7, "h", "Host", [("patched", "0.0")]), (0, "Net:0", "Net", [])] ∧
                  (instOf m).links = [⟨"Link", "hosts", "nets", [7], [0]⟩] ∧
                  (m.assets.map (fun r => PyM.attrInt (m.a r).id)).Nodup ∧ m.associations.Nodup ∧
                  (∀ r ∈ m.assets, (m.a r).associations =
                    m.associations.filter (fun l => (m.l l).left.contains r || (m.l l).right.contains r)))
     | .error _ => false) = true := by decide +kernel

end MalVerif.PropsGen.C16
