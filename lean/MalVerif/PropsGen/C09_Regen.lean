import MalVerif.Py.TieRegenFull
import MalVerif.PropsGen.C01_Gen
/-!
# C09 (last sentence) for the *generated* `regenerate_graph` / `__init__`

"A regenerated graph is indistinguishable from a freshly generated one."

The code is `MalVerif/Py/Gen/Regen.lean` (`graph_regenerate_graph`, `graph___init__`, `graph__generate_graph`:
regenerated from `maltoolbox/attackgraph/attackgraph.py` on every run).  The heap `H` holds *all* objects ever
allocated; the single `AttackGraph` object is the rest of `H`, so `__init__` on a heap `t` stands for constructing a
new `AttackGraph(lang_graph, model)` in an interpreter whose store is `t`.

* `regenerate_is_init`: in the same store, `regenerate_graph()` returns exactly (object identities included) what
  the constructor returns — also when generation raises.
* `regenerate_forgets_old_graph`: the result depends on the old graph's containers and counters not at all.
* `regenerate_indistinguishable`: whatever the stores `t₁`, `t₂` (whatever was done to the graphs in them before),
  `regenerate_graph()` in `t₁` and `AttackGraph(lang_graph, model)` in `t₂` have the same `graphView`: the same
  nodes in the same order with the same attributes, the same edges (as ids), no attackers, the same answers of the
  three lookups, the same id counters.  (`graphView` deliberately forgets the references: the objects of a
  regenerated graph are new objects.)
-/
namespace MalVerif.PropsGen.C09_Regen
open MalVerif MalVerif.Py MalVerif.Py.Gen MalVerif.Py.Tie

/-- **in one and the same store `regenerate_graph()` is the constructor** (given a model and a language graph):
the two calls return the same heap or raise the same exception -/
theorem regenerate_is_init (t : H) (env : EvalEnv) (hm : env.has_model = true) (hl : env.has_lang_graph = true) :
    graph_regenerate_graph t env = graph___init__ t env :=
  regenerate_eq_init t env hm hl

/-- without a model `regenerate_graph()` raises `AttackGraphException`, whereas the constructor returns the empty
graph -/
theorem regenerate_without_model (t : H) (env : EvalEnv) (hm : env.has_model = false) :
    graph_regenerate_graph t env = .error .attackGraphException ∧ graph___init__ t env = .ok (resetG t) :=
  regenerate_no_model t env hm

/-- **the old graph is forgotten**: heaps that differ only in the graph's containers and counters (node list,
attacker list, the three dictionaries, the two id counters) regenerate to the same heap -/
theorem regenerate_forgets_old_graph (t₁ t₂ : H) (env : EvalEnv) (h : resetG t₁ = resetG t₂) :
    graph_regenerate_graph t₁ env = graph_regenerate_graph t₂ env := by
  rw [regenerate_graph_eq, regenerate_graph_eq, h]

/-- what `regenerate_graph()` returns: the generated graph of the hand model (`genGraph`), built from new objects
at the references `t.nfresh + j` -/
theorem regenerate_result (L : Lang) (m : Inst) (atts : List PyAttackerInfo) (hid : (m.assets.map (·.id)).Nodup)
    (ns : List GNode) (es : List (Nat × Nat)) (hg : genGraph L m = .ok (ns, es)) (t : H) :
    ∃ F, ∀ fuel, F ≤ fuel →
      graph_regenerate_graph t (genEnvOf L m atts fuel) = .ok (genHeap L m ns es (resetG t)) ∧
      graph___init__ t (genEnvOf L m atts fuel) = .ok (genHeap L m ns es (resetG t)) := by
  unfold genGraph at hg
  obtain ⟨ns', hn, hg⟩ := er_bind_ok _ _ _ hg
  obtain ⟨es', he, hg⟩ := er_bind_ok _ _ _ hg
  cases hg
  obtain ⟨F, hF⟩ := generate_graph_at L m atts hid ns es hn he (resetG t) (resetG_reset t).fresh
  refine ⟨F, fun fuel hf => ?_⟩
  have h1 : graph_regenerate_graph t (genEnvOf L m atts fuel) = .ok (genHeap L m ns es (resetG t)) := by
    rw [regenerate_graph_eq]; exact hF fuel hf
  exact ⟨h1, by rw [← regenerate_eq_init t _ rfl rfl]; exact h1⟩

/-- **a regenerated graph is indistinguishable from a freshly generated one**: for arbitrary stores `t₁`, `t₂`,
`regenerate_graph()` in `t₁` and `AttackGraph(lang_graph, model)` in `t₂` return graphs with the same view (when the
hand model's generation succeeds; for every sufficiently large recursion budget of the evaluator) -/
theorem regenerate_indistinguishable (L : Lang) (m : Inst) (atts : List PyAttackerInfo)
    (hid : (m.assets.map (·.id)).Nodup) (ns : List GNode) (es : List (Nat × Nat))
    (hg : genGraph L m = .ok (ns, es)) (t₁ t₂ : H) :
    ∃ F, ∀ fuel, F ≤ fuel → ∃ s₁ s₂,
      graph_regenerate_graph t₁ (genEnvOf L m atts fuel) = .ok s₁ ∧
      graph___init__ t₂ (genEnvOf L m atts fuel) = .ok s₂ ∧
      graphView s₁ = graphView s₂ ∧ graphView s₁ = canonView L m ns es := by
  obtain ⟨F1, hF1⟩ := regenerate_result L m atts hid ns es hg t₁
  obtain ⟨F2, hF2⟩ := regenerate_result L m atts hid ns es hg t₂
  have hg' := hg
  unfold genGraph at hg'
  obtain ⟨ns', hn, hg'⟩ := er_bind_ok _ _ _ hg'
  obtain ⟨es', he, hg'⟩ := er_bind_ok _ _ _ hg'
  cases hg'
  refine ⟨max F1 F2, fun fuel hf => ⟨_, _, (hF1 fuel (by omega)).1, (hF2 fuel (by omega)).2, ?_, ?_⟩⟩
  · rw [TRF.graphView_genHeap ⟨hid, hn, he, (resetG_reset t₁).fresh⟩ (resetG_reset t₁),
      TRF.graphView_genHeap ⟨hid, hn, he, (resetG_reset t₂).fresh⟩ (resetG_reset t₂)]
  · exact TRF.graphView_genHeap ⟨hid, hn, he, (resetG_reset t₁).fresh⟩ (resetG_reset t₁)

/-- in particular: regenerating leaves no attacker attached, resets both id counters, and its nodes carry the ids
`0, 1, ..` in list order, however many nodes and attackers had been added or removed before -/
theorem regenerate_view_facts (L : Lang) (m : Inst) (ns : List GNode) (es : List (Nat × Nat)) :
    (canonView L m ns es).attackers = [] ∧ (canonView L m ns es).next_attacker_id = 0 ∧
    (canonView L m ns es).next_node_id = Int.ofNat ns.length ∧
    (canonView L m ns es).nodes.map (·.id) = (List.range ns.length).map (fun j => some (Int.ofNat j)) := by
  refine ⟨rfl, rfl, rfl, ?_⟩
  show ((List.range ns.length).map (canonNodeView L m ns es)).map (·.id) = _
  rw [List.map_map]
  rfl

/-! ### non-vacuity: the demo of `PropsGen/C01.lean`; regeneration in a store that holds an old graph with an
attacker, against construction in the empty store -/

open MalVerif.PropsGen.C01 in
/-- a store with three old node objects (one linked, one compromised), an attacker, and stale containers -/
def demoOld : H :=
  { n := fun r => if r = 0 then { type := "or", name := "x", id := some 7, children := [1], compromised_by := [0] }
                  else if r = 1 then { type := "and", name := "y", id := some 9, parents := [0] } else {}
    a := fun _ => { name := "eve", id := some 3, reached_attack_steps := [0] }
    nodes := [0, 1], attackers := [0], _id_to_node := [(7, 0), (9, 1)], _full_name_to_node := [("7:x", 0)]
    _id_to_attacker := [(3, 0)], next_node_id := 10, next_attacker_id := 4, nfresh := 3, afresh := 1 }

open MalVerif.PropsGen.C01 MalVerif.PropsGen.C01_Gen in
example : ∃ F, ∀ fuel, F ≤ fuel → ∃ s₁ s₂,
    graph_regenerate_graph demoOld (genEnvOf demoLS demoM [] fuel) = .ok s₁ ∧
    graph___init__ {} (genEnvOf demoLS demoM [] fuel) = .ok s₂ ∧
    graphView s₁ = graphView s₂ ∧ graphView s₁ = canonView demoLS demoM demoNs [(0, 3), (0, 1), (2, 1), (2, 3)] :=
  regenerate_indistinguishable demoLS demoM [] (by decide) demoNs _ demo_graph demoOld {}

open MalVerif.PropsGen.C01 in
/-- run by the kernel (fuel 3): the regenerated graph lives at the references 3..6, the fresh one at 0..3, the
`(id, full name, ids of the children)` of their nodes coincide -/
example :
    (graph_regenerate_graph demoOld (genEnvOf demoLS demoM [] 3)).map
        (fun s' => (s'.nodes, (graphView s').nodes.map (fun v => (v.id, v.name, v.children)))) =
      .ok ([3, 4, 5, 6], [(some 0, "access", [some 3, some 1]), (some 1, "compromise", []),
                          (some 2, "access", [some 1, some 3]), (some 3, "compromise", [])]) ∧
    (graph___init__ {} (genEnvOf demoLS demoM [] 3)).map
        (fun s' => (s'.nodes, (graphView s').nodes.map (fun v => (v.id, v.name, v.children)))) =
      .ok ([0, 1, 2, 3], [(some 0, "access", [some 3, some 1]), (some 1, "compromise", []),
                          (some 2, "access", [some 1, some 3]), (some 3, "compromise", [])]) := by
  constructor <;> decide

end MalVerif.PropsGen.C09_Regen
