import MalVerif.PropsGen.C04
import MalVerif.Props.C17
/-!
# C17 for the *translated* visitor: a rejected file makes the compilation fail as a whole

`compileGen` (`Py/AbsVisitor.lean`) is `MalCompiler.compile` with the model's lexer and tree builder and the translated
visitor (`Py/GenVisitor/Visitor.lean`); the include callback of the visitor is `compileGen` one level down.

* `translated_rejected_file_fails`: a file that does not exist, does not lex, or whose tokens the tree builder does not
  consume completely (`parser.mal()` fails, or succeeds and the next token is not `EOF` — the check of e0054c2) makes
  `compile` raise; no specification is produced.
* `assemble_fails_of_failed_include`, `translated_failed_include_fails_whole`: when the compilation of an INCLUDED file
  fails, the translated `visitMal` of the including file raises, whatever else the file declares — there is no partial
  specification.
* `translated_include_of_rejected_file_fails`: the two together, through `compileGen`.
* **`translated_malformed_file_fails`** (general, by transfer of `parse_exact` / `reject_iff` through
  `C04.translated_compile_is_model`): if the root file, or any file it includes directly or transitively
  (`Includes`), is missing, does not lex, or has a token list the grammar relation `DDecls` does not derive completely
  (`Malformed`), the translated compile raises — at every include depth; `translated_compile_only_derivable` (the
  converse for the root: a result means the root's tokens are derivable as a whole, with that meaning);
  `translated_single_file_exact` (a file without includes compiles iff it lexes and is derivable).
-/
namespace MalVerif.PropsGen.C17
open MalVerif MalVerif.Mal MalVerif.Py.Visitor MalVerif.Py.GenVisitor

/-- **a rejected file**: `compile` raises `MalCompilerError` (rendered `Err.compileError`) when the file is missing,
has a lexical error, or its token list is not completely consumed by the start rule -/
theorem translated_rejected_file_fails (files : String → Option String) (f : Nat) (n : String)
    (h : files n = none ∨ ∃ src, files n = some src ∧
          (lex src = none ∨ ∃ ts, lex src = some ts ∧ ∀ t, treeMalRest ts ≠ some (t, []))) :
    compileGen files (f+1) (.str n) = .error .compileError := by
  unfold compileGen
  rcases h with h | ⟨src, hs, h⟩
  · simp only [h]; rfl
  · simp only [hs]
    rcases h with h | ⟨ts, hl, h⟩
    · simp only [h]; rfl
    · simp only [hl]
      cases ht : treeMalRest ts with
      | none => rfl
      | some r =>
        obtain ⟨t, rest⟩ := r
        cases rest with
        | nil => exact absurd ht (h t)
        | cons x xs => rfl

/-- trailing input is rejected: the tree builder's start rule leaves tokens → the compiler raises (`extraneous input`) -/
theorem translated_trailing_input_fails (files : String → Option String) (f : Nat) (n src : String) (ts : List Tok)
    (t : PT) (x : ITok) (xs : List ITok) (hs : files n = some src) (hl : lex src = some ts)
    (ht : treeMalRest ts = some (t, x :: xs)) : compileGen files (f+1) (.str n) = .error .compileError :=
  translated_rejected_file_fails files f n (Or.inr ⟨src, hs, Or.inr ⟨ts, hl, fun t' h => by rw [ht] at h; cases h⟩⟩)

/-- the model: a failing include makes the assembly fail, wherever the `include` stands -/
theorem assemble_fails_of_failed_include (inc : String → Option CSpec) (ds : List Decl) (p : String)
    (hp : Decl.incl p ∈ ds) (hn : inc p = none) : assemble inc ds = none := by
  have key : ∀ (ds : List Decl), Decl.incl p ∈ ds → ∀ s0, ds.foldlM (assembleStep inc) s0 = none := by
    intro ds
    induction ds with
    | nil => intro h; cases h
    | cons d ds ih =>
      intro h s0
      rw [List.foldlM_cons]
      rcases List.mem_cons.mp h with h | h
      · subst h
        simp [assembleStep, hn]
      · cases hd : assembleStep inc s0 d with
        | none => rfl
        | some s' => exact ih h s'
  unfold assemble
  rw [key ds hp]
  rfl

/-- **a failed include makes the whole compilation fail** (translated `visitMal`): under the hypotheses of
`C04.translated_visitMal_is_assemble`, if the file includes `p` and the compilation of `p` fails, `visitMal` raises -/
theorem translated_failed_include_fails_whole (c : V → M V) (toks : List V) (wf g : Nat) (inc : String → Option CSpec)
    (hinc : CompileOK (selfAt c toks wf g) inc) (cs up : List PT) (ds : List Decl)
    (hvis : Forall2 (DeclVisits (selfAt c toks wf g))
      ((cs.filter (isRule "declaration")).map (mkCtx (.rule "mal" cs) up)) ds)
    (p : String) (hp : Decl.incl p ∈ ds) (hn : inc p = none) :
    ∃ e, visitF c toks wf (g+1) (.ctx (.rule "mal" cs) up) = .error e := by
  have h := C04.translated_visitMal_is_assemble c toks wf g inc hinc cs up ds hvis
  rw [assemble_fails_of_failed_include inc ds p hp hn] at h
  exact h

/-- the two together, on a concrete shape: a file consisting of `include "p"` where `p` is rejected (missing, not
lexable, or not completely parsed) does not compile — the error of the included file is the error of the whole -/
theorem translated_include_of_rejected_file_fails (files : String → Option String) (f : Nat) (p : String) (toks : List V)
    (wf g i j : Nat) (up : List PT)
    (h : files p = none ∨ ∃ src, files p = some src ∧
          (lex src = none ∨ ∃ ts, lex src = some ts ∧ ∀ t, treeMalRest ts ≠ some (t, []))) :
    visitF (compileGen files (f+1)) toks wf (g+3)
      (.ctx (.rule "mal" [.rule "declaration" [.rule "include" [leaf (.kwInclude, i), leaf (.str ("\"" ++ p ++ "\""), j)]]]) up) =
      .error .compileError ∨
    stripQuotes ("\"" ++ p ++ "\"") ≠ p := by
  by_cases hq : stripQuotes ("\"" ++ p ++ "\"") = p
  · left
    have herr := translated_rejected_file_fails files f p h
    rw [visitF_mal, visitMal_eq, ctxAcc_eq acc_mal_declaration]
    simp only [runAcc, PT.children, okBind, pure, Except.pure, pyIter]
    have hb := body1_include_err (selfAt (compileGen files (f+1)) toks wf (g+2))
      (mkCtx (.rule "mal" [.rule "declaration" [.rule "include" [leaf (.kwInclude, i), leaf (.str ("\"" ++ p ++ "\""), j)]]]) up
        (.rule "declaration" [.rule "include" [leaf (.kwInclude, i), leaf (.str ("\"" ++ p ++ "\""), j)]]))
      _ (.dict []) (.list []) (.list []) (.list []) (V.unbound, V.unbound, V.unbound, V.unbound, V.unbound, V.unbound)
      p .compileError rfl
      (by rw [show (selfAt (compileGen files (f+1)) toks wf (g+2)).visit = visitF (compileGen files (f+1)) toks wf (g+2) from rfl]
          unfold mkCtx
          rw [include_tie _ _ _ _ _ _ (g+2) _ (by omega), hq])
      herr
    have hb' : malBody1 (selfAt (compileGen files (f+1)) toks wf (g+2))
        (mkCtx (.rule "mal" [.rule "declaration" [.rule "include" [leaf (.kwInclude, i), leaf (.str ("\"" ++ p ++ "\""), j)]]]) up
          (.rule "declaration" [.rule "include" [leaf (.kwInclude, i), leaf (.str ("\"" ++ p ++ "\""), j)]]))
        (spec0, V.unbound, V.unbound, V.unbound, V.unbound, V.unbound, V.unbound) = .error .compileError := hb
    rw [show List.filter (isRule "declaration") [PT.rule "declaration" [PT.rule "include" [leaf (Tok.kwInclude, i), leaf (Tok.str ("\"" ++ p ++ "\""), j)]]] =
        [PT.rule "declaration" [PT.rule "include" [leaf (Tok.kwInclude, i), leaf (Tok.str ("\"" ++ p ++ "\""), j)]]] from rfl]
    rw [List.map_cons, List.map_nil, forIn_cons_err _ _ _ _ _ hb']
    rfl
  · right; exact hq

/-- the hypothesis is satisfiable: the included file has trailing input (`}` after the declarations) -/
example : compileGen (fun n => if n = "b.mal" then some "category Sys { } }" else none) 1 (.str "b.mal") = .error .compileError := by
  apply translated_rejected_file_fails
  right
  refine ⟨_, rfl, Or.inr ⟨[.kwCategory, .id "Sys", .lcurly, .rcurly, .rcurly], by decide, ?_⟩⟩
  intro t h
  have hlen : (treeMalRest [.kwCategory, .id "Sys", .lcurly, .rcurly, .rcurly]).map (fun r => r.2.length) = some 1 := by decide
  rw [h] at hlen
  simp at hlen


/-! ### the general statement: any malformed file on the include path makes the whole compilation fail -/

/-- `Includes files n q`: `q` is `n`, or a file that `n` includes directly or transitively (following the `include`
declarations of files that parse) -/
inductive Includes (files : String → Option String) : String → String → Prop
  | refl (n : String) : Includes files n n
  | step {n src p q : String} {decls : List Decl} : files n = some src → parseSource src = some decls →
      Decl.incl p ∈ decls → Includes files p q → Includes files n q

/-- a file the compiler must reject: missing, not lexable, or its token list is not derivable as a whole by the grammar
(`DDecls ts [] ds` for no `ds`: a syntax error somewhere, or input left over after the last declaration) -/
def Malformed (files : String → Option String) (q : String) : Prop :=
  files q = none ∨ ∃ src, files q = some src ∧ (lex src = none ∨ ∃ ts, lex src = some ts ∧ ¬ ∃ ds, DDecls ts [] ds)

/-- the model: a malformed file on the include path leaves the root without a specification, at every include depth -/
theorem compileFile_none_of_malformed (files : String → Option String) (root q : String) (hinc : Includes files root q)
    (hbad : Malformed files q) : ∀ f, compileFile files f root = none := by
  induction hinc with
  | refl n =>
    intro f
    rcases hbad with h | ⟨src, hs, h⟩
    · exact MalVerif.C17.missing_file_has_no_spec files f n h
    · apply MalVerif.C17.bad_file_has_no_spec files f n src hs
      rcases h with h | ⟨ts, hl, h⟩
      · exact parseSource_of_lex_none h
      · rw [parseSource_of_lex hl]; exact (MalVerif.C17.reject_iff ts).mpr h
  | @step n src p q decls hf hp hin _ ih =>
    intro f
    cases f with
    | zero => exact compileFile_zero files n
    | succ f => exact MalVerif.C17.include_error_propagates files f n src p decls hf hp hin (ih hbad f)

/-- **A malformed file makes the translated compile fail as a whole.**  If the root file or any file on its include
path is missing, has a lexical error, or has a token list that `declaration*` does not derive completely, then
`MalCompiler.compile` with the translated visitor raises — whatever else the files declare and at whatever include
depth; there is no partial specification. -/
theorem translated_malformed_file_fails (files : String → Option String) (root q : String)
    (hinc : Includes files root q) (hbad : Malformed files q) (f : Nat) :
    ∃ e, compileGen files f (.str root) = .error e := by
  have h := C04.translated_compile_is_model files f root
  rw [compileFile_none_of_malformed files root q hinc hbad f] at h
  exact h

/-- conversely, a result means the root's text lexes and its whole token list is derivable by the grammar with the
meaning the specification was assembled from -/
theorem translated_compile_only_derivable (files : String → Option String) (f : Nat) (root : String) (v : V)
    (h : compileGen files f (.str root) = .ok v) :
    ∃ src ts ds, files root = some src ∧ lex src = some ts ∧ DDecls ts [] ds := by
  obtain ⟨s, hs, -⟩ := (C04.translated_compile_ok_iff files f root v).mp h
  cases f with
  | zero => rw [compileFile_zero] at hs; cases hs
  | succ f =>
    rw [compileFile_succ] at hs
    cases hf : files root with
    | none => rw [hf] at hs; cases hs
    | some src =>
      rw [hf] at hs
      simp only [Option.bind_some] at hs
      cases hl : lex src with
      | none => rw [parseSource_of_lex_none hl] at hs; cases hs
      | some ts =>
        rw [parseSource_of_lex hl] at hs
        cases hp : parseMal ts with
        | none => rw [hp] at hs; cases hs
        | some ds => exact ⟨src, ts, ds, rfl, hl, (MalVerif.C17.parse_exact ts ds).mp hp⟩

/-- **exactly**, for a file without `include`: the translated compile returns a specification iff the text lexes and
its whole token list is derivable; the result is the rendering of the assembled declarations -/
theorem translated_single_file_exact (files : String → Option String) (f : Nat) (root src : String) (ts : List Tok)
    (hf : files root = some src) (hl : lex src = some ts) :
    (∀ ds, DDecls ts [] ds → (∀ d ∈ ds, noIncl d = true) →
      ∃ s, assemble (fun _ => none) ds = some s ∧ compileGen files (f+1) (.str root) = .ok (rSpec s)) ∧
    ((¬ ∃ ds, DDecls ts [] ds) → ∃ e, compileGen files (f+1) (.str root) = .error e) := by
  constructor
  · intro ds hd hno
    have hp := (MalVerif.C17.parse_exact ts ds).mpr hd
    have h := C04.translated_compile_is_model files (f+1) root
    rw [compileFile_succ, hf] at h
    simp only [Option.bind_some, parseSource_of_lex hl, hp] at h
    rw [assemble_noIncl _ (fun _ => none) ds hno] at h
    have hsome : ∃ s, assemble (fun _ => none) ds = some s := by
      have key : ∀ (ds : List Decl), (∀ d ∈ ds, noIncl d = true) → ∀ s0, ∃ s, ds.foldlM (assembleStep fun _ => none) s0 = some s := by
        intro ds
        induction ds with
        | nil => intro _ s0; exact ⟨s0, rfl⟩
        | cons d ds ih =>
          intro hno s0
          rw [List.foldlM_cons]
          have hd := hno d List.mem_cons_self
          cases d with
          | incl p => simp [noIncl] at hd
          | define k v => exact ih (fun d hd => hno d (List.mem_cons_of_mem _ hd)) _
          | category n md as => exact ih (fun d hd => hno d (List.mem_cons_of_mem _ hd)) _
          | associations l => exact ih (fun d hd => hno d (List.mem_cons_of_mem _ hd)) _
      obtain ⟨s, hs⟩ := key ds hno {}
      exact ⟨finishSpec s, by simp [assemble, hs]⟩
    obtain ⟨s, hs⟩ := hsome
    rw [hs] at h
    exact ⟨s, hs, h⟩
  · intro hno
    exact translated_malformed_file_fails files root root (.refl root) (Or.inr ⟨src, hf, Or.inr ⟨ts, hl, hno⟩⟩) (f+1)

deriving instance DecidableEq for MalVerif.Mal.Decl

/-- the hypotheses are satisfiable, two levels deep: `root.mal` includes `a.mal`, which includes `b.mal`, which ends in
a surplus `}` — `b.mal` is `Malformed` (its tokens are not derivable: `parseMal` rejects them), it is on the include
path of `root.mal`, and the translated compile of `root.mal` raises at every depth -/
def demoFiles : String → Option String := fun n =>
  if n = "root.mal" then some "#id: \"x\" include \"a.mal\""
  else if n = "a.mal" then some "include \"b.mal\" category Sys { }"
  else if n = "b.mal" then some "category Net { } }" else none

example (f : Nat) : ∃ e, compileGen demoFiles f (.str "root.mal") = .error e := by
  apply translated_malformed_file_fails demoFiles "root.mal" "b.mal"
  · exact .step (src := "#id: \"x\" include \"a.mal\"") (decls := [.define "id" "x", .incl "a.mal"]) (p := "a.mal")
      (by decide) (by decide) (by simp)
      (.step (src := "include \"b.mal\" category Sys { }") (decls := [.incl "b.mal", .category "Sys" [] []]) (p := "b.mal")
        (by decide) (by decide) (by simp) (.refl _))
  · refine Or.inr ⟨"category Net { } }", by decide, Or.inr ⟨[.kwCategory, .id "Net", .lcurly, .rcurly, .rcurly], by decide, ?_⟩⟩
    rw [← MalVerif.C17.reject_iff]
    decide

end MalVerif.PropsGen.C17
