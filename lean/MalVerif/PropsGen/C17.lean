import MalVerif.PropsGen.C04
/-!
# C17 for the *translated* visitor: a rejected file makes the compilation fail as a whole

`compileGen` (`Py/AbsVisitor.lean`) is `MalCompiler.compile` with the model's lexer and tree builder and the translated
visitor (`Py/GenVisitor/Visitor.lean`); the include callback of the visitor is `compileGen` one level down.

* `translated_rejected_file_fails`: a file that does not exist, does not lex, or whose tokens the tree builder does not
  consume completely (`parser.mal()` fails, or succeeds and the next token is not `EOF` — the check of e0054c2) makes
  `compile` raise; no specification is produced.
* `assemble_fails_of_failed_include`, `translated_failed_include_fails_whole`: when the compilation of an INCLUDED file
  fails, the translated `visitMal` of the including file raises, whatever else the file declares — there is no partial
  specification.
* `translated_include_of_rejected_file_fails`: the two together, through `compileGen`.
-/
namespace MalVerif.PropsGen.C17
open MalVerif MalVerif.Mal MalVerif.Py.Visitor MalVerif.Py.GenVisitor

/-- **a rejected file**: `compile` raises `MalCompilerError` (rendered `Err.compileError`) when the file is missing,
has a lexical error, or its token list is not completely consumed by the start rule -/
theorem translated_rejected_file_fails (files : String → Option String) (f : Nat) (n : String)
    (h : files n = none ∨ ∃ src, files n = some src ∧
          (lex src = none ∨ ∃ ts, lex src = some ts ∧ ∀ t, treeMalRest ts ≠ some (t, []))) :
    compileGen files (f+1) (.str n) = .error .compileError := by
  unfold compileGen
  rcases h with h | ⟨src, hs, h⟩
  · simp only [h]; rfl
  · simp only [hs]
    rcases h with h | ⟨ts, hl, h⟩
    · simp only [h]; rfl
    · simp only [hl]
      cases ht : treeMalRest ts with
      | none => rfl
      | some r =>
        obtain ⟨t, rest⟩ := r
        cases rest with
        | nil => exact absurd ht (h t)
        | cons x xs => rfl

/-- trailing input is rejected: the tree builder's start rule leaves tokens → the compiler raises (`extraneous input`) -/
theorem translated_trailing_input_fails (files : String → Option String) (f : Nat) (n src : String) (ts : List Tok)
    (t : PT) (x : ITok) (xs : List ITok) (hs : files n = some src) (hl : lex src = some ts)
    (ht : treeMalRest ts = some (t, x :: xs)) : compileGen files (f+1) (.str n) = .error .compileError :=
  translated_rejected_file_fails files f n (Or.inr ⟨src, hs, Or.inr ⟨ts, hl, fun t' h => by rw [ht] at h; cases h⟩⟩)

/-- the model: a failing include makes the assembly fail, wherever the `include` stands -/
theorem assemble_fails_of_failed_include (inc : String → Option CSpec) (ds : List Decl) (p : String)
    (hp : Decl.incl p ∈ ds) (hn : inc p = none) : assemble inc ds = none := by
  have key : ∀ (ds : List Decl), Decl.incl p ∈ ds → ∀ s0, ds.foldlM (assembleStep inc) s0 = none := by
    intro ds
    induction ds with
    | nil => intro h; cases h
    | cons d ds ih =>
      intro h s0
      rw [List.foldlM_cons]
      rcases List.mem_cons.mp h with h | h
      · subst h
        simp [assembleStep, hn]
      · cases hd : assembleStep inc s0 d with
        | none => rfl
        | some s' => exact ih h s'
  unfold assemble
  rw [key ds hp]
  rfl

/-- **a failed include makes the whole compilation fail** (translated `visitMal`): under the hypotheses of
`C04.translated_visitMal_is_assemble`, if the file includes `p` and the compilation of `p` fails, `visitMal` raises -/
theorem translated_failed_include_fails_whole (c : V → M V) (toks : List V) (wf g : Nat) (inc : String → Option CSpec)
    (hinc : CompileOK (selfAt c toks wf g) inc) (cs up : List PT) (ds : List Decl)
    (hvis : Forall2 (DeclVisits (selfAt c toks wf g))
      ((cs.filter (isRule "declaration")).map (mkCtx (.rule "mal" cs) up)) ds)
    (p : String) (hp : Decl.incl p ∈ ds) (hn : inc p = none) :
    ∃ e, visitF c toks wf (g+1) (.ctx (.rule "mal" cs) up) = .error e := by
  have h := C04.translated_visitMal_is_assemble c toks wf g inc hinc cs up ds hvis
  rw [assemble_fails_of_failed_include inc ds p hp hn] at h
  exact h

/-- the two together, on a concrete shape: a file consisting of `include "p"` where `p` is rejected (missing, not
lexable, or not completely parsed) does not compile — the error of the included file is the error of the whole -/
theorem translated_include_of_rejected_file_fails (files : String → Option String) (f : Nat) (p : String) (toks : List V)
    (wf g i j : Nat) (up : List PT)
    (h : files p = none ∨ ∃ src, files p = some src ∧
          (lex src = none ∨ ∃ ts, lex src = some ts ∧ ∀ t, treeMalRest ts ≠ some (t, []))) :
    visitF (compileGen files (f+1)) toks wf (g+3)
      (.ctx (.rule "mal" [.rule "declaration" [.rule "include" [leaf (.kwInclude, i), leaf (.str ("\"" ++ p ++ "\""), j)]]]) up) =
      .error .compileError ∨
    stripQuotes ("\"" ++ p ++ "\"") ≠ p := by
  by_cases hq : stripQuotes ("\"" ++ p ++ "\"") = p
  · left
    have herr := translated_rejected_file_fails files f p h
    rw [visitF_mal, visitMal_eq, ctxAcc_eq acc_mal_declaration]
    simp only [runAcc, PT.children, okBind, pure, Except.pure, pyIter]
    have hb := body1_include_err (selfAt (compileGen files (f+1)) toks wf (g+2))
      (mkCtx (.rule "mal" [.rule "declaration" [.rule "include" [leaf (.kwInclude, i), leaf (.str ("\"" ++ p ++ "\""), j)]]]) up
        (.rule "declaration" [.rule "include" [leaf (.kwInclude, i), leaf (.str ("\"" ++ p ++ "\""), j)]]))
      _ (.dict []) (.list []) (.list []) (.list []) (V.unbound, V.unbound, V.unbound, V.unbound, V.unbound, V.unbound)
      p .compileError rfl
      (by rw [show (selfAt (compileGen files (f+1)) toks wf (g+2)).visit = visitF (compileGen files (f+1)) toks wf (g+2) from rfl]
          unfold mkCtx
          rw [include_tie _ _ _ _ _ _ (g+2) _ (by omega), hq])
      herr
    have hb' : malBody1 (selfAt (compileGen files (f+1)) toks wf (g+2))
        (mkCtx (.rule "mal" [.rule "declaration" [.rule "include" [leaf (.kwInclude, i), leaf (.str ("\"" ++ p ++ "\""), j)]]]) up
          (.rule "declaration" [.rule "include" [leaf (.kwInclude, i), leaf (.str ("\"" ++ p ++ "\""), j)]]))
        (spec0, V.unbound, V.unbound, V.unbound, V.unbound, V.unbound, V.unbound) = .error .compileError := hb
    rw [show List.filter (isRule "declaration") [PT.rule "declaration" [PT.rule "include" [leaf (Tok.kwInclude, i), leaf (Tok.str ("\"" ++ p ++ "\""), j)]]] =
        [PT.rule "declaration" [PT.rule "include" [leaf (Tok.kwInclude, i), leaf (Tok.str ("\"" ++ p ++ "\""), j)]]] from rfl]
    rw [List.map_cons, List.map_nil, forIn_cons_err _ _ _ _ _ hb']
    rfl
  · right; exact hq

/-- the hypothesis is satisfiable: the included file has trailing input (`}` after the declarations) -/
example : compileGen (fun n => if n = "b.mal" then some "category Sys { } }" else none) 1 (.str "b.mal") = .error .compileError := by
  apply translated_rejected_file_fails
  right
  refine ⟨_, rfl, Or.inr ⟨[.kwCategory, .id "Sys", .lcurly, .rcurly, .rcurly], by decide, ?_⟩⟩
  intro t h
  have hlen : (treeMalRest [.kwCategory, .id "Sys", .lcurly, .rcurly, .rcurly]).map (fun r => r.2.length) = some 1 := by decide
  rw [h] at hlen
  simp at hlen

end MalVerif.PropsGen.C17
