import MalVerif.Py.TieApriori
/-!
# C08 for the *generated* `calculate_viability_and_necessity`

"Viability / necessity labels are the greatest fixed point, in any node order", stated about the function that
`translators/py2lean.py` produced from `maltoolbox/attackgraph/analyzers/apriori.py`, on a heap `H`.
`Py/TieApriori.lean` (`calculate_tie`) identifies the generated function with the generic `calcAll` (reset loop,
then evaluation / propagation loop `calcLab`) on the graphs `viabGH s` / `necGH s` read off the heap; `Proofs/FixOuter.lean` (`calc_gfp`, `gfp_unique`) does
the rest.
-/
namespace MalVerif.PropsGen.C08
open MalVerif.Py MalVerif.Py.Gen MalVerif.Py.Tie MalVerif.Apriori

/-- the heap is a structurally consistent attack graph.  NOTHING is assumed about the `is_viable` /
`is_necessary` labels of its nodes: they may be the dataclass defaults, the result of an earlier analysis, loaded
from a file or set by the caller. -/
structure WellFormed (s : H) : Prop where
  /-- children of any object are nodes of the graph -/
  closed_c : ∀ p c, c ∈ (s.n p).children → c ∈ s.nodes
  /-- `children` and `parents` are converse -/
  conv : ∀ c p, c ∈ (s.n p).children ↔ p ∈ (s.n c).parents
  known : ∀ r ∈ s.nodes, KnownType (s.n r).type
  status : ∀ r ∈ s.nodes, StatusOK (s.n r)
  /-- objects that are not part of the graph are inert (no status constant, default labels); the analysis never
  reads or writes them -/
  outside : ∀ r, r ∉ s.nodes → (s.n r).type = "or" ∧ (s.n r).is_viable = true ∧ (s.n r).is_necessary = true

/-- the two labellings the analysis computes: the model's second loop from default labels -/
def viabLab (s : H) : Lab := calcLab (viabGH s) (viabConstH s) (s.nodes.length + 1) s.nodes top
def necLab (s : H) : Lab := calcLab (necGH s) (necConstH s) (s.nodes.length + 1) s.nodes top

theorem reset_covers (s : H) (h : WellFormed s) :
    (∀ x, x ∈ s.nodes ∨ labV s x = true) ∧ (∀ x, x ∈ s.nodes ∨ labN s x = true) := by
  constructor <;> intro x <;> by_cases hx : x ∈ s.nodes
  · exact Or.inl hx
  · exact Or.inr (h.outside x hx).2.1
  · exact Or.inl hx
  · exact Or.inr (h.outside x hx).2.2

/-- closed form of the result: the labels in the initial heap do not occur in it -/
theorem calculate_eq (s : H) (h : WellFormed s) :
    calculate_viability_and_necessity s = .ok (setNec (setViab s (viabLab s)) (necLab s)) := by
  rw [calculate_tie s h.known h.status, calcAll_eq _ _ _ _ _ (reset_covers s h).1,
    calcAll_eq _ _ _ _ _ (reset_covers s h).2]; rfl

/-- **totality**: on a well-formed graph whose status nodes have a defined status the analysis does not raise -/
theorem calculate_ok (s : H) (h : WellFormed s) : ∃ s', calculate_viability_and_necessity s = .ok s' :=
  ⟨_, calculate_eq s h⟩

theorem result_eq (s s' : H) (h : WellFormed s) (hr : calculate_viability_and_necessity s = .ok s') :
    s' = setNec (setViab s (viabLab s)) (necLab s) := by
  rw [calculate_eq s h] at hr; exact (Except.ok.inj hr).symm

/-- nothing but the two labels changes -/
theorem calculate_frame (s s' : H) (h : WellFormed s) (hr : calculate_viability_and_necessity s = .ok s') :
    s'.nodes = s.nodes ∧ s'.attackers = s.attackers ∧ s'._id_to_node = s._id_to_node ∧
    s'._full_name_to_node = s._full_name_to_node ∧ s'._id_to_attacker = s._id_to_attacker ∧
    s'.next_node_id = s.next_node_id ∧ s'.next_attacker_id = s.next_attacker_id ∧ s'.a = s.a ∧
    ∀ r, { s'.n r with is_viable := true, is_necessary := true } =
         { s.n r with is_viable := true, is_necessary := true } := by
  rw [result_eq s s' h hr]
  exact ⟨rfl, rfl, rfl, rfl, rfl, rfl, rfl, rfl, fun _ => rfl⟩

theorem conv_viab (s : H) (h : WellFormed s) : Conv (viabGH s) := h.conv
theorem conv_nec (s : H) (h : WellFormed s) : Conv (necGH s) := h.conv

theorem kind_outside (s : H) (h : WellFormed s) (x : Nat) (hx : x ∉ s.nodes) :
    (viabGH s).kind x ≠ .constK ∧ (necGH s).kind x ≠ .constK :=
  kind_nonconst s x (Or.inl (h.outside x hx).1)

/-- **Viability is the greatest fixed point** of the equation system read off the initial heap — from ANY
initial labels. -/
theorem viability_is_gfp (s s' : H) (h : WellFormed s) (hr : calculate_viability_and_necessity s = .ok s') :
    (∀ x, (s'.n x).is_viable = Sys (viabGH s) (viabConstH s) (labV s') x) ∧
    (∀ w : Lab, (∀ x, w x = true → Sys (viabGH s) (viabConstH s) w x = true) → le w (labV s')) := by
  have hl : labV s' = viabLab s := by rw [result_eq s s' h hr]; rfl
  have hv : ∀ x, (s'.n x).is_viable = labV s' x := fun _ => rfl
  simp only [hv, hl]
  exact calc_gfp (viabGH s) (conv_viab s h) s.nodes h.closed_c (viabConstH s) s.nodes
    (fun x hk => by
      by_cases hx : x ∈ s.nodes
      · exact Or.inl hx
      · exact absurd hk (kind_outside s h x hx).1)

/-- **Necessity is the greatest fixed point** (a parent with a TTC distribution counts as necessary) — from ANY
initial labels. -/
theorem necessity_is_gfp (s s' : H) (h : WellFormed s) (hr : calculate_viability_and_necessity s = .ok s') :
    (∀ x, (s'.n x).is_necessary = Sys (necGH s) (necConstH s) (labN s') x) ∧
    (∀ w : Lab, (∀ x, w x = true → Sys (necGH s) (necConstH s) w x = true) → le w (labN s')) := by
  have hl : labN s' = necLab s := by rw [result_eq s s' h hr]; rfl
  have hv : ∀ x, (s'.n x).is_necessary = labN s' x := fun _ => rfl
  simp only [hv, hl]
  exact calc_gfp (necGH s) (conv_nec s h) s.nodes h.closed_c (necConstH s) s.nodes
    (fun x hk => by
      by_cases hx : x ∈ s.nodes
      · exact Or.inl hx
      · exact absurd hk (kind_outside s h x hx).2)

/-- the same objects up to the two labels the analysis computes -/
def SameButLabels (s1 s2 : H) : Prop :=
  ∀ r, { s1.n r with is_viable := true, is_necessary := true } =
       { s2.n r with is_viable := true, is_necessary := true }

theorem sameButLabels_sys (s1 s2 : H) (h : SameButLabels s1 s2) (hw2 : WellFormed s2) :
    Sys (viabGH s1) (viabConstH s1) = Sys (viabGH s2) (viabConstH s2) ∧
    Sys (necGH s1) (necConstH s1) = Sys (necGH s2) (necConstH s2) := by
  have hty : ∀ r, (s1.n r).type = (s2.n r).type := fun r => by have := congrArg PyNode.type (h r); exact this
  have hpa : ∀ r, (s1.n r).parents = (s2.n r).parents := fun r => by have := congrArg PyNode.parents (h r); exact this
  have hch : ∀ r, (s1.n r).children = (s2.n r).children := fun r => by have := congrArg PyNode.children (h r); exact this
  have htt : ∀ r, (s1.n r).ttc = (s2.n r).ttc := fun r => by have := congrArg PyNode.ttc (h r); exact this
  have hde : ∀ r, (s1.n r).defense_status = (s2.n r).defense_status := fun r => by have := congrArg PyNode.defense_status (h r); exact this
  have hex : ∀ r, (s1.n r).existence_status = (s2.n r).existence_status :=
    fun r => by have := congrArg PyNode.existence_status (h r); exact this
  have e1 : viabGH s1 = viabGH s2 := by
    unfold viabGH; congr 1 <;> funext i <;> simp only [hty, hpa, hch]
  have e2 : necGH s1 = necGH s2 := by
    unfold necGH; congr 1 <;> funext i <;> simp only [hty, hpa, hch, htt]
  constructor
  · funext v x
    unfold Sys
    rw [e1]
    by_cases hk : (viabGH s2).kind x = .constK
    · simp only [hk, if_true]
      have hk' : viabKindS (s2.n x).type = .constK := hk
      unfold viabConstH
      simp only [hty, hde, hex]
      have h1 : ¬ (s2.n x).type = "or" := by intro e; simp [viabKindS, e] at hk'
      have h2 : ¬ (s2.n x).type = "and" := by intro e; simp [viabKindS, e] at hk'
      by_cases a : (s2.n x).type = "exist" <;> by_cases b : (s2.n x).type = "notExist" <;>
        by_cases c : (s2.n x).type = "defense" <;> simp [a, b, c]
      -- a status constant of unknown type: only on objects inside the graph, where `KnownType` excludes it
      by_cases hx : x ∈ s2.nodes
      · rcases hw2.known x hx with t | t | t | t | t <;> simp_all
      · exact absurd (hw2.outside x hx).1 h1
    · simp only [hk, if_false]
  · funext v x
    unfold Sys
    rw [e2]
    by_cases hk : (necGH s2).kind x = .constK
    · simp only [hk, if_true]
      have hk' : necKindS (s2.n x).type = .constK := hk
      unfold necConstH
      simp only [hty, hde, hex]
      have h1 : ¬ (s2.n x).type = "or" := by intro e; simp [necKindS, e] at hk'
      by_cases a : (s2.n x).type = "exist" <;> by_cases b : (s2.n x).type = "notExist" <;>
        by_cases c : (s2.n x).type = "defense" <;> simp [a, b, c]
      by_cases hx : x ∈ s2.nodes
      · rcases hw2.known x hx with t | t | t | t | t <;> simp_all [necKindS]
      · exact absurd (hw2.outside x hx).1 h1
    · simp only [hk, if_false]

/-- **`calculate_viability_and_necessity` ignores the old labels**: two heaps that hold the same graph and differ
only in the `is_viable` / `is_necessary` attributes of their objects (left by an earlier analysis of a graph with
other defense statuses, loaded from a file, set through `evaluate_*` / `propagate_*`, ...) get the same labels. -/
theorem calculate_ignores_old_labels (s1 s2 s1' s2' : H) (h1 : WellFormed s1) (h2 : WellFormed s2)
    (hsame : SameButLabels s1 s2)
    (r1 : calculate_viability_and_necessity s1 = .ok s1') (r2 : calculate_viability_and_necessity s2 = .ok s2') :
    labV s1' = labV s2' ∧ labN s1' = labN s2' := by
  have a1 := viability_is_gfp s1 s1' h1 r1
  have a2 := viability_is_gfp s2 s2' h2 r2
  have b1 := necessity_is_gfp s1 s1' h1 r1
  have b2 := necessity_is_gfp s2 s2' h2 r2
  have e := sameButLabels_sys s1 s2 hsame h2
  rw [e.1] at a1; rw [e.2] at b1
  exact ⟨gfp_unique _ _ _ a1.1 a2.1 a1.2 a2.2, gfp_unique _ _ _ b1.1 b2.1 b1.2 b2.2⟩

/-- a second analysis of the result changes nothing -/
theorem calculate_idempotent (s s' : H) (h : WellFormed s) (hr : calculate_viability_and_necessity s = .ok s') :
    calculate_viability_and_necessity s' = .ok s' := by
  have hw' : WellFormed s' := by
    rw [result_eq s s' h hr]
    refine ⟨h.closed_c, h.conv, h.known, h.status, ?_⟩
    intro r hr'
    have hk := kind_outside s h r hr'
    refine ⟨(h.outside r hr').1, ?_, ?_⟩
    · have := (calc_gfp (viabGH s) (conv_viab s h) s.nodes h.closed_c (viabConstH s) s.nodes
        (fun x hk => by
          by_cases hx : x ∈ s.nodes
          · exact Or.inl hx
          · exact absurd hk (kind_outside s h x hx).1)).1 r
      show viabLab s r = true
      unfold viabLab; rw [this]
      have hp : (viabGH s).parents r = [] := by
        cases hp : (viabGH s).parents r with
        | nil => rfl
        | cons a t =>
          have : r ∈ (viabGH s).children a := (h.conv r a).2 (by show a ∈ (viabGH s).parents r; rw [hp]; simp)
          exact absurd (h.closed_c a r this) hr'
      have hko : (viabGH s).kind r = .anyK := by simp [viabGH, viabKindS, (h.outside r hr').1]
      simp [Sys, F, hko, hp]
    · have := (calc_gfp (necGH s) (conv_nec s h) s.nodes h.closed_c (necConstH s) s.nodes
        (fun x hk => by
          by_cases hx : x ∈ s.nodes
          · exact Or.inl hx
          · exact absurd hk (kind_outside s h x hx).2)).1 r
      show necLab s r = true
      unfold necLab; rw [this]
      have hp : (necGH s).parents r = [] := by
        cases hp : (necGH s).parents r with
        | nil => rfl
        | cons a t =>
          have : r ∈ (necGH s).children a := (h.conv r a).2 (by show a ∈ (necGH s).parents r; rw [hp]; simp)
          exact absurd (h.closed_c a r this) hr'
      have hko : (necGH s).kind r = .allK := by simp [necGH, necKindS, (h.outside r hr').1]
      simp [Sys, F, hko, hp]
  obtain ⟨s'', hr''⟩ := calculate_ok s' hw'
  have hsame : SameButLabels s s' := by rw [result_eq s s' h hr]; intro r; rfl
  have e := calculate_ignores_old_labels s s' s' s'' h hw' hsame hr hr''
  have hs'' := result_eq s' s'' hw' hr''
  rw [hr'']
  congr 1
  have ev : viabLab s' = labV s' := by
    have : labV s'' = viabLab s' := by rw [hs'']; rfl
    rw [← this]; exact e.1.symm
  have en : necLab s' = labN s' := by
    have : labN s'' = necLab s' := by rw [hs'']; rfl
    rw [← this]; exact e.2.symm
  rw [hs'', ev, en]; rfl

set_option linter.unusedVariables false in
/-- **Order independence**: the same objects with the node list stored in another order get the same labels —
whatever labels the two heaps carry.
(`hperm` is not even needed: `WellFormed` of both heaps already makes both results the greatest solution of the
same equation system, which only depends on the objects.) -/
theorem order_independent (s1 s2 s1' s2' : H) (h1 : WellFormed s1) (h2 : WellFormed s2)
    (hsame : SameButLabels s1 s2)
    (hperm : ∀ x, x ∈ s1.nodes ↔ x ∈ s2.nodes)
    (r1 : calculate_viability_and_necessity s1 = .ok s1') (r2 : calculate_viability_and_necessity s2 = .ok s2') :
    labV s1' = labV s2' ∧ labN s1' = labN s2' :=
  calculate_ignores_old_labels s1 s2 s1' s2' h1 h2 hsame r1 r2

/-! ### the clauses of the property, read off the fixed-point equation (in terms of the heap) -/

section clauses
variable (s s' : H) (h : WellFormed s) (hr : calculate_viability_and_necessity s = .ok s')
include h hr

/-- defenses and existence steps are labelled from their own status -/
theorem status_nodes (r : NRef)
    (ht : (s.n r).type = "exist" ∨ (s.n r).type = "notExist" ∨ (s.n r).type = "defense") :
    (s'.n r).is_viable = viabConstH s r ∧ (s'.n r).is_necessary = necConstH s r := by
  have a := (viability_is_gfp s s' h hr).1 r
  have b := (necessity_is_gfp s s' h hr).1 r
  have k := kind_const s r ht
  constructor
  · rw [a]; simp [Sys, k.1]
  · rw [b]; simp [Sys, k.2]

/-- the label a defense / existence step gets: a defense is viable unless its status is `1.0` (enabled) and
necessary unless it is `0.0`; an `exist` step is viable iff the asset exists, and then it is not necessary;
`notExist` the other way round -/
theorem status_values (r : NRef) (hm : r ∈ s.nodes) :
    ((s.n r).type = "defense" →
      (s'.n r).is_viable = !(optEq1 (s.n r).defense_status) ∧
      (s'.n r).is_necessary = !(optEq0 (s.n r).defense_status)) ∧
    ((s.n r).type = "exist" → ∃ b, (s.n r).existence_status = some b ∧
      (s'.n r).is_viable = b ∧ (s'.n r).is_necessary = !b) ∧
    ((s.n r).type = "notExist" → ∃ b, (s.n r).existence_status = some b ∧
      (s'.n r).is_viable = !b ∧ (s'.n r).is_necessary = b) := by
  refine ⟨fun ht => ?_, fun ht => ?_, fun ht => ?_⟩
  · have := status_nodes s s' h hr r (Or.inr (Or.inr ht))
    simpa [viabConstH, necConstH, ht] using this
  · have := status_nodes s s' h hr r (Or.inl ht)
    have hs := (h.status r hm).1 (Or.inl ht)
    cases he : (s.n r).existence_status with
    | none => rw [he] at hs; exact absurd hs (by decide)
    | some b =>
      refine ⟨b, rfl, ?_⟩
      cases b <;> simpa [viabConstH, necConstH, ht, he, optBoolGet, truthyOptBool] using this
  · have := status_nodes s s' h hr r (Or.inr (Or.inl ht))
    have hs := (h.status r hm).1 (Or.inr ht)
    cases he : (s.n r).existence_status with
    | none => rw [he] at hs; exact absurd hs (by decide)
    | some b =>
      refine ⟨b, rfl, ?_⟩
      cases b <;> simpa [viabConstH, necConstH, ht, he, optBoolGet, truthyOptBool] using this

/-- steps without parents keep the default (viable, necessary) -/
theorem no_parents_default (r : NRef) (ht : (s.n r).type = "or" ∨ (s.n r).type = "and")
    (hp : (s.n r).parents = []) :
    (s'.n r).is_viable = true ∧ (s'.n r).is_necessary = true := by
  have a := (viability_is_gfp s s' h hr).1 r
  have b := (necessity_is_gfp s s' h hr).1 r
  constructor
  · rw [a]; rcases ht with ht | ht <;> simp [Sys, F, viabGH, viabKindS, ht, hp]
  · rw [b]; rcases ht with ht | ht <;> simp [Sys, F, necGH, necKindS, ht, hp]

/-- an 'or' step with parents: viable iff some parent is viable; necessary iff every parent is necessary or
has a TTC distribution -/
theorem or_step (r : NRef) (ht : (s.n r).type = "or") (hp : (s.n r).parents ≠ []) :
    ((s'.n r).is_viable = true ↔ ∃ p ∈ (s.n r).parents, (s'.n p).is_viable = true) ∧
    ((s'.n r).is_necessary = true ↔
      ∀ p ∈ (s.n r).parents, (s'.n p).is_necessary = true ∨ ttcGate (s.n p).ttc = true) := by
  have a := (viability_is_gfp s s' h hr).1 r
  have b := (necessity_is_gfp s s' h hr).1 r
  constructor
  · rw [a]; simp [Sys, F, viabGH, viabKindS, ht, hp, eff, labV]
  · rw [b]; simp [Sys, F, necGH, necKindS, ht, eff, labN, or_comm]

/-- an 'and' step with parents: viable iff all parents are viable; necessary iff some parent is necessary or
has a TTC distribution -/
theorem and_step (r : NRef) (ht : (s.n r).type = "and") (hp : (s.n r).parents ≠ []) :
    ((s'.n r).is_viable = true ↔ ∀ p ∈ (s.n r).parents, (s'.n p).is_viable = true) ∧
    ((s'.n r).is_necessary = true ↔
      ∃ p ∈ (s.n r).parents, (s'.n p).is_necessary = true ∨ ttcGate (s.n p).ttc = true) := by
  have a := (viability_is_gfp s s' h hr).1 r
  have b := (necessity_is_gfp s s' h hr).1 r
  constructor
  · rw [a]; simp [Sys, F, viabGH, viabKindS, ht, eff, labV]
  · rw [b]; simp [Sys, F, necGH, necKindS, ht, hp, eff, labN, or_comm]

end clauses

/-! ### non-vacuity: a concrete heap (enabled defense, `or` step with a self-loop, `and` step, `exist` step)
whose nodes carry stale labels — e.g. left by an analysis made while the defense was disabled and the asset did
not exist -/

def demo : H where
  n := fun r => match r with
    | 0 => { type := "defense", children := [1, 2], defense_status := some { text := "1.0", cls := .one },
             is_necessary := false }
    | 1 => { type := "or", children := [1], parents := [0, 1], is_viable := false, is_necessary := false }
    | 2 => { type := "and", parents := [0, 3], is_viable := true, is_necessary := false }
    | 3 => { type := "exist", children := [2], existence_status := some true, is_viable := false }
    | _ => {}
  nodes := [0, 1, 2, 3]

theorem wellFormed_demo : WellFormed demo where
  closed_c := by
    intro p c
    rcases p with _ | _ | _ | _ | p <;> simp [demo]
    all_goals grind
  conv := by
    intro c p
    rcases p with _ | _ | _ | _ | p <;> rcases c with _ | _ | _ | _ | c <;> simp [demo]
  known := by
    intro r hr
    simp [demo] at hr
    rcases hr with h | h | h | h <;> subst h <;> simp [demo, KnownType]
  status := by
    intro r hr
    simp [demo] at hr
    rcases hr with h | h | h | h <;> subst h <;> simp [demo, StatusOK] <;> decide
  outside := by
    intro r hr
    rcases r with _ | _ | _ | _ | r <;> simp [demo] at hr ⊢

example : ∃ s', calculate_viability_and_necessity demo = .ok s' := calculate_ok demo wellFormed_demo

/-- the labels the generated function computes on `demo` (kernel evaluation of the generated code): the stale
labels are gone; the `or` step 1 is viable through its self-loop (greatest solution) although the defense 0 is
enabled; the `and` step 2 is not viable; the `exist` step 3 is viable and therefore not necessary -/
example : (match calculate_viability_and_necessity demo with
    | .ok s' => [0, 1, 2, 3].map (fun r => ((s'.n r).is_viable, (s'.n r).is_necessary))
    | .error _ => []) = [(false, true), (true, true), (false, true), (true, false)] := by
  decide

/-- the same graph with default labels -/
def demoFresh : H := setNec (setViab demo top) top

example : SameButLabels demo demoFresh := fun _ => rfl

/-- `calculate_ignores_old_labels` on the concrete pair, by kernel evaluation of the generated code -/
example : (match calculate_viability_and_necessity demo, calculate_viability_and_necessity demoFresh with
    | .ok a, .ok b => [0, 1, 2, 3].all (fun r => (a.n r).is_viable == (b.n r).is_viable &&
                                               (a.n r).is_necessary == (b.n r).is_necessary)
    | _, _ => false) = true := by
  decide

/-- a composite TTC (no `name` key) is a probability distribution for the translated `_has_ttc_distribution`
(68ab4f5), as are a number and any named function other than Enabled / Disabled; `None`, `{}`, Enabled and
Disabled are not -/
example :
    ttcGate (some [("type", "\"addition\""), ("lhs", "{..}"), ("rhs", "{..}")]) = true ∧
    ttcGate (some [("type", "\"number\""), ("value", "2.0")]) = true ∧
    ttcGate (some [("type", "function"), ("name", "Exponential")]) = true ∧
    ttcGate (some [("type", "function"), ("name", "Enabled")]) = false ∧
    ttcGate (some [("type", "function"), ("name", "Disabled")]) = false ∧
    ttcGate (some []) = false ∧ ttcGate none = false := by
  decide

end MalVerif.PropsGen.C08
