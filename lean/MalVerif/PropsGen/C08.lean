import MalVerif.Py.TieApriori
/-!
# C08 for the *generated* `calculate_viability_and_necessity`

"Viability / necessity labels are the greatest fixed point, in any node order", stated about the function that
`translators/py2lean.py` produced from `maltoolbox/attackgraph/analyzers/apriori.py`, on a heap `H`.
`Py/TieApriori.lean` (`calculate_tie`) identifies the generated function with the generic outer loop `calcLab`
on the graphs `viabGH s` / `necGH s` read off the heap; `Proofs/FixOuter.lean` (`calc_gfp`, `gfp_unique`) does
the rest.
-/
namespace MalVerif.PropsGen.C08
open MalVerif.Py MalVerif.Py.Gen MalVerif.Py.Tie MalVerif.Apriori

/-- the heap is a freshly generated, structurally consistent attack graph -/
structure Fresh (s : H) : Prop where
  /-- children of any object are nodes of the graph -/
  closed_c : ∀ p c, c ∈ (s.n p).children → c ∈ s.nodes
  /-- `children` and `parents` are converse -/
  conv : ∀ c p, c ∈ (s.n p).children ↔ p ∈ (s.n c).parents
  /-- labels still have their dataclass defaults -/
  viable : ∀ r, (s.n r).is_viable = true
  necessary : ∀ r, (s.n r).is_necessary = true
  known : ∀ r ∈ s.nodes, KnownType (s.n r).type
  status : ∀ r ∈ s.nodes, StatusOK (s.n r)
  /-- objects that are not part of the graph are inert (no status constant) -/
  outside : ∀ r, r ∉ s.nodes → (s.n r).type = "or"

theorem labV_top (s : H) (h : Fresh s) : labV s = top := Lab.ext (fun x => h.viable x)
theorem labN_top (s : H) (h : Fresh s) : labN s = top := Lab.ext (fun x => h.necessary x)

/-- the two labellings the analysis computes -/
def viabLab (s : H) : Lab := calcLab (viabGH s) (viabConstH s) (s.nodes.length + 1) s.nodes top
def necLab (s : H) : Lab := calcLab (necGH s) (necConstH s) (s.nodes.length + 1) s.nodes top

/-- closed form of the result -/
theorem calculate_eq (s : H) (h : Fresh s) :
    calculate_viability_and_necessity s = .ok (setNec (setViab s (viabLab s)) (necLab s)) := by
  rw [calculate_tie s h.known h.status, labV_top s h, labN_top s h]; rfl

theorem calculate_ok (s : H) (h : Fresh s) : ∃ s', calculate_viability_and_necessity s = .ok s' :=
  ⟨_, calculate_eq s h⟩

theorem result_eq (s s' : H) (h : Fresh s) (hr : calculate_viability_and_necessity s = .ok s') :
    s' = setNec (setViab s (viabLab s)) (necLab s) := by
  rw [calculate_eq s h] at hr; exact (Except.ok.inj hr).symm

/-- nothing but the two labels changes -/
theorem calculate_frame (s s' : H) (h : Fresh s) (hr : calculate_viability_and_necessity s = .ok s') :
    s'.nodes = s.nodes ∧ s'.attackers = s.attackers ∧ s'._id_to_node = s._id_to_node ∧
    s'._full_name_to_node = s._full_name_to_node ∧ s'._id_to_attacker = s._id_to_attacker ∧
    s'.next_node_id = s.next_node_id ∧ s'.next_attacker_id = s.next_attacker_id ∧ s'.a = s.a ∧
    ∀ r, { s'.n r with is_viable := true, is_necessary := true } =
         { s.n r with is_viable := true, is_necessary := true } := by
  rw [result_eq s s' h hr]
  exact ⟨rfl, rfl, rfl, rfl, rfl, rfl, rfl, rfl, fun _ => rfl⟩

theorem conv_viab (s : H) (h : Fresh s) : Conv (viabGH s) := h.conv
theorem conv_nec (s : H) (h : Fresh s) : Conv (necGH s) := h.conv

theorem kind_outside (s : H) (h : Fresh s) (x : Nat) (hx : x ∉ s.nodes) :
    (viabGH s).kind x ≠ .constK ∧ (necGH s).kind x ≠ .constK :=
  kind_nonconst s x (Or.inl (h.outside x hx))

/-- **Viability is the greatest fixed point** of the equation system read off the initial heap. -/
theorem viability_is_gfp (s s' : H) (h : Fresh s) (hr : calculate_viability_and_necessity s = .ok s') :
    (∀ x, (s'.n x).is_viable = Sys (viabGH s) (viabConstH s) (labV s') x) ∧
    (∀ w : Lab, (∀ x, w x = true → Sys (viabGH s) (viabConstH s) w x = true) → le w (labV s')) := by
  have hl : labV s' = viabLab s := by rw [result_eq s s' h hr]; rfl
  have hv : ∀ x, (s'.n x).is_viable = labV s' x := fun _ => rfl
  simp only [hv, hl]
  exact calc_gfp (viabGH s) (conv_viab s h) s.nodes h.closed_c (viabConstH s) s.nodes
    (fun x hk => by
      by_cases hx : x ∈ s.nodes
      · exact Or.inl hx
      · exact absurd hk (kind_outside s h x hx).1)

/-- **Necessity is the greatest fixed point** (a parent with a TTC distribution counts as necessary). -/
theorem necessity_is_gfp (s s' : H) (h : Fresh s) (hr : calculate_viability_and_necessity s = .ok s') :
    (∀ x, (s'.n x).is_necessary = Sys (necGH s) (necConstH s) (labN s') x) ∧
    (∀ w : Lab, (∀ x, w x = true → Sys (necGH s) (necConstH s) w x = true) → le w (labN s')) := by
  have hl : labN s' = necLab s := by rw [result_eq s s' h hr]; rfl
  have hv : ∀ x, (s'.n x).is_necessary = labN s' x := fun _ => rfl
  simp only [hv, hl]
  exact calc_gfp (necGH s) (conv_nec s h) s.nodes h.closed_c (necConstH s) s.nodes
    (fun x hk => by
      by_cases hx : x ∈ s.nodes
      · exact Or.inl hx
      · exact absurd hk (kind_outside s h x hx).2)

set_option linter.unusedVariables false in
/-- **Order independence**: the same objects with the node list stored in another order get the same labels.
(`hperm` is not even needed: `Fresh` of both heaps already makes both results the greatest solution of the same
equation system, which only depends on the objects.) -/
theorem order_independent (s1 s2 s1' s2' : H) (h1 : Fresh s1) (h2 : Fresh s2) (hsame : s1.n = s2.n)
    (hperm : ∀ x, x ∈ s1.nodes ↔ x ∈ s2.nodes)
    (r1 : calculate_viability_and_necessity s1 = .ok s1') (r2 : calculate_viability_and_necessity s2 = .ok s2') :
    labV s1' = labV s2' ∧ labN s1' = labN s2' := by
  have a1 := viability_is_gfp s1 s1' h1 r1
  have a2 := viability_is_gfp s2 s2' h2 r2
  have b1 := necessity_is_gfp s1 s1' h1 r1
  have b2 := necessity_is_gfp s2 s2' h2 r2
  have e1 : viabGH s1 = viabGH s2 := by simp only [viabGH, hsame]
  have e2 : necGH s1 = necGH s2 := by simp only [necGH, hsame]
  have e3 : viabConstH s1 = viabConstH s2 := by funext i; simp only [viabConstH, hsame]
  have e4 : necConstH s1 = necConstH s2 := by funext i; simp only [necConstH, hsame]
  rw [e1, e3] at a1; rw [e2, e4] at b1
  exact ⟨gfp_unique _ _ _ a1.1 a2.1 a1.2 a2.2, gfp_unique _ _ _ b1.1 b2.1 b1.2 b2.2⟩

/-! ### the clauses of the property, read off the fixed-point equation (in terms of the heap) -/

section clauses
variable (s s' : H) (h : Fresh s) (hr : calculate_viability_and_necessity s = .ok s')
include h hr

/-- defenses and existence steps are labelled from their own status -/
theorem status_nodes (r : NRef)
    (ht : (s.n r).type = "exist" ∨ (s.n r).type = "notExist" ∨ (s.n r).type = "defense") :
    (s'.n r).is_viable = viabConstH s r ∧ (s'.n r).is_necessary = necConstH s r := by
  have a := (viability_is_gfp s s' h hr).1 r
  have b := (necessity_is_gfp s s' h hr).1 r
  have k := kind_const s r ht
  constructor
  · rw [a]; simp [Sys, k.1]
  · rw [b]; simp [Sys, k.2]

/-- the label a defense / existence step gets: a defense is viable unless its status is `1.0` (enabled) and
necessary unless it is `0.0`; an `exist` step is viable iff the asset exists, and then it is not necessary;
`notExist` the other way round -/
theorem status_values (r : NRef) (hm : r ∈ s.nodes) :
    ((s.n r).type = "defense" →
      (s'.n r).is_viable = !(optEq1 (s.n r).defense_status) ∧
      (s'.n r).is_necessary = !(optEq0 (s.n r).defense_status)) ∧
    ((s.n r).type = "exist" → ∃ b, (s.n r).existence_status = some b ∧
      (s'.n r).is_viable = b ∧ (s'.n r).is_necessary = !b) ∧
    ((s.n r).type = "notExist" → ∃ b, (s.n r).existence_status = some b ∧
      (s'.n r).is_viable = !b ∧ (s'.n r).is_necessary = b) := by
  refine ⟨fun ht => ?_, fun ht => ?_, fun ht => ?_⟩
  · have := status_nodes s s' h hr r (Or.inr (Or.inr ht))
    simpa [viabConstH, necConstH, ht] using this
  · have := status_nodes s s' h hr r (Or.inl ht)
    have hs := (h.status r hm).1 (Or.inl ht)
    cases he : (s.n r).existence_status with
    | none => rw [he] at hs; exact absurd hs (by decide)
    | some b =>
      refine ⟨b, rfl, ?_⟩
      cases b <;> simpa [viabConstH, necConstH, ht, he, optBoolGet, truthyOptBool] using this
  · have := status_nodes s s' h hr r (Or.inr (Or.inl ht))
    have hs := (h.status r hm).1 (Or.inr ht)
    cases he : (s.n r).existence_status with
    | none => rw [he] at hs; exact absurd hs (by decide)
    | some b =>
      refine ⟨b, rfl, ?_⟩
      cases b <;> simpa [viabConstH, necConstH, ht, he, optBoolGet, truthyOptBool] using this

/-- steps without parents keep the default (viable, necessary) -/
theorem no_parents_default (r : NRef) (ht : (s.n r).type = "or" ∨ (s.n r).type = "and")
    (hp : (s.n r).parents = []) :
    (s'.n r).is_viable = true ∧ (s'.n r).is_necessary = true := by
  have a := (viability_is_gfp s s' h hr).1 r
  have b := (necessity_is_gfp s s' h hr).1 r
  constructor
  · rw [a]; rcases ht with ht | ht <;> simp [Sys, F, viabGH, viabKindS, ht, hp]
  · rw [b]; rcases ht with ht | ht <;> simp [Sys, F, necGH, necKindS, ht, hp]

/-- an 'or' step with parents: viable iff some parent is viable; necessary iff every parent is necessary or
has a TTC distribution -/
theorem or_step (r : NRef) (ht : (s.n r).type = "or") (hp : (s.n r).parents ≠ []) :
    ((s'.n r).is_viable = true ↔ ∃ p ∈ (s.n r).parents, (s'.n p).is_viable = true) ∧
    ((s'.n r).is_necessary = true ↔
      ∀ p ∈ (s.n r).parents, (s'.n p).is_necessary = true ∨ ttcGate (s.n p).ttc = true) := by
  have a := (viability_is_gfp s s' h hr).1 r
  have b := (necessity_is_gfp s s' h hr).1 r
  constructor
  · rw [a]; simp [Sys, F, viabGH, viabKindS, ht, hp, eff, labV]
  · rw [b]; simp [Sys, F, necGH, necKindS, ht, eff, labN, or_comm]

/-- an 'and' step with parents: viable iff all parents are viable; necessary iff some parent is necessary or
has a TTC distribution -/
theorem and_step (r : NRef) (ht : (s.n r).type = "and") (hp : (s.n r).parents ≠ []) :
    ((s'.n r).is_viable = true ↔ ∀ p ∈ (s.n r).parents, (s'.n p).is_viable = true) ∧
    ((s'.n r).is_necessary = true ↔
      ∃ p ∈ (s.n r).parents, (s'.n p).is_necessary = true ∨ ttcGate (s.n p).ttc = true) := by
  have a := (viability_is_gfp s s' h hr).1 r
  have b := (necessity_is_gfp s s' h hr).1 r
  constructor
  · rw [a]; simp [Sys, F, viabGH, viabKindS, ht, eff, labV]
  · rw [b]; simp [Sys, F, necGH, necKindS, ht, hp, eff, labN, or_comm]

end clauses

/-! ### non-vacuity: a concrete heap (enabled defense, `or` step with a self-loop, `and` step, `exist` step) -/

def demo : H where
  n := fun r => match r with
    | 0 => { type := "defense", children := [1, 2], defense_status := some { text := "1.0", cls := .one } }
    | 1 => { type := "or", children := [1], parents := [0, 1] }
    | 2 => { type := "and", parents := [0, 3] }
    | 3 => { type := "exist", children := [2], existence_status := some true }
    | _ => {}
  nodes := [0, 1, 2, 3]

theorem fresh_demo : Fresh demo where
  closed_c := by
    intro p c
    rcases p with _ | _ | _ | _ | p <;> simp [demo]
    all_goals grind
  conv := by
    intro c p
    rcases p with _ | _ | _ | _ | p <;> rcases c with _ | _ | _ | _ | c <;> simp [demo]
  viable := by intro r; rcases r with _ | _ | _ | _ | r <;> rfl
  necessary := by intro r; rcases r with _ | _ | _ | _ | r <;> rfl
  known := by
    intro r hr
    simp [demo] at hr
    rcases hr with h | h | h | h <;> subst h <;> simp [demo, KnownType]
  status := by
    intro r hr
    simp [demo] at hr
    rcases hr with h | h | h | h <;> subst h <;> simp [demo, StatusOK] <;> decide
  outside := by
    intro r hr
    rcases r with _ | _ | _ | _ | r <;> simp [demo] at hr ⊢

example : ∃ s', calculate_viability_and_necessity demo = .ok s' := calculate_ok demo fresh_demo

/-- the labels the generated function computes on `demo` (kernel evaluation of the generated code): the `or`
step 1 stays viable through its self-loop (greatest solution) although the defense 0 is enabled; the `and`
step 2 is not viable; the `exist` step 3 is viable and therefore not necessary -/
example : (match calculate_viability_and_necessity demo with
    | .ok s' => [0, 1, 2, 3].map (fun r => ((s'.n r).is_viable, (s'.n r).is_necessary))
    | .error _ => []) = [(false, true), (true, true), (false, true), (true, false)] := by
  decide

end MalVerif.PropsGen.C08
