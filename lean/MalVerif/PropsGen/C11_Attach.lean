import MalVerif.Py.TieAttach
import MalVerif.Props.C09
import MalVerif.Props.C11
/-!
# C11 (second sentence) for the *generated* `AttackGraph.attach_attackers`

"Attaching attackers creates one graph attacker per model attacker, whose entry points and initially reached
steps are exactly the existing nodes named by the model's entry points."

The function is `MalVerif/Py/Gen/Attach.lean: graph_attach_attackers` (regenerated from
`maltoolbox/attackgraph/attackgraph.py` on every run); `env.attackers` are the model's attacker attachments
(name, entry points = list of (asset, [attack step names])), a parameter of the translation.  The theorems are
stated over the heap `H`; `Consistent (absH s)` is the structural invariant of C09 (`Spec/Consistent.lean`) of the
graph the heap represents — it holds of every heap reached by the translated operations (`PropsGen/C09`).
-/
namespace MalVerif.PropsGen.C11_Attach
open MalVerif.Py MalVerif.Py.Gen MalVerif.Py.Tie MalVerif.AGS MalVerif.AGraph

/-- **one graph attacker per model attacker; entry points = initially reached steps = exactly the existing nodes
named by the model's entry points.**  After a successful `attach_attackers`: the graph's attacker list is the old
one followed by one new object per model attacker, in order (the references allocated by the constructor calls);
nodes and older attacker objects are untouched; the `i`-th new attacker carries the name of the `i`-th model
attacker and the next free id; its entry points are its reached steps, without duplicates, all nodes of the graph,
and a node is among them iff some entry point `(asset, steps)` of the model attacker and some `step ∈ steps` name
it (`asset.name ':' step` resolves to it in the graph before the call) — entry points that do not resolve are
skipped. -/
theorem attach_exact (s s' : H) (env : EvalEnv) (hc : Consistent (absH s))
    (hok : graph_attach_attackers s env = .ok s') :
    s'.attackers = s.attackers ++ List.range' s.afresh env.attackers.length ∧
    s'.nodes = s.nodes ∧
    (∀ b, b < s.afresh → s'.a b = s.a b) ∧
    ∀ i (hi : i < env.attackers.length),
      env.attackers[i].name = some (s'.a (s.afresh + i)).name ∧
      (s'.a (s.afresh + i)).id = some (s.next_attacker_id + i) ∧
      (s'.a (s.afresh + i)).entry_points = (s'.a (s.afresh + i)).reached_attack_steps ∧
      (s'.a (s.afresh + i)).reached_attack_steps.Nodup ∧
      (∀ n ∈ (s'.a (s.afresh + i)).reached_attack_steps, n ∈ s.nodes) ∧
      ∀ n, n ∈ (s'.a (s.afresh + i)).reached_attack_steps ↔
        ∃ ep ∈ env.attackers[i].entry_points, ∃ st ∈ ep.2,
          graph_get_node_by_full_name s (ep.1.name ++ ":" ++ st) = some n := by
  obtain ⟨hm, hn, f1, _, _, f3⟩ := attach_frame s s' env hok
  have ht := attach_tie s s' env hm hn hok
  have hc' : Consistent (absH s') := MalVerif.C09.attach_consistent _ _ _ hc ht
  obtain ⟨e1, e2, _, e4⟩ := MalVerif.C11.attach_exact (absH s) (absH s') (attsOf env) hc ht
  have hlen : (attsOf env).length = env.attackers.length := List.length_map _
  rw [hlen] at e1
  have e1' : s'.attackers = s.attackers ++ List.range' s.afresh env.attackers.length := e1
  have e2' : s'.nodes = s.nodes := e2
  refine ⟨e1', e2', f1, fun i hi => ?_⟩
  obtain ⟨i1, i2, i3, i4, i5⟩ := e4 i (hlen ▸ hi)
  have hget : (attsOf env)[i]'(hlen ▸ hi) = (optStrVal env.attackers[i].name, entryNames env.attackers[i]) := by
    unfold attsOf; rw [List.getElem_map]
  rw [hget] at i1 i5
  refine ⟨?_, ?_, i3, i4, ?_, ?_⟩
  · have hnm := hn _ (List.getElem_mem hi)
    have i1' : (s'.a (s.afresh + i)).name = optStrVal env.attackers[i].name := i1
    rw [i1']
    cases hv : env.attackers[i].name with
    | none => rw [hv] at hnm; cases hnm
    | some v => rfl
  · have hs := f3 i hi
    have i2' : ((s'.a (s.afresh + i)).id).getD 0 = s.next_attacker_id + i := i2
    cases hv : (s'.a (s.afresh + i)).id with
    | none => rw [hv] at hs; cases hs
    | some v => rw [hv] at i2'; exact congrArg some i2'
  · intro n hnr
    have hmem : s.afresh + i ∈ s'.attackers := by
      rw [e1', List.mem_append, List.mem_range'_1]
      exact Or.inr ⟨Nat.le_add_right _ _, Nat.add_lt_add_left hi _⟩
    have := (MalVerif.C11.refs_closed (absH s') hc').1 (s.afresh + i) hmem n hnr
    exact e2' ▸ this
  · intro n
    refine (i5 n).trans ?_
    constructor
    · rintro ⟨fn, hfn, hl⟩
      obtain ⟨ep, hep, hfn⟩ := List.mem_flatMap.1 hfn
      obtain ⟨st, hst, rfl⟩ := List.mem_map.1 hfn
      exact ⟨ep, hep, st, hst, (get_node_by_full_name_tie s _ _ _).trans hl⟩
    · rintro ⟨ep, hep, st, hst, hl⟩
      exact ⟨_, List.mem_flatMap.2 ⟨ep, hep, List.mem_map.2 ⟨st, hst, rfl⟩⟩,
        (get_node_by_full_name_tie s _ _ _).symm.trans hl⟩

/-- one graph attacker per model attacker -/
theorem attach_count (s s' : H) (env : EvalEnv) (hc : Consistent (absH s))
    (hok : graph_attach_attackers s env = .ok s') :
    s'.attackers.length = s.attackers.length + env.attackers.length := by
  rw [(attach_exact s s' env hc hok).1, List.length_append, List.length_range']

/-- `attach_attackers` keeps the structural invariant of the graph … -/
theorem attach_consistent (s s' : H) (env : EvalEnv) (hc : Consistent (absH s))
    (hok : graph_attach_attackers s env = .ok s') : Consistent (absH s') := by
  obtain ⟨hm, hn, _⟩ := attach_frame s s' env hok
  exact MalVerif.C09.attach_consistent _ _ _ hc (attach_tie s s' env hm hn hok)

/-- … hence afterwards attackers and nodes mirror each other (the first sentence of C11): a node is among the
reached steps of an attacker iff the attacker is among the node's `compromised_by`, both without duplicates -/
theorem attach_mirror (s s' : H) (env : EvalEnv) (hc : Consistent (absH s))
    (hok : graph_attach_attackers s env = .ok s') :
    ∀ a ∈ s'.attackers, ∀ n ∈ s'.nodes,
      (n ∈ (s'.a a).reached_attack_steps ↔ a ∈ (s'.n n).compromised_by) ∧
      (s'.a a).reached_attack_steps.Nodup ∧ (s'.n n).compromised_by.Nodup :=
  MalVerif.C11.mirror_of_consistent (absH s') (attach_consistent s s' env hc hok)

/-- **totality**: on a consistent graph, with a model whose attackers all have a non-empty name,
`attach_attackers` returns normally -/
theorem attach_terminates_normally (s : H) (env : EvalEnv) (hm : env.has_model = true) (hn : NamesOK env)
    (hc : Consistent (absH s)) : ∃ s', graph_attach_attackers s env = .ok s' :=
  attach_ok s env hm hn hc

/-- without a model `attach_attackers` raises `AttackGraphException` -/
theorem attach_without_model_raises (s : H) (env : EvalEnv) (hm : env.has_model = false) :
    graph_attach_attackers s env = .error .attackGraphException :=
  attach_guard_model s env hm

/-- a model attacker without name (`None` or `''`) makes `attach_attackers` raise `AttackGraphException`
(stated for the first attacker: the attackers in front of an unnamed one have been attached by then — the
Python leaves the graph half-way, `Except` returns no heap) -/
theorem attach_unnamed_raises (s : H) (env : EvalEnv) (ai : PyAttackerInfo) (rest : List PyAttackerInfo)
    (hm : env.has_model = true) (hl : env.attackers = ai :: rest) (hn : truthyOptStr ai.name = false) :
    graph_attach_attackers s env = .error .attackGraphException :=
  attach_guard_name s env ai rest hm hl hn

/-- with a model and named attackers the only exception is the `ValueError` of `add_attacker` (attacker id in
use), raised exactly when the hand model rejects -/
theorem attach_raises_iff (s : H) (env : EvalEnv) (hm : env.has_model = true) (hn : NamesOK env) (e : PyErr) :
    graph_attach_attackers s env = .error e ↔
      e = .valueError ∧ attach (absH s) (attsOf env) = .error .valueError :=
  attach_error_iff s env hm hn e

/-! ### the hypotheses are satisfiable: a graph with two nodes, a model with two attackers (one entry point that
resolves, one that does not) -/

def demoAsset : PyAssetObj := { id := 1, type := "Host", name := "h1" }

def demoS : H :=
  { n := fun r => if r = 0 then { type := "or", name := "access", id := some 0, asset := some demoAsset }
      else if r = 1 then { type := "and", name := "root", id := some 1, asset := some demoAsset } else {}
    nodes := [0, 1], _id_to_node := [(0, 0), (1, 1)], _full_name_to_node := [("h1:access", 0), ("h1:root", 1)]
    next_node_id := 2, nfresh := 2 }

def demoEnv : EvalEnv :=
  { get_associated_assets_by_field_name := fun _ _ => [], _get_variable_for_asset_type_by_name := fun _ _ => .error .other
    get_asset_by_name := fun _ => none, is_subasset_of := fun _ _ => false, whileFuel := 0, evalFuel := 0
    attackers := [{ name := some "eve", entry_points := [(demoAsset, ["access", "nosuchstep"])] },
                  { name := some "mallory", entry_points := [(demoAsset, ["root", "access"])] }] }

/-- the demo heap is what two `add_node` operations of the hand model build -/
def demoOps : List Op :=
  [.addNode { name := "access", asset := some "h1", type := .or } none,
   .addNode { name := "root", asset := some "h1", type := .and } none]

theorem demo_abs : absH demoS = demoOps.foldl applyOp {} := by
  apply St_ext
  · funext x
    by_cases h0 : x = 0
    · subst h0; rfl
    · by_cases h1 : x = 1
      · subst h1; rfl
      · show absN (if x = 0 then _ else if x = 1 then _ else {}) = _
        rw [if_neg h0, if_neg h1]
        show _ = (if x = 1 then _ else (if x = 0 then _ else _))
        rw [if_neg h1, if_neg h0]
        rfl
  all_goals rfl

theorem demo_consistent : Consistent (absH demoS) := by
  rw [demo_abs]; exact MalVerif.C09.reachable_consistent demoOps

/-- on the demo heap `attach_attackers` returns; the two new attackers get the references 0 and 1 -/
example : ∃ s', graph_attach_attackers demoS demoEnv = .ok s' ∧
    s'.attackers = [0, 1] ∧ (s'.a 0).reached_attack_steps = [0] ∧ (s'.a 1).entry_points = [1, 0] := by
  obtain ⟨s', hs'⟩ := attach_terminates_normally demoS demoEnv rfl
    (by intro ai hai; simp [demoEnv] at hai; rcases hai with rfl | rfl <;> rfl) demo_consistent
  refine ⟨s', hs', ?_⟩
  have : graph_attach_attackers demoS demoEnv = .ok (TA.atStepH (TA.atStepH demoS demoEnv.attackers[0]) demoEnv.attackers[1]) := by
    rw [TA.attach_attackers_eq]
    show TG.loopE TA.atStep [_, _] demoS = _
    rw [TG.loopE_cons, TA.atStep_eq _ _ rfl, if_neg (by decide), TG.ok_bind, TG.loopE_cons, TA.atStep_eq _ _ rfl,
      if_neg (by decide), TG.ok_bind]
    rfl
  rw [this] at hs'
  cases hs'
  refine ⟨?_, ?_, ?_⟩ <;> decide

end MalVerif.PropsGen.C11_Attach
