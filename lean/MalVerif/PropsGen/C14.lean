import MalVerif.Py.TieCopy
import MalVerif.Props.C14
import MalVerif.PropsGen.C09
/-!
# C14 for the *translated* code — a deep copy is equal and fully independent

`graph___deepcopy__`, `node___deepcopy__`, `attacker___deepcopy__` are the Lean translations
(`translators/py2lean_agserial.py`, regenerated from `/repo` on every run) of the three `__deepcopy__` methods.
The state they thread is `(s, aux, memo)`: heap, allocation counters, `memo` of `copy.deepcopy`.  `copy.deepcopy(graph)`
is `graph___deepcopy__ (s, aux, {})`; it returns the attributes `g` of the new `AttackGraph` object and the new
state.  `s'.withGraph g` is the heap whose graph object is the copy, `s'` itself still holds the original graph.

What the heap can express (see `NOTES_agserial.md`): nodes and attackers are references, so "shares no node, no
attacker" and "all references stay inside the copy" are statements about references; lists of strings, `ttc`, `tags`,
`extras` are *values* in the heap, so that the copy has "no mutable per-node data in common" with the original is
visible only as: every object of the copy is a fresh reference, and no later write to an object of one graph changes an
object of the other (`independent_*`).  The model and the language graph are not part of `H` (`asset` is shared as a
value: `copy_equal_partial` includes it).

Hypotheses: `Consistent` (C09; it includes that every object of the graph lies below the allocation counters, so the
references the copy takes are unused) and `DictKeysNodup`: the three lookup dictionaries have no duplicate keys.  The
latter is true of every Python `dict`, but the association lists of the heap `H` do not enforce it and `Consistent`
only speaks about the entry a lookup finds: with a shadowed entry whose value is not a node of the graph the translated
`copy.deepcopy(self._id_to_node, memo)` allocates one more object than the hand model (`needs_dict_keys_distinct`).
Hence the suffix `_partial` on every theorem that uses it.
-/
namespace MalVerif.PropsGen.C14
open MalVerif.Py MalVerif.Py.Gen MalVerif.Py.Tie MalVerif.AGS MalVerif.AGraph

/-- `copy.deepcopy(graph)` with an empty memo returned the graph object `g` and the state `(s', aux', memo')` -/
abbrev CopyRun (s : H) (aux : Aux) (g : PyGraph) (s' : H) (aux' : Aux) (memo' : Memo) : Prop :=
  graph___deepcopy__ (s, aux, ({} : Memo)) = .ok (g, (s', aux', memo'))

/-- the abstract state of the original graph -/
abbrev origSt (s : H) (aux : Aux) : St := absS s aux.nfresh aux.afresh
/-- the abstract state of the copy, in the stores after copying -/
abbrev copySt (g : PyGraph) (s' : H) (aux' : Aux) : St := absS (s'.withGraph g) aux'.nfresh aux'.afresh

/-- the extra hypothesis is needed: a consistent heap with a shadowed entry in `_id_to_node` (not a Python dict), for
which no run of the translated copy allocates exactly one object per node -/
theorem needs_dict_keys_distinct : ¬ ∀ (s : H) (aux : Aux), Consistent (absS s aux.nfresh aux.afresh) →
    ∃ g s' aux' memo', graph___deepcopy__ (s, aux, ({} : Memo)) = .ok (g, (s', aux', memo')) ∧
      aux'.nfresh = aux.nfresh + s.nodes.length := graph_deepcopy_tie_false

/-- on a consistent graph `copy.deepcopy` returns -/
theorem deep_copy_returns_partial (s : H) (aux : Aux) (hc : Consistent (origSt s aux)) (hk : DictKeysNodup s) :
    ∃ g s' aux' memo', CopyRun s aux g s' aux' memo' := by
  obtain ⟨g, s', aux', memo', h, _⟩ := graph_deepcopy_tie_partial s aux hc hk
  exact ⟨g, s', aux', memo', h⟩

/-- **tie**: the copy made by the translated code is the hand model's `deepcopy`; the original, read in the new
stores, is the model's `viewIn`; no old object is written and the original's graph attributes are untouched -/
theorem copy_is_model_deepcopy_partial (s : H) (aux : Aux) (hc : Consistent (origSt s aux)) (hk : DictKeysNodup s) {g s' aux' memo'}
    (h : CopyRun s aux g s' aux' memo') :
    copySt g s' aux' = deepcopy (origSt s aux) ∧
    absS s' aux'.nfresh aux'.afresh = viewIn (origSt s aux) (deepcopy (origSt s aux)) ∧
    (∀ r, r < aux.nfresh → s'.n r = s.n r) ∧ (∀ a, a < aux.afresh → s'.a a = s.a a) ∧ SameGraphAttrs s' s ∧
    aux'.nfresh = aux.nfresh + s.nodes.length ∧ aux'.afresh = aux.afresh + s.attackers.length := by
  obtain ⟨g0, s0, aux0, memo0, h0, t1, t2, t3, t4, t5, t6, _⟩ := graph_deepcopy_tie_partial s aux hc hk
  have e : (g, (s', aux', memo')) = (g0, (s0, aux0, memo0)) := by
    have := h.symm.trans h0; injection this
  injection e with eg e; injection e with es e; injection e with ea em
  subst eg es ea em
  refine ⟨t1, ?_, t2, t3, t4, t5, t6⟩
  obtain ⟨a1, a2, a3, a4, a5, a6, a7⟩ := t4
  have hn : (absS s' aux'.nfresh aux'.afresh).nobj = (deepcopy (origSt s aux)).nobj := by
    have := congrArg St.nobj t1; exact this
  have ha : (absS s' aux'.nfresh aux'.afresh).aobj = (deepcopy (origSt s aux)).aobj := by
    have := congrArg St.aobj t1; exact this
  have hnf : aux'.nfresh = (deepcopy (origSt s aux)).nfresh := congrArg St.nfresh t1
  have haf : aux'.afresh = (deepcopy (origSt s aux)).afresh := congrArg St.afresh t1
  exact St_ext _ _ hn hnf ha haf a1 a2 a3 a4 a5 a6 a7

/-! ### equal -/

/-- the copy has the same nodes (all attributes, edges by id, compromising attackers by id), attackers, the three
lookup dictionaries and the two counters as the original -/
theorem copy_equal_partial (s : H) (aux : Aux) (hc : Consistent (origSt s aux)) (hk : DictKeysNodup s) {g s' aux' memo'}
    (h : CopyRun s aux g s' aux' memo') : obsG (copySt g s' aux') = obsG (origSt s aux) := by
  rw [(copy_is_model_deepcopy_partial s aux hc hk h).1]; exact MalVerif.C14.copy_equal _ hc

/-- the copy has the same serialized content -/
theorem copy_serialized_partial (s : H) (aux : Aux) (hc : Consistent (origSt s aux)) (hk : DictKeysNodup s) {g s' aux' memo'}
    (h : CopyRun s aux g s' aux' memo') : toDoc (copySt g s' aux') = toDoc (origSt s aux) := by
  rw [(copy_is_model_deepcopy_partial s aux hc hk h).1]; exact MalVerif.C14.copy_serialized _ hc

/-- the counters are copied -/
theorem copy_counters_partial (s : H) (aux : Aux) (hc : Consistent (origSt s aux)) (hk : DictKeysNodup s) {g s' aux' memo'}
    (h : CopyRun s aux g s' aux' memo') : g.next_node_id = s.next_node_id ∧ g.next_attacker_id = s.next_attacker_id := by
  have e := (copy_is_model_deepcopy_partial s aux hc hk h).1
  exact ⟨congrArg St.nextNode e, congrArg St.nextAtt e⟩

/-- the lookups of the copy find the copies of what the lookups of the original find -/
theorem copy_lookup_partial (s : H) (aux : Aux) (hc : Consistent (origSt s aux)) (hk : DictKeysNodup s) {g s' aux' memo'}
    (h : CopyRun s aux g s' aux' memo') :
    let c := copySt g s' aux'
    let o := origSt s aux
    (∀ k, (getNodeById c k).map (nodeObs c) = (getNodeById o k).map (nodeObs o)) ∧
    (∀ k, (getNodeByName c k).map (nodeObs c) = (getNodeByName o k).map (nodeObs o)) ∧
    (∀ k, (getAttackerById c k).map (attObs c) = (getAttackerById o k).map (attObs o)) := by
  intro c o
  have e : c = deepcopy o := (copy_is_model_deepcopy_partial s aux hc hk h).1
  rw [e]; exact MalVerif.C14.copy_lookup o hc

/-! ### no shared object, all references inside the copy -/

/-- the copy shares no node and no attacker with the original: all its objects are freshly allocated
references (`≥` the allocation counters before copying), all objects of the original are older -/
theorem copy_shares_no_object_partial (s : H) (aux : Aux) (hc : Consistent (origSt s aux)) (hk : DictKeysNodup s) {g s' aux' memo'}
    (h : CopyRun s aux g s' aux' memo') :
    (∀ r ∈ g.nodes, aux.nfresh ≤ r ∧ r ∉ s.nodes) ∧ (∀ a ∈ g.attackers, aux.afresh ≤ a ∧ a ∉ s.attackers) ∧
    g.nodes.length = s.nodes.length ∧ g.attackers.length = s.attackers.length ∧ g.nodes.Nodup ∧ g.attackers.Nodup := by
  have e := (copy_is_model_deepcopy_partial s aux hc hk h).1
  obtain ⟨f1, f2, f3, f4⟩ := MalVerif.C14.copy_fresh (origSt s aux) hc
  obtain ⟨z1, z2, z3, z4⟩ := MalVerif.C14.copy_size (origSt s aux) hc
  rw [← e] at f1 f2 z1 z2 z3 z4
  exact ⟨fun r hr => ⟨f1 r hr, fun hm => Nat.lt_irrefl _ (Nat.lt_of_lt_of_le (f3 r hm) (f1 r hr))⟩,
    fun a ha => ⟨f2 a ha, fun hm => Nat.lt_irrefl _ (Nat.lt_of_lt_of_le (f4 a hm) (f2 a ha))⟩, z1, z2, z3, z4⟩

/-- all internal references of the copy — child / parent lists, compromised-by, entry points, reached steps and the
values of the three lookup dictionaries — are objects of the copy, hence none is an object of the original -/
theorem copy_closed_partial (s : H) (aux : Aux) (hc : Consistent (origSt s aux)) (hk : DictKeysNodup s) {g s' aux' memo'}
    (h : CopyRun s aux g s' aux' memo') :
    (∀ n ∈ g.nodes, (∀ x ∈ (s'.n n).children, x ∈ g.nodes ∧ x ∉ s.nodes) ∧ (∀ x ∈ (s'.n n).parents, x ∈ g.nodes ∧ x ∉ s.nodes) ∧
        (∀ a ∈ (s'.n n).compromised_by, a ∈ g.attackers ∧ a ∉ s.attackers)) ∧
    (∀ a ∈ g.attackers, (∀ x ∈ (s'.a a).entry_points, x ∈ g.nodes ∧ x ∉ s.nodes) ∧
        (∀ x ∈ (s'.a a).reached_attack_steps, x ∈ g.nodes ∧ x ∉ s.nodes)) ∧
    (∀ k r, graph_get_node_by_id (s'.withGraph g) k = some r → r ∈ g.nodes) ∧
    (∀ k r, graph_get_node_by_full_name (s'.withGraph g) k = some r → r ∈ g.nodes) ∧
    (∀ k a, graph_get_attacker_by_id (s'.withGraph g) k = some a → a ∈ g.attackers) ∧
    Consistent (copySt g s' aux') := by
  have e := (copy_is_model_deepcopy_partial s aux hc hk h).1
  have hcc : Consistent (copySt g s' aux') := by rw [e]; exact MalVerif.C14.copy_consistent _ hc
  obtain ⟨d1, d2, _⟩ := copy_shares_no_object_partial s aux hc hk h
  refine ⟨fun n hn => ⟨fun x hx => ?_, fun x hx => ?_, fun a ha => ?_⟩, fun a ha => ⟨fun x hx => ?_, fun x hx => ?_⟩,
    fun k r hk => ?_, fun k r hk => ?_, fun k a hk => ?_, hcc⟩
  · have := hcc.nodes.children_mem n hn x hx; exact ⟨this, (d1 x this).2⟩
  · have := hcc.nodes.parents_mem n hn x hx; exact ⟨this, (d1 x this).2⟩
  · have := hcc.comp.compBy_mem n hn a ha; exact ⟨this, (d2 a this).2⟩
  · have := hcc.comp.entry_mem a ha x hx; exact ⟨this, (d1 x this).2⟩
  · have := hcc.comp.reached_mem a ha x hx; exact ⟨this, (d1 x this).2⟩
  · rw [get_node_by_id_tie _ k aux'.nfresh aux'.afresh] at hk; exact ((hcc.idx.id_exact k r).1 hk).1
  · rw [get_node_by_full_name_tie _ k aux'.nfresh aux'.afresh] at hk; exact (hcc.idx.name_sound k r hk).1
  · rw [get_attacker_by_id_tie _ k aux'.nfresh aux'.afresh] at hk; exact ((hcc.attIdx.id_exact k a).1 hk).1

/-! ### the original is not written -/

/-- copying writes no object that existed before (heap level: every old reference holds the same record, so in
particular child / parent lists, tags, extras, TTC and compromised-by of every node of the original), and none of
the attributes of the original `AttackGraph` object -/
theorem original_untouched_partial (s : H) (aux : Aux) (hc : Consistent (origSt s aux)) (hk : DictKeysNodup s) {g s' aux' memo'}
    (h : CopyRun s aux g s' aux' memo') :
    (∀ r ∈ s.nodes, s'.n r = s.n r) ∧ (∀ a ∈ s.attackers, s'.a a = s.a a) ∧ SameGraphAttrs s' s ∧
    obsG (absS s' aux'.nfresh aux'.afresh) = obsG (origSt s aux) ∧ Consistent (absS s' aux'.nfresh aux'.afresh) := by
  obtain ⟨_, e2, t2, t3, t4, _⟩ := copy_is_model_deepcopy_partial s aux hc hk h
  obtain ⟨o1, o2, _⟩ := MalVerif.C14.original_untouched (origSt s aux) hc
  rw [e2]
  exact ⟨fun r hr => t2 r (hc.nodes.fresh r hr), fun a ha => t3 a (hc.attIdx.fresh a ha), t4, o1, o2⟩

/-! ### independence: later changes to one graph are invisible in the other

The mutators of the graph are the operations of the state machine `AGS.applyOp`; the translated mutators are tied to
them in `PropsGen/C09, C11, C13`.  The statements below are about histories of these operations applied to the
(abstract state of the) copy made by the translated code, resp. to the original in the stores after copying. -/

/-- changes to the copy are invisible in the original (side condition `opsLocal`: see `Props/C14.lean`) -/
theorem independent_partial (s : H) (aux : Aux) (hc : Consistent (origSt s aux)) (hk : DictKeysNodup s) {g s' aux' memo'}
    (h : CopyRun s aux g s' aux' memo') (ops : List Op) (hl : opsLocal (copySt g s' aux') ops) :
    obsG (viewIn (origSt s aux) (ops.foldl applyOp (copySt g s' aux'))) = obsG (origSt s aux) ∧
    Consistent (viewIn (origSt s aux) (ops.foldl applyOp (copySt g s' aux'))) := by
  have e := (copy_is_model_deepcopy_partial s aux hc hk h).1
  rw [e] at hl ⊢
  exact MalVerif.C14.independent_partial _ hc ops hl

/-- changes to the original after copying are invisible in the copy -/
theorem independent_sym_partial (s : H) (aux : Aux) (hc : Consistent (origSt s aux)) (hk : DictKeysNodup s) {g s' aux' memo'}
    (h : CopyRun s aux g s' aux' memo') (ops : List Op) (hl : opsLocal (absS s' aux'.nfresh aux'.afresh) ops) :
    obsG (viewIn (copySt g s' aux') (ops.foldl applyOp (absS s' aux'.nfresh aux'.afresh))) = obsG (origSt s aux) ∧
    Consistent (viewIn (copySt g s' aux') (ops.foldl applyOp (absS s' aux'.nfresh aux'.afresh))) := by
  obtain ⟨e1, e2, _⟩ := copy_is_model_deepcopy_partial s aux hc hk h
  rw [e2] at hl ⊢; rw [e1]
  exact MalVerif.C14.independent_sym_partial _ hc ops hl

/-- the side condition is needed (`Props/C14.lean`: `setLabels_foreign_handle`): writing a label "on the copy"
through a reference of the original changes the original -/
theorem independent_needs_local :
    obsG (viewIn AGS.Demo.c14G (applyOp (deepcopy AGS.Demo.c14G) (.setLabels [(0, false, false)]))) ≠ obsG AGS.Demo.c14G := by
  decide

/-! ### the hypotheses are satisfiable, and the copy of a concrete graph -/
namespace Demo
def h1 : H := TG.anSt {} 0 0
def h2 : H := TG.anSt h1 1 1
/-- what the examples state about a heap -/
def obs (s : H) : List Nat × List Nat × List Nat × List Nat × List Nat :=
  (s.nodes, s.attackers, (s.a 0).entry_points, (s.a 0).reached_attack_steps, (s.n 1).compromised_by)
def keys (s : H) : List Int × List String × List Int :=
  (s._id_to_node.map (·.1), s._full_name_to_node.map (·.1), s._id_to_attacker.map (·.1))
end Demo
open Demo

/-- a graph built with the translated `add_node` / `add_attacker` (two nodes, an attacker who entered at node 0 and
reached node 1) meets the hypotheses of the theorems above -/
example : ∃ s, graph_add_attacker h2 0 none [0] [1] = .ok s ∧ Consistent (origSt s { nfresh := 2, afresh := 1 }) ∧
    DictKeysNodup s ∧ s.nodes = [0, 1] ∧ s.attackers = [0] ∧ (s.a 0).entry_points = [0] ∧
    (s.a 0).reached_attack_steps = [1] ∧ (s.n 1).compromised_by = [0] := by
  have e1 : graph_add_node {} 0 none = .ok h1 := rfl
  have e2 : graph_add_node h1 1 none = .ok h2 := rfl
  have c1 := MalVerif.PropsGen.C09.add_node_consistent _ _ 0 none 0 MalVerif.PropsGen.C09.init_consistent ⟨rfl, rfl, rfl⟩ e1
  have c2 := MalVerif.PropsGen.C09.add_node_consistent _ _ 1 none 0 c1 ⟨rfl, rfl, rfl⟩ e2
  cases e3 : graph_add_attacker h2 0 none [0] [1] with
  | error err =>
    have hok : (graph_add_attacker h2 0 none [0] [1]).toBool = true := by decide +kernel
    rw [e3] at hok; cases hok
  | ok s =>
    have c3 := MalVerif.PropsGen.C09.add_attacker_consistent h2 s 0 none [0] [1] 2 c2 ⟨rfl, rfl⟩ e3
    have f1 : (graph_add_attacker h2 0 none [0] [1]).toOption.map obs = some ([0, 1], [0], [0], [1], [0]) := by
      decide +kernel
    have f2 : (graph_add_attacker h2 0 none [0] [1]).toOption.map keys = some ([0, 1], ["0:", "1:"], [0]) := by
      decide +kernel
    rw [e3] at f1 f2
    injection f1 with f1; injection f2 with f2
    simp only [obs, keys, Prod.mk.injEq] at f1 f2
    obtain ⟨g1, g2, g3, g4, g5⟩ := f1
    obtain ⟨k1, k2, k3⟩ := f2
    refine ⟨s, rfl, c3, ⟨?_, ?_, ?_⟩, g1, g2, g3, g4, g5⟩
    · rw [k1]; decide
    · rw [k2]; decide
    · rw [k3]; decide

/-- the translated `copy.deepcopy` on that graph: new objects 2, 3 and attacker 1, all references redirected … -/
example : ((graph_add_attacker h2 0 none [0] [1]).toOption.bind (fun s =>
      (graph___deepcopy__ (s, { nfresh := 2, afresh := 1 }, {})).toOption)).map
      (fun r => (r.1.nodes, r.1.attackers, (r.2.1.a 1).entry_points, (r.2.1.a 1).reached_attack_steps,
        (r.2.1.n 3).compromised_by)) = some ([2, 3], [1], [2], [3], [1]) := by decide +kernel

/-- … the lookups point into the copy, the counters are copied, and the original is as before -/
example : ((graph_add_attacker h2 0 none [0] [1]).toOption.bind (fun s =>
      (graph___deepcopy__ (s, { nfresh := 2, afresh := 1 }, {})).toOption)).map
      (fun r => (r.1._id_to_node, r.1._id_to_attacker, r.1.next_node_id)) =
    some ([(0, 2), (1, 3)], [(0, 1)], 2) := by decide +kernel
example : ((graph_add_attacker h2 0 none [0] [1]).toOption.bind (fun s =>
      (graph___deepcopy__ (s, { nfresh := 2, afresh := 1 }, {})).toOption)).map
      (fun r => ((r.2.1.n 1).compromised_by, r.2.1.nodes, (r.2.1.a 0).reached_attack_steps)) =
    some ([0], [0, 1], [1]) := by decide +kernel


end MalVerif.PropsGen.C14
