import MalVerif.Py.TieGraph
import MalVerif.Props.C09
/-!
# C09 for the *translated* Python — the attack graph stays structurally consistent

The theorems of `MalVerif/Props/C09.lean` are about the hand-written state machine `MalVerif.AGS`.  Here they
are restated for the functions of `MalVerif/Py/Gen/{Graph,Attacker}.lean`, which `translators/py2lean.py`
generates from `maltoolbox/attackgraph/{attackgraph,attacker}.py`, and proved through the tie theorems of
`MalVerif/Py/TieGraph.lean` / `TieNode.lean`.  The invariant on a heap `s` is `Consistent (absS s nf af)`
(`nf` / `af`: allocation counters, which bound the references in use).
-/
namespace MalVerif.PropsGen.C09
open MalVerif.Py MalVerif.Py.Gen MalVerif.Py.Tie MalVerif.AGS MalVerif.AGraph

/-- the structural invariant, stated on the heap -/
abbrev Inv (s : H) (nf af : Nat) : Prop := Consistent (absS s nf af)

/-- the empty graph is consistent -/
theorem init_consistent : Inv {} 0 0 :=
  Consistent.of_frame (s := {}) ⟨rfl, rfl, rfl, rfl, rfl, rfl, rfl, rfl, rfl⟩ (fun _ => rfl) (fun _ => rfl)
    (fun _ => rfl) (fun _ => rfl) (fun _ => rfl) rfl init_consistent'

theorem init_namesExact : NamesExact (absS {} 0 0) := by
  intro k r
  show dget [] k = some r ↔ (r ∈ ([] : List Nat) ∧ _)
  simp [dget_nil]

/-! ### `add_node` -/

/-- `add_node` of a node object without edges / attackers (what the constructor gives), allocated at the next
free reference -/
theorem add_node_consistent (s s' : H) (node : NRef) (nid : Option Int) (af : Nat)
    (hc : Consistent (absS s node af))
    (hdet : (s.n node).children = [] ∧ (s.n node).parents = [] ∧ (s.n node).compromised_by = [])
    (h : graph_add_node s node nid = .ok s') : Consistent (absS s' (node + 1) af) :=
  MalVerif.C09.addNode_consistent_partial (o := absN (s.n node)) hc hdet.1 hdet.2.1 hdet.2.2
    (add_node_tie s s' node nid af h)

/-- an id in use is rejected with `ValueError` -/
theorem add_node_rejects_duplicate_id (s : H) (node : NRef) (k : Int) (r : NRef)
    (h : graph_get_node_by_id s k = some r) : graph_add_node s node (some k) = .error .valueError := by
  have hm : addNode (absS s node 0) (absN (s.n node)) (some k) = .error .valueError :=
    MalVerif.C09.addNode_rejects_duplicate_id _ _ k r (by rw [← get_node_by_id_tie]; exact h)
  cases hres : graph_add_node s node (some k) with
  | ok s' => rw [add_node_tie s s' node (some k) 0 hres] at hm; cases hm
  | error e => rw [(add_node_error s node (some k) 0 e hres).1]

/-- `add_node` raises nothing but that `ValueError` -/
theorem add_node_raises_only_valueError (s : H) (node : NRef) (nid : Option Int) (e : PyErr)
    (h : graph_add_node s node nid = .error e) : e = .valueError :=
  (add_node_error s node nid 0 e h).1

/-- with a generated id `add_node` never fails in a consistent graph -/
theorem add_node_auto_id_ok (s : H) (node : NRef) (af : Nat) (hc : Consistent (absS s node af)) :
    ∃ s', graph_add_node s node none = .ok s' := by
  cases hres : graph_add_node s node none with
  | ok s' => exact ⟨s', rfl⟩
  | error e =>
    obtain ⟨s', hs'⟩ := MalVerif.C09.addNode_auto_id_ok (absS s node af) (absN (s.n node)) hc
    rw [(add_node_error s node none af e hres).2] at hs'
    cases hs'

/-- the name index stays exact if the new full name is unused -/
theorem add_node_namesExact (s s' : H) (node : NRef) (nid : Option Int) (af : Nat)
    (hc : Consistent (absS s node af)) (hx : NamesExact (absS s node af))
    (hfresh : graph_get_node_by_full_name s
      (fullName { absN (s.n node) with id := nid.getD s.next_node_id }) = none)
    (h : graph_add_node s node nid = .ok s') : NamesExact (absS s' (node + 1) af) :=
  MalVerif.C09.addNode_namesExact (o := absN (s.n node)) hc hx
    (by rw [← get_node_by_full_name_tie]; exact hfresh) (add_node_tie s s' node nid af h)

/-! ### `remove_node` -/

theorem remove_node_consistent (s s' : H) (r : NRef) (nf af : Nat) (hc : Consistent (absS s nf af))
    (hr : r ∈ s.nodes) (h : graph_remove_node s r = .ok s') : Consistent (absS s' nf af) := by
  rw [remove_node_tie s s' r nf af h]
  exact MalVerif.C09.removeNode_consistent _ r hc hr

theorem remove_node_namesExact (s s' : H) (r : NRef) (nf af : Nat) (hc : Consistent (absS s nf af))
    (hx : NamesExact (absS s nf af)) (hr : r ∈ s.nodes) (h : graph_remove_node s r = .ok s') :
    NamesExact (absS s' nf af) := by
  rw [remove_node_tie s s' r nf af h]
  exact removeNode_namesExact _ r hc hx hr

/-- in a consistent graph with an exact name index `remove_node` of a node of the graph (whose `id` is set)
returns normally -/
theorem remove_node_terminates_normally (s : H) (r : NRef) (nf af : Nat) (hc : Consistent (absS s nf af))
    (hx : NamesExact (absS s nf af)) (hr : r ∈ s.nodes) (hid : (s.n r).id.isSome) :
    ∃ s', graph_remove_node s r = .ok s' := remove_node_ok s r nf af hc hx hr hid

/-- a removed node leaves no trace: it is in no node list, child / parent list, attacker list or index -/
theorem remove_node_leaves_no_trace (s s' : H) (r : NRef) (nf af : Nat) (hc : Consistent (absS s nf af))
    (hr : r ∈ s.nodes) (h : graph_remove_node s r = .ok s') :
    r ∉ s'.nodes ∧
    (∀ p ∈ s'.nodes, r ∉ (s'.n p).children ∧ r ∉ (s'.n p).parents) ∧
    (∀ a ∈ s'.attackers, r ∉ (s'.a a).reached_attack_steps ∧ r ∉ (s'.a a).entry_points) ∧
    (∀ k, graph_get_node_by_id s' k ≠ some r) ∧
    (∀ k, graph_get_node_by_full_name s' k ≠ some r) ∧
    graph_get_node_by_id s' (optIntGet (s.n r).id) = none ∧
    graph_get_node_by_full_name s' (fullName (absN (s.n r))) = none := by
  have t := remove_node_tie s s' r nf af h
  have hc' : Consistent (absS s' nf af) := remove_node_consistent s s' r nf af hc hr h
  obtain ⟨h1, h2, h3, h4, h5⟩ := MalVerif.C09.removeNode_leaves_no_trace (absS s nf af) r hc hr
  rw [← t] at h1 h2 h3 h4 h5
  refine ⟨h1, h2, h3, ?_, ?_, ?_, ?_⟩
  · intro k hk
    rw [get_node_by_id_tie s' k nf af] at hk
    exact h1 ((hc'.idx.id_exact k r).1 hk).1
  · intro k hk
    rw [get_node_by_full_name_tie s' k nf af] at hk
    exact h1 (hc'.idx.name_sound k r hk).1
  · rw [get_node_by_id_tie s' _ nf af]; exact h4
  · rw [get_node_by_full_name_tie s' _ nf af]; exact h5

/-- the other nodes and all attackers stay, in order -/
theorem remove_node_keeps_rest (s s' : H) (r : NRef) (nf af : Nat) (hc : Consistent (absS s nf af))
    (hr : r ∈ s.nodes) (h : graph_remove_node s r = .ok s') :
    s'.nodes = s.nodes.filter (· ≠ r) ∧ s'.attackers = s.attackers := by
  have t := remove_node_tie s s' r nf af h
  have := MalVerif.C09.removeNode_keeps_rest (absS s nf af) r hc hr
  rw [← t] at this
  exact this

/-! ### attackers -/

theorem add_attacker_consistent (s s' : H) (a : ARef) (aid : Option Int) (entry reached : List Int) (nf : Nat)
    (hc : Consistent (absS s nf a))
    (hfresh : (s.a a).entry_points = [] ∧ (s.a a).reached_attack_steps = [])
    (h : graph_add_attacker s a aid entry reached = .ok s') : Consistent (absS s' nf (a + 1)) :=
  MalVerif.C09.addAttacker_consistent hc (add_attacker_tie s s' a aid entry reached nf hfresh h)

theorem remove_attacker_consistent (s s' : H) (a : ARef) (nf af : Nat) (hc : Consistent (absS s nf af))
    (ha : a ∈ s.attackers) (h : graph_remove_attacker s a = .ok s') : Consistent (absS s' nf af) := by
  rw [remove_attacker_tie s s' a nf af h]
  exact MalVerif.C09.removeAttacker_consistent _ a hc ha

theorem remove_attacker_terminates_normally (s : H) (a : ARef) (nf af : Nat) (hc : Consistent (absS s nf af))
    (ha : a ∈ s.attackers) (hid : (s.a a).id.isSome) : ∃ s', graph_remove_attacker s a = .ok s' :=
  remove_attacker_ok s a nf af hc ha hid

theorem compromise_consistent (s : H) (a : ARef) (n : NRef) (nf af : Nat) (hc : Consistent (absS s nf af))
    (ha : a ∈ s.attackers) (hn : n ∈ s.nodes) : Consistent (absS (attacker_compromise s a n) nf af) := by
  rw [compromise_tie s a n nf af]
  exact MalVerif.C09.compromise_consistent _ a n hc ha hn

theorem undo_consistent (s s' : H) (a : ARef) (n : NRef) (nf af : Nat) (hc : Consistent (absS s nf af))
    (ha : a ∈ s.attackers) (hn : n ∈ s.nodes) (h : attacker_undo_compromise s a n = .ok s') :
    Consistent (absS s' nf af) := by
  rw [undo_tie s s' a n nf af h]
  exact MalVerif.C09.undo_consistent _ a n hc ha hn

/-- in a consistent graph `undo_compromise` returns normally -/
theorem undo_terminates_normally (s : H) (a : ARef) (n : NRef) (nf af : Nat) (hc : Consistent (absS s nf af))
    (ha : a ∈ s.attackers) (hn : n ∈ s.nodes) : ∃ s', attacker_undo_compromise s a n = .ok s' :=
  undo_ok s a n (fun h => (hc.comp.mirror a ha n hn).2 h)

/-! ### lookups -/

/-- `get_node_by_id` returns exactly the nodes of the graph with that id: nothing stale, nothing missing -/
theorem lookup_exact (s : H) (nf af : Nat) (hc : Consistent (absS s nf af)) :
    ∀ k r, graph_get_node_by_id s k = some r ↔ (r ∈ s.nodes ∧ (s.n r).id.getD 0 = k) := by
  intro k r
  rw [get_node_by_id_tie s k nf af]
  exact (MalVerif.C09.lookup_exact _ hc).1 k r

theorem lookup_attacker_exact (s : H) (nf af : Nat) (hc : Consistent (absS s nf af)) :
    ∀ k a, graph_get_attacker_by_id s k = some a ↔ (a ∈ s.attackers ∧ (s.a a).id.getD 0 = k) := by
  intro k a
  rw [get_attacker_by_id_tie s k nf af]
  exact (MalVerif.C09.lookup_exact _ hc).2 k a

/-- `get_node_by_full_name` never returns a stale or wrongly named node -/
theorem lookup_name_sound (s : H) (nf af : Nat) (hc : Consistent (absS s nf af)) (k : String) (r : NRef)
    (hk : graph_get_node_by_full_name s k = some r) : r ∈ s.nodes ∧ fullName (absN (s.n r)) = k := by
  rw [get_node_by_full_name_tie s k nf af] at hk
  exact MalVerif.C09.lookup_name_sound _ hc k r hk

/-! ### the hypotheses are satisfiable by a non-trivial heap -/

/-- two nodes are added to the empty graph (ids 0 and 1 are generated), the first one is removed again: every
call returns normally, the heaps are consistent, and the removed node is gone from list and index -/
example : ∃ s1 s2 s3, graph_add_node {} 0 none = .ok s1 ∧ graph_add_node s1 1 none = .ok s2 ∧
    graph_remove_node s2 0 = .ok s3 ∧ Consistent (absS s2 2 0) ∧ NamesExact (absS s2 2 0) ∧ s2.nodes = [0, 1] ∧
    graph_get_node_by_id s2 0 = some 0 ∧
    Consistent (absS s3 2 0) ∧ s3.nodes = [1] ∧ graph_get_node_by_id s3 0 = none ∧
    graph_add_node s2 2 (some 1) = .error .valueError := by
  have e1 : graph_add_node {} 0 none = .ok (TG.anSt {} 0 0) := rfl
  have e2 : graph_add_node (TG.anSt {} 0 0) 1 none = .ok (TG.anSt (TG.anSt {} 0 0) 1 1) := rfl
  have c1 := add_node_consistent _ _ 0 none 0 init_consistent ⟨rfl, rfl, rfl⟩ e1
  have x1 := add_node_namesExact _ _ 0 none 0 init_consistent init_namesExact rfl e1
  have c2 := add_node_consistent _ _ 1 none 0 c1 ⟨rfl, rfl, rfl⟩ e2
  have x2 := add_node_namesExact _ _ 1 none 0 c1 x1 rfl e2
  have hm : 0 ∈ (TG.anSt (TG.anSt {} 0 0) 1 1).nodes := by decide
  obtain ⟨s3, e3⟩ := remove_node_terminates_normally _ 0 2 0 c2 x2 hm rfl
  refine ⟨_, _, s3, e1, e2, e3, c2, x2, rfl, rfl, remove_node_consistent _ _ 0 2 0 c2 hm e3, ?_, ?_,
    add_node_rejects_duplicate_id _ 2 1 1 rfl⟩
  · rw [(remove_node_keeps_rest _ _ 0 2 0 c2 hm e3).1]; rfl
  · exact (remove_node_leaves_no_trace _ _ 0 2 0 c2 hm e3).2.2.2.2.2.1

end MalVerif.PropsGen.C09
